#!/usr/bin/env python3
"""tools/trymut.py <mutants.py> [ids...]   probe the checks with hand-made mutants (scratch copies of /repo only).

<mutants.py> defines MUTANTS = [(id, relative file, old text, new text, [property ids], expect)], expect in {"caught", "silent"}.
Each mutant is applied by exact text replacement (the old text must occur exactly once) to a scratch copy of /repo's working
tree under /tmp/hxmut, `cargo check` must accept it, the listed checks run against the copy (HX_REPO / HX_WORK / HX_EVIDENCE),
and the copy is removed.  Prints one line per mutant: which checks alarmed and the first violated obligation.
"""
import importlib.util
import os
import re
import shutil
import subprocess
import sys
from concurrent.futures import ThreadPoolExecutor

V = os.path.dirname(os.path.dirname(os.path.abspath(__file__)))
spec = importlib.util.spec_from_file_location("muts", sys.argv[1])
mod = importlib.util.module_from_spec(spec)
spec.loader.exec_module(mod)
only = set(sys.argv[2:])
JOBS = int(os.environ.get("JOBS", "3"))
ENV = dict(os.environ, CARGO_NET_OFFLINE="true", RUSTFLAGS="-Awarnings")


def one(args):
    slot, m = args
    mid, rel, old, new, props, expect = m
    d = "/tmp/hxmut/%s" % mid
    shutil.rmtree(d, ignore_errors=True)
    os.makedirs(d)
    try:
        subprocess.run(["rsync", "-a", "--exclude", "/target", "--exclude", "/.git", "/repo/", d + "/repo/"], check=True)
        p = os.path.join(d, "repo", rel)
        s = open(p).read()
        if s.count(old) != 1:
            return "%s  BAD-MUTANT old text occurs %d times" % (mid, s.count(old))
        open(p, "w").write(s.replace(old, new))
        if os.environ.get("COMPILE", "1") == "1":
            r = subprocess.run(["cargo", "check", "--offline", "--workspace", "-q"], cwd=d + "/repo", env=dict(ENV, CARGO_TARGET_DIR="/tmp/hxmut/target-%d" % slot), capture_output=True, text=True)
            if r.returncode != 0:
                return "%s  DOES-NOT-COMPILE %s" % (mid, r.stderr[-300:].replace("\n", " "))
        out = []
        caught = False
        for pid in props:
            r = subprocess.run([os.path.join(V, "check"), pid], env=dict(os.environ, HX_REPO=d + "/repo", HX_WORK="/tmp/hxmut/work-%d" % slot, HX_EVIDENCE=d + "/ev"), capture_output=True, text=True)
            viol = [l for l in r.stdout.splitlines() if l.startswith("violated") or " violated " in l[:40]]
            if r.returncode != 0:
                caught = True
                out.append("%s: %s" % (pid, (viol[0] if viol else r.stdout[-200:])[:230]))
            else:
                out.append("%s: silent" % pid)
        verdict = "caught" if caught else "silent"
        flag = "" if verdict == expect else "   <<<<<< expected %s" % expect
        return "%s  %s%s\n      %s" % (mid, verdict, flag, "\n      ".join(out))
    finally:
        shutil.rmtree(d, ignore_errors=True)


todo = [m for m in mod.MUTANTS if not only or m[0] in only]
slots = list(range(JOBS))
with ThreadPoolExecutor(JOBS) as ex:
    import itertools, queue
    q = queue.Queue()
    for s in slots:
        q.put(s)

    def run(m):
        s = q.get()
        try:
            return one((s, m))
        except Exception as e:  # noqa
            return "%s  ERROR %s" % (m[0], e)
        finally:
            q.put(s)

    for line in ex.map(run, todo):
        print(line, flush=True)
