#!/usr/bin/env python3
"""Render seeded/RESULTS.json as the table of DESIGN.md section 8 (between the markers <!-- seed-table --> ... <!-- /seed-table -->)."""
import json
import os
import re

V = os.path.dirname(os.path.dirname(os.path.abspath(__file__)))
# rules that compare extracted tables / normal forms with a reviewed reference ("this code changed")
REFERENCE_RULES = {"R01.1", "R01.3", "R01.4", "R02.4", "R02.6", "R03.6", "R04.6", "R05.7", "R06.6", "R07.6", "R10.5", "R11.5", "R12.6", "R13.4", "R14.5", "R15.6", "R16.5",
                   "R17.5", "R18.4", "R19.4", "R20.4"}
res = json.load(open(os.path.join(V, "seeded", "RESULTS.json")))
rows = ["| seed | change | own property: rules that fire | other properties alarming |", "|---|---|---|---|"]
n_own = 0
n = 0
only_nf = 0
for s in sorted(k for k in res if k != "_clean_tree"):
    r = res[s]
    notes = os.path.join(V, "seeded", s, "notes.md")
    title = ""
    if os.path.exists(notes):
        for line in open(notes):
            if line.strip().startswith("#"):
                title = re.sub(r"^#+\s*", "", line.strip())
                title = re.sub(r"^(C\d\d\s+)?[Vv]ariant\s+\w+\s*[-—:]+\s*", "", title)
                break
    own = s.split("-")[0]
    n += 1
    if r.get("error"):
        rows.append("| %s | %s | **%s** | |" % (s, title[:110], r["error"][:60]))
        continue
    det = r.get("detail", {}).get(own, [])
    rules = []
    for d in det:
        m = re.match(r"violated (\S+)", d)
        if m and m.group(1) not in rules:
            rules.append(m.group(1))
    if r.get("own_property_alarm"):
        n_own += 1
    nf_only = bool(rules) and all(x in REFERENCE_RULES for x in rules)
    if nf_only:
        only_nf += 1
    others = [p for p in r.get("caught_by", []) if p != own]
    rows.append("| %s | %s | %s | %s |" % (s, title[:110].replace("|", "/"), (", ".join(rules) + (" (new trait-impl method)" if nf_only else "")) if rules else "**not caught**", ", ".join(others) or "-"))
summary = "%d of %d seeded changes raise an alarm of their own property's check; %d of them only through the structural part of the reference pass (a new method in a trait impl: function-new) - the comparisons of normal forms themselves are advisory and raise no alarm. Clean tree during the sweep: alarms = %s." % (
    n_own, n, only_nf, res.get("_clean_tree", {}).get("alarms"))
block = "<!-- seed-table -->\n" + summary + "\n\n" + "\n".join(rows) + "\n<!-- /seed-table -->"
p = os.path.join(V, "DESIGN.md")
s = open(p).read()
if "<!-- seed-table -->" in s:
    s = re.sub(r"<!-- seed-table -->.*?<!-- /seed-table -->", lambda m: block, s, flags=re.S)
else:
    s = s.replace("(table inserted by the sweep — see section 8 of the committed file)", block)
open(p, "w").write(s)
print(summary)
