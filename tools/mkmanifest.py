#!/usr/bin/env python3
"""Regenerate MANIFEST.json from the rule modules present (rules/Cxx.py with a MANIFEST dict)."""
import importlib
import json
import os
import sys

V = os.path.dirname(os.path.dirname(os.path.abspath(__file__)))
sys.path.insert(0, V)
props = [json.loads(l) for l in open(os.path.join(V, "properties.jsonl"))]
checks = []
na = []
for p in props:
    pid = p["id"]
    try:
        m = importlib.import_module("rules." + pid)
    except ModuleNotFoundError:
        na.append({"property_id": pid, "reason": "check not built yet (construction in progress, see DESIGN.md section 8)"})
        continue
    man = getattr(m, "MANIFEST", None)
    if man is None or man.get("not_applicable"):
        na.append({"property_id": pid, "reason": (man or {}).get("not_applicable", "check not armed yet")})
        continue
    checks.append({
        "property_id": pid,
        "quick_cmd": "./check %s --tier quick" % pid,
        "thorough_cmd": "./check %s --tier thorough" % pid,
        "evidence_file": "/verif/evidence/%s.json" % pid,
        "replay_cmd_template": "./check %s --replay {path}" % pid,
        "engine": "hx (hx-mir + hx-ast + rules)",
        "level_claimed": {"category": m.LEVEL, "text": man["text"], "design_ref": "DESIGN.md section 4." + pid},
        "level_note": man["note"] + " The comparison of extracted tables / normal forms with the reviewed references is ADVISORY: a difference is printed as a REVIEW line and listed under unreviewed_changes in the evidence, it never produces a VIOLATION (an idiom the canonical forms do not cover looks the same as a change); violations come from the fact rules and from the comparisons with the transcribed standard only.",
        "technique": man["technique"],
    })
out = {
    "version": 1,
    "setup_cmd": "cd /verif && CARGO_NET_OFFLINE=true ./setup.sh",
    "hooks": {"guard": "none", "enable": "no source hooks: every check is a static analysis of /repo's sources as they are (rustc_private driver + syn over the macro-expanded crates)",
              "baseline_off_cmd": "cd /repo && cargo test --workspace --no-fail-fast --offline", "source_commits": [], "add_only": True},
    "engines": [
        {"name": "hx-mir", "path": "engines/hx-mir", "serves_properties": [c["property_id"] for c in checks], "kind_free_text": "rustc_private driver (nightly) injected as RUSTC_WORKSPACE_WRAPPER: MIR facts (CFG, resolved callees, places, ADTs, impls) and the macro-expanded source of every workspace crate"},
        {"name": "hx-ast", "path": "engines/hx-ast", "serves_properties": [c["property_id"] for c in checks], "kind_free_text": "syn 2 parser dumping a span-free JSON syntax tree of expanded and raw sources"},
        {"name": "rules", "path": "rules", "serves_properties": [c["property_id"] for c in checks], "kind_free_text": "python: decision-tree flattening (lib/flat.py, lib/machine.py), dominance / def-use rules over MIR (lib/mir.py), table rules"},
    ],
    "checks": checks,
    "notes": "Static analysis only; see DESIGN.md. Each check decides the clauses listed in its level_note, never the behavioural statement as a whole. Reference comparisons ('equals the reviewed normal form') are advisory, see DESIGN.md 3.4.",
    "not_applicable": na,
}
json.dump(out, open(os.path.join(V, "MANIFEST.json"), "w"), indent=1)
print("claimed:", [c["property_id"] for c in checks], "n/a:", [n["property_id"] for n in na])
