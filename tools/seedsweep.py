#!/usr/bin/env python3
"""Apply every seeded defect to /repo in turn (git apply ... git checkout -- .) and record which checks alarm.
usage: tools/seedsweep.py [seed-dir-names...]   -> writes seeded/RESULTS.json and prints a table"""
import json
import os
import subprocess
import sys

V = os.path.dirname(os.path.dirname(os.path.abspath(__file__)))
os.chdir(V)
seeds = sorted(d for d in os.listdir("seeded") if os.path.isdir(os.path.join("seeded", d)))
if len(sys.argv) > 1:
    seeds = [s for s in seeds if s in sys.argv[1:] or s.split("-")[0] in sys.argv[1:]]
man = json.load(open("MANIFEST.json"))
claimed = [c["property_id"] for c in man["checks"]]
assert subprocess.run(["git", "-C", "/repo", "status", "--porcelain", "--untracked-files=no"], capture_output=True, text=True).stdout.strip() == "", "/repo has local changes"
res = {}
rp = os.path.join("seeded", "RESULTS.json")
if os.path.exists(rp) and len(sys.argv) > 1:
    res = json.load(open(rp))
for s in seeds:
    patch = os.path.join(V, "seeded", s, "patch.diff")
    r = subprocess.run(["git", "-C", "/repo", "apply", patch], capture_output=True, text=True)
    if r.returncode != 0:
        res[s] = {"error": "patch does not apply: " + r.stderr[:200]}
        print(s, "PATCH DOES NOT APPLY")
        continue
    try:
        hits = {}
        for p in claimed:
            out = subprocess.run(["./check", p], capture_output=True, text=True)
            if out.returncode != 0:
                hits[p] = [l.strip()[:240] for l in out.stdout.splitlines() if l.strip().startswith("violated")][:4]
        own = s.split("-")[0]
        res[s] = {"caught_by": sorted(hits), "own_property_alarm": own in hits, "detail": hits}
        print("%-7s own=%-5s caught_by=%s" % (s, own in hits, ",".join(sorted(hits)) or "-"))
    finally:
        subprocess.run(["git", "-C", "/repo", "checkout", "--", "."])
json.dump(res, open(rp, "w"), indent=1)
subprocess.run(["git", "-C", "/repo", "status", "--short"])
