#!/usr/bin/env python3
"""Run every claimed check against every seeded change and record which checks alarm.

Each worker owns a scratch copy of /repo's working tree (under /tmp/hxsweep, removed at the end) with its own
target directory and evidence directory (HX_REPO / HX_WORK / HX_EVIDENCE), applies one seeded patch at a time to its
copy, runs ./check for every claimed property and reverts the copy.  /repo itself is only read.

usage: tools/seedsweep.py [-j N] [seed-dir-names or property ids ...]   -> writes seeded/RESULTS.json, prints a table
       tools/seedsweep.py --benign [-j N] [names...]   behaviour-preserving edits of selftest/benign/*.diff: each must
                                                        compile and leave every check silent -> selftest/BENIGN_RESULTS.json
"""
import json
import os
import shutil
import subprocess
import sys
import threading

V = os.path.dirname(os.path.dirname(os.path.abspath(__file__)))
os.chdir(V)
args = sys.argv[1:]
BENIGN = args[:1] == ["--benign"]
if BENIGN:
    args = args[1:]
OWN = False
if args[:1] == ["--own"]:
    # seeds only: run just the seed's own property (regression run after rule changes; other properties' results are kept)
    OWN = True
    args = args[1:]
TARGETED = False
if args[:1] == ["--targeted"]:
    # run, per patch, only the checks whose rules read the files the patch touches (and, for seeds, the seed's own property)
    TARGETED = True
    args = args[1:]
FILE_PROPS = [("html5ever/src/tokenizer/char_ref", "C01 C03 C07 C09 C14"), ("html5ever/src/tokenizer", "C01 C03 C04 C07 C08 C09 C14 C19"),
              ("xml5ever/src/tokenizer", "C04 C08 C14 C15 C16 C17"), ("html5ever/src/tree_builder", "C02 C03 C04 C05 C06 C07 C08 C09 C18 C19"),
              ("xml5ever/src/tree_builder", "C04 C05 C16 C17 C18"), ("html5ever/src/serialize", "C07"), ("xml5ever/src/serialize", "C17"),
              ("html5ever/src/driver", "C03 C04 C10 C19"), ("xml5ever/src/driver", "C04 C15"), ("html5ever/src/encoding", "C04 C19"),
              ("tendril/", "C10 C11 C12 C13 C04"), ("rcdom/", "C04 C06 C07 C17 C20"), ("markup5ever/util", "C13 C07 C04 C03"), ("markup5ever/", "C05 C07 C17 C19 C04"),
              ("web_atoms/", "C14 C02 C04")]


def props_for(patch, own=None):
    txt = open(patch).read()
    files = [l.split(" b/", 1)[1].strip() for l in txt.splitlines() if l.startswith("diff --git ") and " b/" in l]
    out = set([own] if own else [])
    for f in files:
        for pre, ps in FILE_PROPS:
            if f.startswith(pre):
                out.update(ps.split())
                break
        else:
            return list(claimed)
    return [c for c in claimed if c in out]


jobs = 4
if args[:1] == ["-j"]:
    jobs = int(args[1])
    args = args[2:]
if BENIGN:
    seeds = sorted(f[:-5] for f in os.listdir("selftest/benign") if f.endswith(".diff"))
    if args:
        seeds = [s for s in seeds if any(s.startswith(a) for a in args)]
else:
    seeds = sorted(d for d in os.listdir("seeded") if os.path.isdir(os.path.join("seeded", d)))
    if args:
        seeds = [s for s in seeds if s in args or s.split("-")[0] in args]
man = json.load(open("MANIFEST.json"))
claimed = [c["property_id"] for c in man["checks"]]
SCR = ("/tmp/hxsweep-benign" if BENIGN else "/tmp/hxsweep") + "-%d" % os.getpid()  # one scratch root per invocation: concurrent sweeps must not remove each other's copies
shutil.rmtree(SCR, ignore_errors=True)
# the checks run from a snapshot of /verif, so that /verif can be edited while the sweep runs
SNAP = os.path.join(SCR, "verif")
os.makedirs(SNAP)
subprocess.check_call(["rsync", "-a", "--exclude", "/.work", "--exclude", "/.git", "--exclude", "/engines/*/target", "--exclude", "/evidence", V + "/", SNAP + "/"])
for eng in ("hx-mir", "hx-ast"):
    os.makedirs(os.path.join(SNAP, "engines", eng, "target", "debug"))
    shutil.copy2(os.path.join(V, "engines", eng, "target", "debug", eng), os.path.join(SNAP, "engines", eng, "target", "debug", eng))
res = {}
rp = os.path.join("selftest", "BENIGN_RESULTS.json") if BENIGN else os.path.join("seeded", "RESULTS.json")
if os.path.exists(rp) and (args or OWN or TARGETED):
    res = json.load(open(rp))
lock = threading.Lock()
todo = list(seeds)


def copy_repo(dst):
    os.makedirs(dst)
    subprocess.check_call(["rsync", "-a", "--exclude", "/target", "--exclude", "/.git", "/repo/", dst + "/"])


def run_checks(env, tier="quick", only=None):
    hits = {}
    for p in (only if only is not None else claimed):
        out = subprocess.run(["./check", p, "--tier", tier], capture_output=True, text=True, env=env, cwd=SNAP)
        if out.returncode != 0:
            hits[p] = [l.strip()[:240] for l in out.stdout.splitlines() if l.strip().startswith("violated")][:12] or [out.stderr[-200:]]
    return hits


def worker(i):
    base = os.path.join(SCR, "w%d" % i)
    repo = os.path.join(base, "repo")
    copy_repo(repo)
    env = dict(os.environ, HX_REPO=repo, HX_WORK=os.path.join(base, "work"), HX_EVIDENCE=os.path.join(base, "evidence"))
    if i == 0:
        clean = run_checks(env)
        with lock:
            res["_clean_tree"] = {"alarms": sorted(clean)}
            print("clean tree: alarms=%s" % (",".join(sorted(clean)) or "-"), flush=True)
    while True:
        with lock:
            if not todo:
                return
            s = todo.pop(0)
        patch = os.path.join(V, "selftest", "benign", s + ".diff") if BENIGN else os.path.join(V, "seeded", s, "patch.diff")
        r = subprocess.run(["git", "apply", patch], cwd=repo, capture_output=True, text=True)
        if r.returncode != 0:
            with lock:
                res[s] = {"error": "patch does not apply: " + r.stderr[:200]}
                print(s, "PATCH DOES NOT APPLY", r.stderr[:200], flush=True)
            continue
        try:
            if BENIGN:
                b = subprocess.run(["cargo", "check", "--offline", "--workspace", "-q"], cwd=repo, capture_output=True, text=True,
                                   env=dict(os.environ, CARGO_TARGET_DIR=os.path.join(base, "ctarget"), CARGO_NET_OFFLINE="true", RUSTFLAGS="-Awarnings"))
                if b.returncode != 0:
                    with lock:
                        res[s] = {"error": "does not compile: " + b.stderr[-300:]}
                        print(s, "DOES NOT COMPILE", flush=True)
                    continue
                hits = run_checks(env, only=props_for(patch) if TARGETED else None)
                if "tendril/src/stream.rs" in open(patch).read() or "tendril/src/utf8_decode.rs" in open(patch).read():
                    # the encoding_rs rules (R10.6, R10.9) exist in the thorough tier only: run it for patches that touch the decoders
                    out = subprocess.run(["./check", "C10", "--tier", "thorough"], capture_output=True, text=True, env=env, cwd=SNAP)
                    if out.returncode != 0:
                        hits["C10/thorough"] = [l.strip()[:240] for l in out.stdout.splitlines() if l.strip().startswith("violated")][:12] or [out.stderr[-200:]]
                with lock:
                    res[s] = {"false_alarms": hits}
                    try:
                        disk = json.load(open(rp))
                    except (OSError, ValueError):
                        disk = {}
                    disk[s] = res[s]
                    if "_clean_tree" in res:
                        disk["_clean_tree"] = res["_clean_tree"]
                    json.dump({k: disk[k] for k in sorted(disk)}, open(rp, "w"), indent=1)
                    print("%-30s %s" % (s, "silent" if not hits else "FALSE ALARM: " + "; ".join("%s(%s)" % (k, (v[0] if v else "")[:120]) for k, v in hits.items())), flush=True)
                continue
            mp = os.path.join(V, "seeded", s, "meta.json")
            tier = json.load(open(mp)).get("tier", "quick") if os.path.exists(mp) else "quick"
            own = s.split("-")[0]
            hits = run_checks(env, tier, only=[own] if OWN else props_for(patch, own) if TARGETED else None)
            with lock:
                if OWN and isinstance(res.get(s), dict) and "caught_by" in res[s]:
                    prev = res[s]
                    others = [p for p in prev.get("caught_by", []) if p != own]
                    det = {k: v for k, v in prev.get("detail", {}).items() if k != own}
                    det.update(hits)
                    res[s] = {"caught_by": sorted(set(others) | set(hits)), "own_property_alarm": own in hits, "detail": det}
                else:
                    res[s] = {"caught_by": sorted(hits), "own_property_alarm": own in hits, "detail": hits}
                json.dump({k: res[k] for k in sorted(res)}, open(rp, "w"), indent=1)
                print("%-7s own=%-5s caught_by=%s" % (s, own in hits, ",".join(sorted(hits)) or "-"), flush=True)
        finally:
            subprocess.run(["git", "apply", "-R", patch], cwd=repo, capture_output=True)


ths = [threading.Thread(target=worker, args=(i,)) for i in range(min(jobs, max(1, len(seeds))))]
for t in ths:
    t.start()
for t in ths:
    t.join()
try:
    disk = json.load(open(rp)) if (args or OWN or TARGETED) else {}
except (OSError, ValueError):
    disk = {}
for k in list(seeds) + ["_clean_tree"]:
    if k in res:
        disk[k] = res[k]
json.dump({k: disk[k] for k in sorted(disk)}, open(rp, "w"), indent=1)
shutil.rmtree(SCR, ignore_errors=True)
