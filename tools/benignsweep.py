#!/usr/bin/env python3
"""Robustness self-test: apply each behaviour-preserving edit of selftest/benign/ to /repo (git apply ... git checkout -- .)
and require every check to stay silent.  Writes selftest/BENIGN_RESULTS.json."""
import json
import os
import subprocess
import sys

V = os.path.dirname(os.path.dirname(os.path.abspath(__file__)))
os.chdir(V)
pats = sorted(f[:-5] for f in os.listdir("selftest/benign") if f.endswith(".diff"))
if len(sys.argv) > 1:
    pats = [p for p in pats if any(p.startswith(a) for a in sys.argv[1:])]
claimed = [c["property_id"] for c in json.load(open("MANIFEST.json"))["checks"]]
assert subprocess.run(["git", "-C", "/repo", "status", "--porcelain", "--untracked-files=no"], capture_output=True, text=True).stdout.strip() == "", "/repo has local changes"
res = {}
for p in pats:
    r = subprocess.run(["git", "-C", "/repo", "apply", os.path.join(V, "selftest/benign", p + ".diff")], capture_output=True, text=True)
    if r.returncode != 0:
        res[p] = {"error": "patch does not apply"}
        print(p, "DOES NOT APPLY", r.stderr[:100])
        continue
    try:
        b = subprocess.run(["cargo", "check", "--offline", "--workspace", "-q"], cwd="/repo", capture_output=True, text=True)
        if b.returncode != 0:
            res[p] = {"error": "does not compile: " + b.stderr[-300:]}
            print(p, "DOES NOT COMPILE")
            continue
        alarms = {}
        for c in claimed:
            out = subprocess.run(["./check", c], capture_output=True, text=True)
            if out.returncode != 0:
                alarms[c] = [l.strip()[:200] for l in out.stdout.splitlines() if l.strip().startswith("violated")][:3]
        res[p] = {"false_alarms": alarms}
        print("%-28s %s" % (p, "silent" if not alarms else "FALSE ALARM: " + ", ".join("%s(%s)" % (k, v[0].split(" -- ")[0][9:60] if v else "") for k, v in alarms.items())))
    finally:
        subprocess.run(["git", "-C", "/repo", "checkout", "--", "."])
json.dump(res, open("selftest/BENIGN_RESULTS.json", "w"), indent=1)
