#!/bin/sh
# tools/tryseed.sh <seed-dir-name> <property ids...>   run the given checks (working /verif) on a scratch copy of /repo with one seeded patch applied
set -e
S=$1; shift
D=/tmp/hxtry-$S
rm -rf $D; mkdir -p $D/repo
rsync -a --exclude /target --exclude /.git /repo/ $D/repo/
(cd $D/repo && git apply /verif/seeded/$S/patch.diff)
for P in "$@"; do
  HX_REPO=$D/repo HX_WORK=${HXTRY_WORK:-/tmp/hxtry-work} HX_EVIDENCE=$D/ev /verif/check $P 2>/dev/null | grep -E "violated|^$P:" | cut -c1-${COLS:-330} | head -${LINES_MAX:-8}
done
rm -rf $D
