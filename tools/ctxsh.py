"""interactive helper: from tools.ctxsh import ctx; ctx = ctx('C04')"""
import os, sys
sys.path.insert(0, os.path.dirname(os.path.dirname(os.path.abspath(__file__))))
from lib import core, facts as factsmod


def ctx(prop="C01", tier="quick", features=None):
    if features:
        d, h = factsmod.ensure_facts(features=factsmod.ALL_FEATURES)
        return core.Ctx(prop, tier, d, h, config="all-features")
    d, h = factsmod.ensure_facts()
    return core.Ctx(prop, tier, d, h)
