#!/usr/bin/env python3
"""Confirm candidate seeded changes written by sub-agents, in scratch worktrees of /repo (never in /repo itself).

usage: tools/confirmseed.py <out-root> <ID>:<variant>[,<variant>...] ...      e.g.  /tmp/wt  C02:C,D C03:C,D
       <out-root>/s2-<ID>-out/<variant>/{patch.diff,demo.rs,notes.md}

For each candidate: the demonstration must pass on the unmodified tree and fail with the patch; the patch must compile
and leave the per-test result set of `cargo test --workspace --offline --no-fail-fast` unchanged.  Confirmed candidates
are copied to /verif/seeded/<ID>-<variant>/ with a meta.json.  Scratch worktrees (/tmp/wt/confirm-*) are removed.
"""
import json
import os
import re
import shutil
import subprocess
import sys
import threading

V = os.path.dirname(os.path.dirname(os.path.abspath(__file__)))
ROOT = sys.argv[1]
cands = []
for a in sys.argv[2:]:
    pid, vs = a.split(":")
    for v in vs.split(","):
        cands.append((pid, v))
ENV = dict(os.environ, CARGO_NET_OFFLINE="true", RUSTFLAGS="-Awarnings")
lock = threading.Lock()
HEAD = subprocess.check_output(["git", "-C", "/repo", "rev-parse", "--short", "HEAD"], text=True).strip()


def sh(cmd, cwd, timeout=3600):
    return subprocess.run(cmd, cwd=cwd, env=ENV, capture_output=True, text=True, timeout=timeout)


def suite(wt):
    r = sh(["cargo", "test", "--workspace", "--offline", "--no-fail-fast"], wt)
    res = {}
    cur = ""
    for line in (r.stdout + "\n" + r.stderr).splitlines():
        m = re.match(r"\s*(Running|Doc-tests) (.*)", line)
        if m:
            cur = re.sub(r"-[0-9a-f]{16}\)?$", "", m.group(2).strip())
        m = re.match(r"test (.+?) \.\.\. (\w+)", line)
        if m:
            key = re.sub(r"/tmp/wt/confirm-\d+", "<wt>", cur + " :: " + m.group(1))
            key = re.sub(r" \(line \d+\)", " (line N)", key)  # a doctest's name carries its line number: a patch above it shifts the name, not the test
            key = re.sub(r"-[0-9a-f]{16}/", "-<hash>/", key)
            res[key] = "failed" if res.get(key) == "failed" else m.group(2) if m.group(2) != "ok" or key not in res else res[key]
    return res


def demo_target(wt, relpath):
    """(package dir, test name) for a demo copied to <crate>/tests/<name>.rs"""
    parts = relpath.split("/")
    crate_dir = parts[0]
    name = os.path.splitext(parts[-1])[0]
    ct = open(os.path.join(wt, crate_dir, "Cargo.toml")).read()
    pkg = re.search(r'name\s*=\s*"([^"]+)"', ct).group(1)
    return pkg, name


def run_demo(wt, pkg, name, features=None):
    r = sh(["cargo", "test", "--offline", "-p", pkg, "--test", name] + (["--features", features] if features else []), wt)
    m = re.findall(r"test result: (\w+)\. (\d+) passed; (\d+) failed", r.stdout)
    if not m:
        return None, (r.stderr[-400:] or r.stdout[-400:])
    return all(x[0] == "ok" for x in m), "; ".join("%s passed %s failed" % (x[1], x[2]) for x in m)


def worker(i, todo, results, baseline):
    wt = "/tmp/wt/confirm-%d" % i
    subprocess.run(["git", "-C", "/repo", "worktree", "add", "-f", wt, "HEAD"], capture_output=True)
    try:
        if baseline.get("res") is None:
            with baseline["lock"]:
                if baseline.get("res") is None:
                    baseline["res"] = suite(wt)
                    print("baseline: %d tests, %d ok" % (len(baseline["res"]), sum(1 for v in baseline["res"].values() if v == "ok")), flush=True)
        while True:
            with lock:
                if not todo:
                    return
                pid, v = todo.pop(0)
            src = os.path.join(ROOT, "%s-%s-out" % (os.environ.get("ROUND", "s2"), pid), v)
            tag = "%s-%s" % (pid, v)
            try:
                demo = open(os.path.join(src, "demo.rs")).read()
                m = re.match(r"//\s*copy to:\s*(\S+)", demo)
                rel = m.group(1)
                os.makedirs(os.path.dirname(os.path.join(wt, rel)), exist_ok=True)
                open(os.path.join(wt, rel), "w").write(demo)
                pkg, name = demo_target(wt, rel)
                notes = open(os.path.join(src, "notes.md")).read() if os.path.exists(os.path.join(src, "notes.md")) else ""
                feats = "encoding_rs" if (pkg == "tendril" and "--features encoding_rs" in (demo + notes)) else None
                ok0, d0 = run_demo(wt, pkg, name, feats)
                ap = sh(["git", "apply", os.path.join(src, "patch.diff")], wt)
                if ap.returncode != 0:
                    raise RuntimeError("patch does not apply: " + ap.stderr[:200])
                ok1, d1 = run_demo(wt, pkg, name, feats)
                os.remove(os.path.join(wt, rel))
                s1 = suite(wt)
                same = s1 == baseline["res"]
                diff = sorted(k for k in set(s1) | set(baseline["res"]) if s1.get(k) != baseline["res"].get(k))[:5]
                conf = ok0 is True and ok1 is False and same
                results[tag] = {"demo_passes_without_patch": ok0, "demo_fails_with_patch": ok1 is False, "suite_same_pass_set_with_patch": same,
                                "detail": {"without": d0, "with": d1, "suite_diff": diff}, "confirmed": conf}
                print("%s confirmed=%s (demo without: %s / with: %s / suite same: %s %s)" % (tag, conf, d0, d1, same, diff), flush=True)
                if conf:
                    dst = os.path.join(V, "seeded", tag)
                    os.makedirs(dst, exist_ok=True)
                    for f in ("patch.diff", "demo.rs", "notes.md"):
                        shutil.copy(os.path.join(src, f), os.path.join(dst, f))
                    json.dump({"property": pid, "variant": v, "round": int(os.environ.get("ROUND", "s2")[1:]),
                               "origin": "independent sub-agent given only the property text and a scratch worktree of /repo at %s" % HEAD,
                               "needs_to_manifest": "see notes.md (written by the sub-agent)", "demo": "// copy to: " + rel,
                               "confirmed_by_me": {"how": "tools/confirmseed.py in a scratch worktree: demo without patch, demo with patch, whole suite with patch compared per test with the unpatched result set",
                                                   "demo_passes_without_patch": True, "demo_fails_with_patch": True, "suite_same_pass_set_with_patch": True},
                               "applies_to_repo_head_after_fix_commits": True,
                               **({"tier": "thorough", "features": "tendril/" + feats} if feats else {})}, open(os.path.join(dst, "meta.json"), "w"), indent=1)
            except Exception as e:  # noqa
                results[tag] = {"confirmed": False, "error": str(e)[:300]}
                print(tag, "ERROR", str(e)[:300], flush=True)
            finally:
                sh(["git", "checkout", "--", "."], wt)
                sh(["git", "clean", "-fdq"], wt)
    finally:
        subprocess.run(["git", "-C", "/repo", "worktree", "remove", "--force", wt], capture_output=True)
        subprocess.run(["git", "-C", "/repo", "worktree", "prune"], capture_output=True)


results = {}
baseline = {"lock": threading.Lock(), "res": None}
jobs = int(os.environ.get("JOBS", "3"))
ths = [threading.Thread(target=worker, args=(i, cands, results, baseline)) for i in range(jobs)]
for t in ths:
    t.start()
for t in ths:
    t.join()
print(json.dumps({k: v.get("confirmed") for k, v in sorted(results.items())}))
