#!/bin/sh
# tools/trybenign.sh <benign-name-prefix> <property ids...>   run checks (working /verif) on a scratch copy of /repo with one benign patch applied
set -e
S=$1; shift
F=$(ls /verif/selftest/benign/$S*.diff | head -1)
D=/tmp/hxtryb-$S
rm -rf $D; mkdir -p $D/repo
rsync -a --exclude /target --exclude /.git /repo/ $D/repo/
(cd $D/repo && git apply $F)
for P in "$@"; do
  HX_REPO=$D/repo HX_WORK=${HXTRY_WORK:-/tmp/hxtry-work} HX_EVIDENCE=$D/ev /verif/check $P 2>/dev/null | grep -E "violated|^$P:" | cut -c1-${COLS:-330} | head -${LINES_MAX:-6}
done
rm -rf $D
