"""A transcription of the WHATWG HTML tokenization state machine (section 13.2.5 of the living standard),
written from the standard's text, independently of html5ever's source, as data.

Every state is a list of rows  (character class, [actions], transition)  tried in order; the last row of a
state is the "anything else" row.  Character classes:  a literal character, a string of literal characters,
WS (tab, LF, FF, space), UPPER, LOWER, ALPHA, EOF, ELSE.

Actions (the standard's wording in brackets):
  ("error",)                       [this is an ... parse error]                      -- compared only as presence
  ("emit", x)                      [emit x as a character token]    x in {"c", a literal}
  ("emit_eof",)
  ("new_tag", kind)                [create a new start/end tag token, set its tag name to the empty string]
  ("tag_name", x)                  [append x to the current tag token's tag name]    x in {"c","lower(c)",literal}
  ("emit_tag",)                    [emit the current tag token]
  ("self_closing",)                [set the self-closing flag]
  ("new_attr",)                    [start a new attribute in the current tag token, name and value empty]
  ("attr_name", x) ("attr_value", x)
  ("temp_clear",) ("temp_push", x) ("emit_temp",)   [temporary buffer]
  ("new_comment", s)               [create a comment token whose data is s]
  ("comment", s)                   [append s to the comment token's data]   s may be "c"
  ("emit_comment",)
  ("new_doctype",) ("doctype_name", x) ("force_quirks",) ("id_empty", which) ("id", which, x) ("emit_doctype",)
  ("charref",)                     [set the return state to this state, switch to the character reference state]
Transitions:  ("to", S)  |  ("reconsume", S)  |  None (stay).

Guards that are not characters are written as dict rows:  {"if": name, "then": [...rows...], "else": [...rows...]}.
"""

WS = "WS"
UPPER = "UPPER"
LOWER = "LOWER"
ALPHA = "ALPHA"
EOF = "EOF"
ELSE = "ELSE"
REPL = "�"


def to(s):
    return ("to", s)


def rec(s):
    return ("reconsume", s)


E = ("error",)


def raw_text_state(name, lt_state, amp=False):
    rows = []
    if amp:
        rows.append(("&", [("charref",)], None))
    rows += [
        ("<", [], to(lt_state)),
        ("\0", [E, ("emit", REPL)], None),
        (EOF, [("emit_eof",)], None),
        (ELSE, [("emit", "c")], None),
    ]
    return rows


SPEC = {}

SPEC["Data"] = [
    ("&", [("charref",)], None),
    ("<", [], to("TagOpen")),
    ("\0", [E, ("emit", "c")], None),
    (EOF, [("emit_eof",)], None),
    (ELSE, [("emit", "c")], None),
]
SPEC["RCDATA"] = raw_text_state("RCDATA", "RCDATALessThanSign", amp=True)
SPEC["RAWTEXT"] = raw_text_state("RAWTEXT", "RAWTEXTLessThanSign")
SPEC["ScriptData"] = raw_text_state("ScriptData", "ScriptDataLessThanSign")
SPEC["PLAINTEXT"] = [
    ("\0", [E, ("emit", REPL)], None),
    (EOF, [("emit_eof",)], None),
    (ELSE, [("emit", "c")], None),
]
SPEC["TagOpen"] = [
    ("!", [], to("MarkupDeclarationOpen")),
    ("/", [], to("EndTagOpen")),
    (ALPHA, [("new_tag", "StartTag")], rec("TagName")),
    ("?", [E, ("new_comment", "")], rec("BogusComment")),
    (EOF, [E, ("emit", "<"), ("emit_eof",)], None),
    (ELSE, [E, ("emit", "<")], rec("Data")),
]
SPEC["EndTagOpen"] = [
    (ALPHA, [("new_tag", "EndTag")], rec("TagName")),
    (">", [E], to("Data")),
    (EOF, [E, ("emit", "<"), ("emit", "/"), ("emit_eof",)], None),
    (ELSE, [E, ("new_comment", "")], rec("BogusComment")),
]
SPEC["TagName"] = [
    (WS, [], to("BeforeAttributeName")),
    ("/", [], to("SelfClosingStartTag")),
    (">", [("emit_tag",)], to("Data")),
    (UPPER, [("tag_name", "lower(c)")], None),
    ("\0", [E, ("tag_name", REPL)], None),
    (EOF, [E, ("emit_eof",)], None),
    (ELSE, [("tag_name", "c")], None),
]


def lt_sign(kind, raw, end_open):
    return [
        ("/", [("temp_clear",)], to(end_open)),
        (ELSE, [("emit", "<")], rec(raw)),
    ]


def end_tag_open(raw, end_name):
    return [
        (ALPHA, [("new_tag", "EndTag")], rec(end_name)),
        (ELSE, [("emit", "<"), ("emit", "/")], rec(raw)),
    ]


def end_tag_name(raw):
    anything = (ELSE, [("emit", "<"), ("emit", "/"), ("emit_temp",)], rec(raw))
    return [
        {"if": "appropriate_end_tag", "on": WS, "then": ([], to("BeforeAttributeName")), "else": anything},
        {"if": "appropriate_end_tag", "on": "/", "then": ([], to("SelfClosingStartTag")), "else": anything},
        {"if": "appropriate_end_tag", "on": ">", "then": ([("emit_tag",)], to("Data")), "else": anything},
        (UPPER, [("tag_name", "lower(c)"), ("temp_push", "c")], None),
        (LOWER, [("tag_name", "c"), ("temp_push", "c")], None),
        anything,
    ]


SPEC["RCDATALessThanSign"] = lt_sign("Rcdata", "RCDATA", "RCDATAEndTagOpen")
SPEC["RCDATAEndTagOpen"] = end_tag_open("RCDATA", "RCDATAEndTagName")
SPEC["RCDATAEndTagName"] = end_tag_name("RCDATA")
SPEC["RAWTEXTLessThanSign"] = lt_sign("Rawtext", "RAWTEXT", "RAWTEXTEndTagOpen")
SPEC["RAWTEXTEndTagOpen"] = end_tag_open("RAWTEXT", "RAWTEXTEndTagName")
SPEC["RAWTEXTEndTagName"] = end_tag_name("RAWTEXT")
SPEC["ScriptDataLessThanSign"] = [
    ("/", [("temp_clear",)], to("ScriptDataEndTagOpen")),
    ("!", [("emit", "<"), ("emit", "!")], to("ScriptDataEscapeStart")),
    (ELSE, [("emit", "<")], rec("ScriptData")),
]
SPEC["ScriptDataEndTagOpen"] = end_tag_open("ScriptData", "ScriptDataEndTagName")
SPEC["ScriptDataEndTagName"] = end_tag_name("ScriptData")
SPEC["ScriptDataEscapeStart"] = [
    ("-", [("emit", "-")], to("ScriptDataEscapeStartDash")),
    (ELSE, [], rec("ScriptData")),
]
SPEC["ScriptDataEscapeStartDash"] = [
    ("-", [("emit", "-")], to("ScriptDataEscapedDashDash")),
    (ELSE, [], rec("ScriptData")),
]
SPEC["ScriptDataEscaped"] = [
    ("-", [("emit", "-")], to("ScriptDataEscapedDash")),
    ("<", [], to("ScriptDataEscapedLessThanSign")),
    ("\0", [E, ("emit", REPL)], None),
    (EOF, [E, ("emit_eof",)], None),
    (ELSE, [("emit", "c")], None),
]
SPEC["ScriptDataEscapedDash"] = [
    ("-", [("emit", "-")], to("ScriptDataEscapedDashDash")),
    ("<", [], to("ScriptDataEscapedLessThanSign")),
    ("\0", [E, ("emit", REPL)], to("ScriptDataEscaped")),
    (EOF, [E, ("emit_eof",)], None),
    (ELSE, [("emit", "c")], to("ScriptDataEscaped")),
]
SPEC["ScriptDataEscapedDashDash"] = [
    ("-", [("emit", "-")], None),
    ("<", [], to("ScriptDataEscapedLessThanSign")),
    (">", [("emit", ">")], to("ScriptData")),
    ("\0", [E, ("emit", REPL)], to("ScriptDataEscaped")),
    (EOF, [E, ("emit_eof",)], None),
    (ELSE, [("emit", "c")], to("ScriptDataEscaped")),
]
SPEC["ScriptDataEscapedLessThanSign"] = [
    ("/", [("temp_clear",)], to("ScriptDataEscapedEndTagOpen")),
    (ALPHA, [("temp_clear",), ("emit", "<")], rec("ScriptDataDoubleEscapeStart")),
    (ELSE, [("emit", "<")], rec("ScriptDataEscaped")),
]
SPEC["ScriptDataEscapedEndTagOpen"] = end_tag_open("ScriptDataEscaped", "ScriptDataEscapedEndTagName")
SPEC["ScriptDataEscapedEndTagName"] = end_tag_name("ScriptDataEscaped")
SPEC["ScriptDataDoubleEscapeStart"] = [
    {"if": "temp_is_script", "on": WS + "/>", "then": ([("emit", "c")], to("ScriptDataDoubleEscaped")), "else": (ELSE, [("emit", "c")], to("ScriptDataEscaped"))},
    (UPPER, [("temp_push", "lower(c)"), ("emit", "c")], None),
    (LOWER, [("temp_push", "c"), ("emit", "c")], None),
    (ELSE, [], rec("ScriptDataEscaped")),
]
SPEC["ScriptDataDoubleEscaped"] = [
    ("-", [("emit", "-")], to("ScriptDataDoubleEscapedDash")),
    ("<", [("emit", "<")], to("ScriptDataDoubleEscapedLessThanSign")),
    ("\0", [E, ("emit", REPL)], None),
    (EOF, [E, ("emit_eof",)], None),
    (ELSE, [("emit", "c")], None),
]
SPEC["ScriptDataDoubleEscapedDash"] = [
    ("-", [("emit", "-")], to("ScriptDataDoubleEscapedDashDash")),
    ("<", [("emit", "<")], to("ScriptDataDoubleEscapedLessThanSign")),
    ("\0", [E, ("emit", REPL)], to("ScriptDataDoubleEscaped")),
    (EOF, [E, ("emit_eof",)], None),
    (ELSE, [("emit", "c")], to("ScriptDataDoubleEscaped")),
]
SPEC["ScriptDataDoubleEscapedDashDash"] = [
    ("-", [("emit", "-")], None),
    ("<", [("emit", "<")], to("ScriptDataDoubleEscapedLessThanSign")),
    (">", [("emit", ">")], to("ScriptData")),
    ("\0", [E, ("emit", REPL)], to("ScriptDataDoubleEscaped")),
    (EOF, [E, ("emit_eof",)], None),
    (ELSE, [("emit", "c")], to("ScriptDataDoubleEscaped")),
]
SPEC["ScriptDataDoubleEscapedLessThanSign"] = [
    ("/", [("temp_clear",), ("emit", "/")], to("ScriptDataDoubleEscapeEnd")),
    (ELSE, [], rec("ScriptDataDoubleEscaped")),
]
SPEC["ScriptDataDoubleEscapeEnd"] = [
    {"if": "temp_is_script", "on": WS + "/>", "then": ([("emit", "c")], to("ScriptDataEscaped")), "else": (ELSE, [("emit", "c")], to("ScriptDataDoubleEscaped"))},
    (UPPER, [("temp_push", "lower(c)"), ("emit", "c")], None),
    (LOWER, [("temp_push", "c"), ("emit", "c")], None),
    (ELSE, [], rec("ScriptDataDoubleEscaped")),
]
SPEC["BeforeAttributeName"] = [
    (WS, [], None),
    ("/>", [], rec("AfterAttributeName")),
    (EOF, [], rec("AfterAttributeName")),
    ("=", [E, ("new_attr",), ("attr_name", "c")], to("AttributeName")),
    (ELSE, [("new_attr",)], rec("AttributeName")),
]
SPEC["AttributeName"] = [
    (WS, [], rec("AfterAttributeName")),
    ("/>", [], rec("AfterAttributeName")),
    (EOF, [], rec("AfterAttributeName")),
    ("=", [], to("BeforeAttributeValue")),
    (UPPER, [("attr_name", "lower(c)")], None),
    ("\0", [E, ("attr_name", REPL)], None),
    ("\"'<", [E, ("attr_name", "c")], None),
    (ELSE, [("attr_name", "c")], None),
]
SPEC["AfterAttributeName"] = [
    (WS, [], None),
    ("/", [], to("SelfClosingStartTag")),
    ("=", [], to("BeforeAttributeValue")),
    (">", [("emit_tag",)], to("Data")),
    (EOF, [E, ("emit_eof",)], None),
    (ELSE, [("new_attr",)], rec("AttributeName")),
]
SPEC["BeforeAttributeValue"] = [
    (WS, [], None),
    ('"', [], to("AttributeValueDoubleQuoted")),
    ("'", [], to("AttributeValueSingleQuoted")),
    (">", [E, ("emit_tag",)], to("Data")),
    (ELSE, [], rec("AttributeValueUnquoted")),
]


def attr_value_quoted(q):
    return [
        (q, [], to("AfterAttributeValueQuoted")),
        ("&", [("charref",)], None),
        ("\0", [E, ("attr_value", REPL)], None),
        (EOF, [E, ("emit_eof",)], None),
        (ELSE, [("attr_value", "c")], None),
    ]


SPEC["AttributeValueDoubleQuoted"] = attr_value_quoted('"')
SPEC["AttributeValueSingleQuoted"] = attr_value_quoted("'")
SPEC["AttributeValueUnquoted"] = [
    (WS, [], to("BeforeAttributeName")),
    ("&", [("charref",)], None),
    (">", [("emit_tag",)], to("Data")),
    ("\0", [E, ("attr_value", REPL)], None),
    ("\"'<=`", [E, ("attr_value", "c")], None),
    (EOF, [E, ("emit_eof",)], None),
    (ELSE, [("attr_value", "c")], None),
]
SPEC["AfterAttributeValueQuoted"] = [
    (WS, [], to("BeforeAttributeName")),
    ("/", [], to("SelfClosingStartTag")),
    (">", [("emit_tag",)], to("Data")),
    (EOF, [E, ("emit_eof",)], None),
    (ELSE, [E], rec("BeforeAttributeName")),
]
SPEC["SelfClosingStartTag"] = [
    (">", [("self_closing",), ("emit_tag",)], to("Data")),
    (EOF, [E, ("emit_eof",)], None),
    (ELSE, [E], rec("BeforeAttributeName")),
]
SPEC["BogusComment"] = [
    (">", [("emit_comment",)], to("Data")),
    (EOF, [("emit_comment",), ("emit_eof",)], None),
    ("\0", [E, ("comment", REPL)], None),
    (ELSE, [("comment", "c")], None),
]
# MarkupDeclarationOpen looks ahead; written as keyword rows
SPEC["MarkupDeclarationOpen"] = [
    {"lookahead": "--", "exact": True, "then": ([("new_comment", "")], to("CommentStart"))},
    {"lookahead": "doctype", "exact": False, "then": ([], to("DOCTYPE"))},
    {"lookahead": "[CDATA[", "exact": True, "if": "adjusted_current_node_not_html", "then": ([], to("CDATASection")),
     "else": ([E, ("new_comment", "[CDATA[")], to("BogusComment"))},
    (ELSE, [E, ("new_comment", "")], to("BogusComment")),  # does not consume
]
SPEC["CommentStart"] = [
    ("-", [], to("CommentStartDash")),
    (">", [E, ("emit_comment",)], to("Data")),
    (ELSE, [], rec("Comment")),
]
SPEC["CommentStartDash"] = [
    ("-", [], to("CommentEnd")),
    (">", [E, ("emit_comment",)], to("Data")),
    (EOF, [E, ("emit_comment",), ("emit_eof",)], None),
    (ELSE, [("comment", "-")], rec("Comment")),
]
SPEC["Comment"] = [
    ("<", [("comment", "c")], to("CommentLessThanSign")),
    ("-", [], to("CommentEndDash")),
    ("\0", [E, ("comment", REPL)], None),
    (EOF, [E, ("emit_comment",), ("emit_eof",)], None),
    (ELSE, [("comment", "c")], None),
]
SPEC["CommentLessThanSign"] = [
    ("!", [("comment", "c")], to("CommentLessThanSignBang")),
    ("<", [("comment", "c")], None),
    (ELSE, [], rec("Comment")),
]
SPEC["CommentLessThanSignBang"] = [
    ("-", [], to("CommentLessThanSignBangDash")),
    (ELSE, [], rec("Comment")),
]
SPEC["CommentLessThanSignBangDash"] = [
    ("-", [], to("CommentLessThanSignBangDashDash")),
    (ELSE, [], rec("CommentEndDash")),
]
SPEC["CommentLessThanSignBangDashDash"] = [
    (">", [], rec("CommentEnd")),
    (EOF, [], rec("CommentEnd")),
    (ELSE, [E], rec("CommentEnd")),
]
SPEC["CommentEndDash"] = [
    ("-", [], to("CommentEnd")),
    (EOF, [E, ("emit_comment",), ("emit_eof",)], None),
    (ELSE, [("comment", "-")], rec("Comment")),
]
SPEC["CommentEnd"] = [
    (">", [("emit_comment",)], to("Data")),
    ("!", [], to("CommentEndBang")),
    ("-", [("comment", "-")], None),
    (EOF, [E, ("emit_comment",), ("emit_eof",)], None),
    (ELSE, [("comment", "-"), ("comment", "-")], rec("Comment")),
]
SPEC["CommentEndBang"] = [
    ("-", [("comment", "-"), ("comment", "-"), ("comment", "!")], to("CommentEndDash")),
    (">", [E, ("emit_comment",)], to("Data")),
    (EOF, [E, ("emit_comment",), ("emit_eof",)], None),
    (ELSE, [("comment", "-"), ("comment", "-"), ("comment", "!")], rec("Comment")),
]
SPEC["DOCTYPE"] = [
    (WS, [], to("BeforeDOCTYPEName")),
    (">", [], rec("BeforeDOCTYPEName")),
    (EOF, [E, ("new_doctype",), ("force_quirks",), ("emit_doctype",), ("emit_eof",)], None),
    (ELSE, [E], rec("BeforeDOCTYPEName")),
]
SPEC["BeforeDOCTYPEName"] = [
    (WS, [], None),
    (UPPER, [("new_doctype",), ("doctype_name", "lower(c)")], to("DOCTYPEName")),
    ("\0", [E, ("new_doctype",), ("doctype_name", REPL)], to("DOCTYPEName")),
    (">", [E, ("new_doctype",), ("force_quirks",), ("emit_doctype",)], to("Data")),
    (EOF, [E, ("new_doctype",), ("force_quirks",), ("emit_doctype",), ("emit_eof",)], None),
    (ELSE, [("new_doctype",), ("doctype_name", "c")], to("DOCTYPEName")),
]
SPEC["DOCTYPEName"] = [
    (WS, [], to("AfterDOCTYPEName")),
    (">", [("emit_doctype",)], to("Data")),
    (UPPER, [("doctype_name", "lower(c)")], None),
    ("\0", [E, ("doctype_name", REPL)], None),
    (EOF, [E, ("force_quirks",), ("emit_doctype",), ("emit_eof",)], None),
    (ELSE, [("doctype_name", "c")], None),
]
SPEC["AfterDOCTYPEName"] = [
    (WS, [], None),
    (">", [("emit_doctype",)], to("Data")),
    (EOF, [E, ("force_quirks",), ("emit_doctype",), ("emit_eof",)], None),
    {"lookahead": "public", "exact": False, "then": ([], to("AfterDOCTYPEPublicKeyword"))},
    {"lookahead": "system", "exact": False, "then": ([], to("AfterDOCTYPESystemKeyword"))},
    (ELSE, [E, ("force_quirks",)], rec("BogusDOCTYPE")),
]


def after_keyword(which, before):
    W = which
    return [
        (WS, [], to(before)),
        ('"', [E, ("id_empty", W)], to("DOCTYPE%sIdentifierDoubleQuoted" % W)),
        ("'", [E, ("id_empty", W)], to("DOCTYPE%sIdentifierSingleQuoted" % W)),
        (">", [E, ("force_quirks",), ("emit_doctype",)], to("Data")),
        (EOF, [E, ("force_quirks",), ("emit_doctype",), ("emit_eof",)], None),
        (ELSE, [E, ("force_quirks",)], rec("BogusDOCTYPE")),
    ]


def before_identifier(which):
    W = which
    return [
        (WS, [], None),
        ('"', [("id_empty", W)], to("DOCTYPE%sIdentifierDoubleQuoted" % W)),
        ("'", [("id_empty", W)], to("DOCTYPE%sIdentifierSingleQuoted" % W)),
        (">", [E, ("force_quirks",), ("emit_doctype",)], to("Data")),
        (EOF, [E, ("force_quirks",), ("emit_doctype",), ("emit_eof",)], None),
        (ELSE, [E, ("force_quirks",)], rec("BogusDOCTYPE")),
    ]


def identifier_quoted(which, q):
    W = which
    return [
        (q, [], to("AfterDOCTYPE%sIdentifier" % W)),
        ("\0", [E, ("id", W, REPL)], None),
        (">", [E, ("force_quirks",), ("emit_doctype",)], to("Data")),
        (EOF, [E, ("force_quirks",), ("emit_doctype",), ("emit_eof",)], None),
        (ELSE, [("id", W, "c")], None),
    ]


SPEC["AfterDOCTYPEPublicKeyword"] = after_keyword("Public", "BeforeDOCTYPEPublicIdentifier")
SPEC["BeforeDOCTYPEPublicIdentifier"] = before_identifier("Public")
SPEC["DOCTYPEPublicIdentifierDoubleQuoted"] = identifier_quoted("Public", '"')
SPEC["DOCTYPEPublicIdentifierSingleQuoted"] = identifier_quoted("Public", "'")
SPEC["AfterDOCTYPEPublicIdentifier"] = [
    (WS, [], to("BetweenDOCTYPEPublicAndSystemIdentifiers")),
    (">", [("emit_doctype",)], to("Data")),
    ('"', [E, ("id_empty", "System")], to("DOCTYPESystemIdentifierDoubleQuoted")),
    ("'", [E, ("id_empty", "System")], to("DOCTYPESystemIdentifierSingleQuoted")),
    (EOF, [E, ("force_quirks",), ("emit_doctype",), ("emit_eof",)], None),
    (ELSE, [E, ("force_quirks",)], rec("BogusDOCTYPE")),
]
SPEC["BetweenDOCTYPEPublicAndSystemIdentifiers"] = [
    (WS, [], None),
    (">", [("emit_doctype",)], to("Data")),
    ('"', [("id_empty", "System")], to("DOCTYPESystemIdentifierDoubleQuoted")),
    ("'", [("id_empty", "System")], to("DOCTYPESystemIdentifierSingleQuoted")),
    (EOF, [E, ("force_quirks",), ("emit_doctype",), ("emit_eof",)], None),
    (ELSE, [E, ("force_quirks",)], rec("BogusDOCTYPE")),
]
SPEC["AfterDOCTYPESystemKeyword"] = after_keyword("System", "BeforeDOCTYPESystemIdentifier")
SPEC["BeforeDOCTYPESystemIdentifier"] = before_identifier("System")
SPEC["DOCTYPESystemIdentifierDoubleQuoted"] = identifier_quoted("System", '"')
SPEC["DOCTYPESystemIdentifierSingleQuoted"] = identifier_quoted("System", "'")
SPEC["AfterDOCTYPESystemIdentifier"] = [
    (WS, [], None),
    (">", [("emit_doctype",)], to("Data")),
    (EOF, [E, ("force_quirks",), ("emit_doctype",), ("emit_eof",)], None),
    (ELSE, [E], rec("BogusDOCTYPE")),
]
SPEC["BogusDOCTYPE"] = [
    (">", [("emit_doctype",)], to("Data")),
    ("\0", [E], None),
    (EOF, [("emit_doctype",), ("emit_eof",)], None),
    (ELSE, [], None),
]
SPEC["CDATASection"] = [
    ("]", [], to("CDATASectionBracket")),
    (EOF, [E, ("emit_eof",)], None),
    (ELSE, [("emit", "c")], None),
]
SPEC["CDATASectionBracket"] = [
    ("]", [], to("CDATASectionEnd")),
    (ELSE, [("emit", "]")], rec("CDATASection")),
]
SPEC["CDATASectionEnd"] = [
    ("]", [("emit", "]")], None),
    (">", [], to("Data")),
    (ELSE, [("emit", "]"), ("emit", "]")], rec("CDATASection")),
]

# spec state name -> html5ever's concrete state
STATE_MAP = {
    "Data": "Data", "RCDATA": "RawData(Rcdata)", "RAWTEXT": "RawData(Rawtext)", "ScriptData": "RawData(ScriptData)", "PLAINTEXT": "Plaintext",
    "TagOpen": "TagOpen", "EndTagOpen": "EndTagOpen", "TagName": "TagName",
    "RCDATALessThanSign": "RawLessThanSign(Rcdata)", "RCDATAEndTagOpen": "RawEndTagOpen(Rcdata)", "RCDATAEndTagName": "RawEndTagName(Rcdata)",
    "RAWTEXTLessThanSign": "RawLessThanSign(Rawtext)", "RAWTEXTEndTagOpen": "RawEndTagOpen(Rawtext)", "RAWTEXTEndTagName": "RawEndTagName(Rawtext)",
    "ScriptDataLessThanSign": "RawLessThanSign(ScriptData)", "ScriptDataEndTagOpen": "RawEndTagOpen(ScriptData)", "ScriptDataEndTagName": "RawEndTagName(ScriptData)",
    "ScriptDataEscapeStart": "ScriptDataEscapeStart(Escaped)", "ScriptDataEscapeStartDash": "ScriptDataEscapeStartDash",
    "ScriptDataEscaped": "RawData(ScriptDataEscaped(Escaped))", "ScriptDataEscapedDash": "ScriptDataEscapedDash(Escaped)",
    "ScriptDataEscapedDashDash": "ScriptDataEscapedDashDash(Escaped)", "ScriptDataEscapedLessThanSign": "RawLessThanSign(ScriptDataEscaped(Escaped))",
    "ScriptDataEscapedEndTagOpen": "RawEndTagOpen(ScriptDataEscaped(Escaped))", "ScriptDataEscapedEndTagName": "RawEndTagName(ScriptDataEscaped(Escaped))",
    "ScriptDataDoubleEscapeStart": "ScriptDataEscapeStart(DoubleEscaped)", "ScriptDataDoubleEscaped": "RawData(ScriptDataEscaped(DoubleEscaped))",
    "ScriptDataDoubleEscapedDash": "ScriptDataEscapedDash(DoubleEscaped)", "ScriptDataDoubleEscapedDashDash": "ScriptDataEscapedDashDash(DoubleEscaped)",
    "ScriptDataDoubleEscapedLessThanSign": "RawLessThanSign(ScriptDataEscaped(DoubleEscaped))", "ScriptDataDoubleEscapeEnd": "ScriptDataDoubleEscapeEnd",
    "BeforeAttributeName": "BeforeAttributeName", "AttributeName": "AttributeName", "AfterAttributeName": "AfterAttributeName",
    "BeforeAttributeValue": "BeforeAttributeValue", "AttributeValueDoubleQuoted": "AttributeValue(DoubleQuoted)",
    "AttributeValueSingleQuoted": "AttributeValue(SingleQuoted)", "AttributeValueUnquoted": "AttributeValue(Unquoted)",
    "AfterAttributeValueQuoted": "AfterAttributeValueQuoted", "SelfClosingStartTag": "SelfClosingStartTag", "BogusComment": "BogusComment",
    "MarkupDeclarationOpen": "MarkupDeclarationOpen", "CommentStart": "CommentStart", "CommentStartDash": "CommentStartDash", "Comment": "Comment",
    "CommentLessThanSign": "CommentLessThanSign", "CommentLessThanSignBang": "CommentLessThanSignBang",
    "CommentLessThanSignBangDash": "CommentLessThanSignBangDash", "CommentLessThanSignBangDashDash": "CommentLessThanSignBangDashDash",
    "CommentEndDash": "CommentEndDash", "CommentEnd": "CommentEnd", "CommentEndBang": "CommentEndBang",
    "DOCTYPE": "Doctype", "BeforeDOCTYPEName": "BeforeDoctypeName", "DOCTYPEName": "DoctypeName", "AfterDOCTYPEName": "AfterDoctypeName",
    "AfterDOCTYPEPublicKeyword": "AfterDoctypeKeyword(Public)", "BeforeDOCTYPEPublicIdentifier": "BeforeDoctypeIdentifier(Public)",
    "DOCTYPEPublicIdentifierDoubleQuoted": "DoctypeIdentifierDoubleQuoted(Public)", "DOCTYPEPublicIdentifierSingleQuoted": "DoctypeIdentifierSingleQuoted(Public)",
    "AfterDOCTYPEPublicIdentifier": "AfterDoctypeIdentifier(Public)", "BetweenDOCTYPEPublicAndSystemIdentifiers": "BetweenDoctypePublicAndSystemIdentifiers",
    "AfterDOCTYPESystemKeyword": "AfterDoctypeKeyword(System)", "BeforeDOCTYPESystemIdentifier": "BeforeDoctypeIdentifier(System)",
    "DOCTYPESystemIdentifierDoubleQuoted": "DoctypeIdentifierDoubleQuoted(System)", "DOCTYPESystemIdentifierSingleQuoted": "DoctypeIdentifierSingleQuoted(System)",
    "AfterDOCTYPESystemIdentifier": "AfterDoctypeIdentifier(System)", "BogusDOCTYPE": "BogusDoctype",
    "CDATASection": "CdataSection", "CDATASectionBracket": "CdataSectionBracket", "CDATASectionEnd": "CdataSectionEnd",
}
# concrete states of the code with no counterpart in the standard: they must be unreachable
NO_COUNTERPART = ["RawEndTagOpen(ScriptDataEscaped(DoubleEscaped))", "RawEndTagName(ScriptDataEscaped(DoubleEscaped))"]
