"""The rows of the WHATWG tree-construction insertion modes (13.2.6.4.1 - 13.2.6.4.23) transcribed as data from the
standard's wording: for each insertion mode and token class, the steps the standard prescribes, with their conditions.
Written from the standard, not from html5ever's source; compared with the code by lib/rowcmp.py (rule R02.11).

Token classes:  "S:name" / "E:name" start / end tags, "S:*" any other start tag, "E:*" any other end tag, "ws" whitespace
character tokens, "chars" other character tokens, "null" U+0000, "comment", "eof", "*" anything else.  DOCTYPE tokens are
handled before the dispatch in html5ever (TreeBuilder::process_token) and are not part of this table.

A row's body is a list of steps; a step is a string of the vocabulary below or a conditional
    ("if", condition, [steps...], [else steps...])
Conditions are names of the CONDITIONS vocabulary, optionally negated with a leading "!".

Steps (the standard's wording in brackets):
  err                      [parse error]                                    (not compared: errors are outside C02)
  ignore                   [ignore the token]
  comment / comment:doc / comment:html   [insert a comment (as the last child of the Document / of the first element of the stack)]
  char                     [insert the character]
  insert                   [insert an HTML element for the token]
  insert-void              [insert an HTML element for the token; immediately pop the current node; acknowledge the self-closing flag]
  insert:X                 [insert an HTML element for an X start tag token with no attributes]
  create-root              [create an html element ..., append it to the Document, put it in the stack]  (with / without the token)
  head=                    [set the head element pointer to the newly created head element]
  form=                    [set the form element pointer to point to the element created]
  form=null                [set the form element pointer to null]
  reconstruct              [reconstruct the active formatting elements, if any]
  close-p                  [if the stack of open elements has a p element in button scope, then close a p element]
  close-p!                 [close a p element]
  frameset-ok=no           [set the frameset-ok flag to "not ok"]
  mode:X                   [switch the insertion mode to X]
  reprocess:X              [switch the insertion mode to X and reprocess the token]   ("reprocess" alone: reprocess in the original / reset mode)
  using:X                  [process the token using the rules for the X insertion mode]
  pop                      [pop the current node off the stack of open elements]
  pop-until:X              [if the current node is not an X element, parse error; pop elements until an X element has been popped]
  pop-until-heading        [... until an h1..h6 element has been popped]
  implied / implied-except:X / implied-thorough   [generate implied end tags (except for X elements) / all implied end tags thoroughly]
  push-marker / clear-to-marker  [insert a marker at the end of / clear the list of active formatting elements up to the last marker]
  push-formatting          [insert an HTML element for the token; push onto the list of active formatting elements that element]
  adoption                 [run the adoption agency algorithm for the token]
  raw:rcdata / raw:rawtext / raw:script / plaintext   [follow the generic RCDATA / raw text element parsing algorithm / script / switch the tokenizer to PLAINTEXT]
  ignore-lf                [if the next token is a U+000A LINE FEED character token, ignore it]
  stop                     [stop parsing]
  foreign:mathml / foreign:svg   [adjust attributes; insert a foreign element for the token; pop + acknowledge if self-closing]
  clear-stack:table / clear-stack:tbody / clear-stack:row   [clear the stack back to a table / table body / table row context]
  close-cell               [close the cell]
  reset-mode               [reset the insertion mode appropriately]
  push-tmode:X / pop-tmode [push X onto / pop the current template insertion mode off the stack of template insertion modes]
  quirks                   [set the Document to quirks mode]
  foster:in-body           [enable foster parenting, process the token using the rules for "in body", disable foster parenting]
  add-attrs:html / add-attrs:body   [for each attribute on the token, add it to the html / body element if not already present]
  replace-body             [remove the second element of the stack from its parent; pop all nodes from the current node up to, not including, the root html element]
  pending-chars            [append the character token to the pending table character tokens list]
  flush-pending            [the "anything else" of "in table text": insert / foster-parent the pending characters]
  table-text               [let the pending table character tokens be empty; let the original insertion mode be the current one; switch to "in table text" and reprocess]
  any-other-end            [the "any other end tag" steps of "in body"]
  close-item-loop          [the loop of the li / dd, dt start tags: walk the stack; on an li (dd or dt) element generate implied end tags except for it and pop
                            until it is popped; stop at a special element other than address, div, p]
  remove-form              [remove node (the old form element pointer) from the stack of open elements]
  with-head                [push the head element pointer onto the stack; process using "in head"; remove the node pointed to by the head element pointer from the stack]
  script-end               [the </script> steps of "text": pop, switch to the original insertion mode, (hand the script to the embedder)]
  to-original              [pop the current node; switch the insertion mode to the original insertion mode]
  check-body-end           [if there is a node in the stack that is not dd, dt, li, ..., body, html: parse error]
"""

IF = "if"


def S(*names):
    return ["S:" + n for n in names]


def E(*names):
    return ["E:" + n for n in names]


H = ["h1", "h2", "h3", "h4", "h5", "h6"]
FORMATTING = ["b", "big", "code", "em", "font", "i", "s", "small", "strike", "strong", "tt", "u"]
BLOCK_START = ["address", "article", "aside", "blockquote", "center", "details", "dialog", "dir", "div", "dl", "fieldset", "figcaption", "figure", "footer",
               "header", "hgroup", "main", "menu", "nav", "ol", "p", "search", "section", "summary", "ul"]
BLOCK_END = ["address", "article", "aside", "blockquote", "button", "center", "details", "dialog", "dir", "div", "dl", "fieldset", "figcaption", "figure", "footer",
             "header", "hgroup", "listing", "main", "menu", "nav", "ol", "pre", "search", "section", "summary", "ul"]
HEAD_START = ["base", "basefont", "bgsound", "link", "meta", "noframes", "script", "style", "template", "title"]

ANYTHING_ELSE = {
    "Initial": [(IF, "!iframe-srcdoc", ["err", "quirks"]), "reprocess:BeforeHtml"],
    "BeforeHtml": ["create-root", "reprocess:BeforeHead"],
    "BeforeHead": ["insert:head", "head=", "reprocess:InHead"],
    "InHead": ["pop", "reprocess:AfterHead"],
    "InHeadNoscript": ["err", "pop", "reprocess:InHead"],
    "AfterHead": ["insert:body", "reprocess:InBody"],
    "InTable": ["err", "foster:in-body"],
    "InCaption": ["using:InBody"],
    "InColumnGroup": [(IF, "current-node:colgroup", ["pop", "reprocess:InTable"], ["err", "ignore"])],
    "InTableBody": ["using:InTable"],
    "InRow": ["using:InTable"],
    "InCell": ["using:InBody"],
    "AfterBody": ["err", "reprocess:InBody"],
    "InFrameset": ["err", "ignore"],
    "AfterFrameset": ["err", "ignore"],
    "AfterAfterBody": ["err", "reprocess:InBody"],
    "AfterAfterFrameset": ["err", "ignore"],
}

ROWS = {
    "Initial": [
        (["ws"], ["ignore"]),
        (["comment"], ["comment:doc"]),
        (["*"], ANYTHING_ELSE["Initial"]),
    ],
    "BeforeHtml": [
        (["comment"], ["comment:doc"]),
        (["ws"], ["ignore"]),
        (S("html"), ["create-root", "mode:BeforeHead"]),
        (E("head", "body", "html", "br"), ANYTHING_ELSE["BeforeHtml"]),
        (["E:*"], ["err", "ignore"]),
        (["*"], ANYTHING_ELSE["BeforeHtml"]),
    ],
    "BeforeHead": [
        (["ws"], ["ignore"]),
        (["comment"], ["comment"]),
        (S("html"), ["using:InBody"]),
        (S("head"), ["insert", "head=", "mode:InHead"]),
        (E("head", "body", "html", "br"), ANYTHING_ELSE["BeforeHead"]),
        (["E:*"], ["err", "ignore"]),
        (["*"], ANYTHING_ELSE["BeforeHead"]),
    ],
    "InHead": [
        (["ws"], ["char"]),
        (["comment"], ["comment"]),
        (S("html"), ["using:InBody"]),
        (S("base", "basefont", "bgsound", "link"), ["insert-void"]),
        (S("meta"), ["insert-void", "meta-encoding"]),
        (S("title"), ["raw:rcdata"]),
        (S("noframes", "style"), ["raw:rawtext"]),
        (S("noscript"), [(IF, "scripting", ["raw:rawtext"], ["insert", "mode:InHeadNoscript"])]),
        (S("script"), ["raw:script"]),
        (E("head"), ["pop", "mode:AfterHead"]),
        (E("body", "html", "br"), ANYTHING_ELSE["InHead"]),
        (S("template"), ["push-marker", "frameset-ok=no", "mode:InTemplate", "push-tmode:InTemplate", "insert-template"]),
        (E("template"), [(IF, "!template-on-stack", ["err", "ignore"], ["implied-thorough", "pop-until:template", "clear-to-marker", "pop-tmode", "reset-mode"])]),
        (S("head") + ["E:*"], ["err", "ignore"]),
        (["*"], ANYTHING_ELSE["InHead"]),
    ],
    "InHeadNoscript": [
        (S("html"), ["using:InBody"]),
        (E("noscript"), ["pop", "mode:InHead"]),
        (["ws", "comment"] + S("basefont", "bgsound", "link", "meta", "noframes", "style"), ["using:InHead"]),
        (E("br"), ANYTHING_ELSE["InHeadNoscript"]),
        (S("head", "noscript") + ["E:*"], ["err", "ignore"]),
        (["*"], ANYTHING_ELSE["InHeadNoscript"]),
    ],
    "AfterHead": [
        (["ws"], ["char"]),
        (["comment"], ["comment"]),
        (S("html"), ["using:InBody"]),
        (S("body"), ["insert", "frameset-ok=no", "mode:InBody"]),
        (S("frameset"), ["insert", "mode:InFrameset"]),
        (S(*HEAD_START), ["err", "with-head"]),
        (E("template"), ["using:InHead"]),
        (E("body", "html", "br"), ANYTHING_ELSE["AfterHead"]),
        (S("head") + ["E:*"], ["err", "ignore"]),
        (["*"], ANYTHING_ELSE["AfterHead"]),
    ],
    "InBody": [
        (["null"], ["err", "ignore"]),
        (["ws"], ["reconstruct", "char"]),
        (["chars"], ["reconstruct", "char", "frameset-ok=no"]),
        (["comment"], ["comment"]),
        (S("html"), ["err", (IF, "template-on-stack", ["ignore"], ["add-attrs:html"])]),
        (S(*HEAD_START) + E("template"), ["using:InHead"]),
        (S("body"), ["err", (IF, "body-start-ignorable", ["ignore"], ["frameset-ok=no", "add-attrs:body"])]),
        (S("frameset"), ["err", (IF, "frameset-ignorable", ["ignore"], ["replace-body", "insert", "mode:InFrameset"])]),
        (["eof"], [(IF, "template-modes-nonempty", ["using:InTemplate"], ["check-body-end", "stop"])]),
        (E("body"), [(IF, "!body-in-scope", ["err", "ignore"], ["check-body-end", "mode:AfterBody"])]),
        (E("html"), [(IF, "!body-in-scope", ["err", "ignore"], ["check-body-end", "reprocess:AfterBody"])]),
        (S(*BLOCK_START), ["close-p", "insert"]),
        (S(*H), ["close-p", (IF, "current-node:heading", ["err", "pop"]), "insert"]),
        (S("pre", "listing"), ["close-p", "insert", "ignore-lf", "frameset-ok=no"]),
        (S("form"), [(IF, "form-pointer-set-and-no-template", ["err", "ignore"], ["close-p", "insert", (IF, "!template-on-stack", ["form="])])]),
        (S("li"), ["frameset-ok=no", "close-item-loop", "close-p", "insert"]),
        (S("dd", "dt"), ["frameset-ok=no", "close-item-loop", "close-p", "insert"]),
        (S("plaintext"), ["close-p", "insert", "plaintext"]),
        (S("button"), [(IF, "button-in-scope", ["err", "implied", "pop-until:button"]), "reconstruct", "insert", "frameset-ok=no"]),
        (E(*BLOCK_END), [(IF, "!token-name-in-scope", ["err", "ignore"], ["implied", "pop-until:token"])]),
        (E("form"), [(IF, "!template-on-stack",
                      ["form=null", (IF, "!form-pointer-set", ["err", "ignore"], [(IF, "!form-node-in-scope", ["err", "ignore"], ["implied", "remove-form"])])],
                      [(IF, "!form-in-scope", ["err", "ignore"], ["implied", "pop-until:form"])])]),
        (E("p"), [(IF, "!p-in-button-scope", ["err", "insert:p"]), "close-p!"]),
        (E("li"), [(IF, "!token-name-in-list-item-scope", ["err", "ignore"], ["implied-except:token", "pop-until:token"])]),
        (E("dd", "dt"), [(IF, "!token-name-in-scope", ["err", "ignore"], ["implied-except:token", "pop-until:token"])]),
        (E(*H), [(IF, "!heading-in-scope", ["err", "ignore"], ["implied", (IF, "!current-node:token", ["err"]), "pop-until-heading"])]),
        (S("a"), ["a-misnested", "reconstruct", "push-formatting"]),
        (S(*FORMATTING), ["reconstruct", "push-formatting"]),
        (S("nobr"), ["reconstruct", (IF, "nobr-in-scope", ["err", "adoption", "reconstruct"]), "push-formatting"]),
        (E("a", "nobr", *FORMATTING), ["adoption"]),
        (S("applet", "marquee", "object"), ["reconstruct", "insert", "push-marker", "frameset-ok=no"]),
        (E("applet", "marquee", "object"), [(IF, "!token-name-in-scope", ["err", "ignore"], ["implied", "pop-until:token", "clear-to-marker"])]),
        (S("table"), [(IF, "!quirks-mode", ["close-p"]), "insert", "frameset-ok=no", "mode:InTable"]),
        (E("br"), ["err", "as-br-start"]),
        (S("area", "br", "embed", "img", "keygen", "wbr"), ["reconstruct", "insert-void", "frameset-ok=no"]),
        (S("param", "source", "track"), ["insert-void"]),
        (S("image"), ["err", "as-img-start"]),
        (S("textarea"), ["insert-rcdata-textarea"]),
        (S("xmp"), ["close-p", "reconstruct", "frameset-ok=no", "raw:rawtext"]),
        (S("iframe"), ["frameset-ok=no", "raw:rawtext"]),
        (S("noembed"), ["raw:rawtext"]),
        (S("noscript"), [(IF, "scripting", ["raw:rawtext"], ["reconstruct", "insert"])]),
        (S("rb", "rtc"), [(IF, "ruby-in-scope", ["implied"]), (IF, "!current-node:ruby", ["err"]), "insert"]),
        (S("rp", "rt"), [(IF, "ruby-in-scope", ["implied-except:rtc"]), (IF, "!current-node:rtc-or-ruby", ["err"]), "insert"]),
        (S("math"), ["reconstruct", "foreign:mathml"]),
        (S("svg"), ["reconstruct", "foreign:svg"]),
        (S("caption", "col", "colgroup", "frame", "head", "tbody", "td", "tfoot", "th", "thead", "tr"), ["err", "ignore"]),
        (["S:*"], ["reconstruct", "insert"]),
        (["E:*"], ["any-other-end"]),
    ],
    "Text": [
        (["ws", "chars"], ["char"]),
        (["eof"], ["err", (IF, "current-node:script", ["script-already-started"]), "pop", "reprocess:original"]),
        (E("script"), ["script-end"]),
        (["E:*"], ["to-original"]),
    ],
    "InTable": [
        (["ws", "chars", "null"], ["table-text-or-else"]),
        (["comment"], ["comment"]),
        (S("caption"), ["clear-stack:table", "push-marker", "insert", "mode:InCaption"]),
        (S("colgroup"), ["clear-stack:table", "insert", "mode:InColumnGroup"]),
        (S("col"), ["clear-stack:table", "insert:colgroup", "reprocess:InColumnGroup"]),
        (S("tbody", "tfoot", "thead"), ["clear-stack:table", "insert", "mode:InTableBody"]),
        (S("td", "th", "tr"), ["clear-stack:table", "insert:tbody", "reprocess:InTableBody"]),
        (S("table"), ["err", (IF, "!table-in-table-scope", ["ignore"], ["pop-until:table", "reset-mode-reprocess"])]),
        (E("table"), [(IF, "!table-in-table-scope", ["err", "ignore"], ["pop-until:table", "reset-mode"])]),
        (E("body", "caption", "col", "colgroup", "html", "tbody", "td", "tfoot", "th", "thead", "tr"), ["err", "ignore"]),
        (S("style", "script", "template") + E("template"), ["using:InHead"]),
        (S("input"), [(IF, "!input-type-hidden", ANYTHING_ELSE["InTable"], ["err", "insert-void"])]),
        (S("form"), ["err", (IF, "template-on-stack-or-form-pointer-set", ["ignore"], ["insert", "form=", "pop"])]),
        (["eof"], ["using:InBody"]),
        (["*"], ANYTHING_ELSE["InTable"]),
    ],
    "InTableText": [
        (["null"], ["err", "ignore"]),
        (["ws", "chars"], ["pending-chars"]),
        (["*"], ["flush-pending", "reprocess:original"]),
    ],
    "InCaption": [
        (E("caption"), [(IF, "!caption-in-table-scope", ["err", "ignore"], ["implied", "pop-until:caption", "clear-to-marker", "mode:InTable"])]),
        (S("caption", "col", "colgroup", "tbody", "td", "tfoot", "th", "thead", "tr") + E("table"),
         [(IF, "!caption-in-table-scope", ["err", "ignore"], ["implied", "pop-until:caption", "clear-to-marker", "reprocess:InTable"])]),
        (E("body", "col", "colgroup", "html", "tbody", "td", "tfoot", "th", "thead", "tr"), ["err", "ignore"]),
        (["*"], ANYTHING_ELSE["InCaption"]),
    ],
    "InColumnGroup": [
        (["ws"], ["char"]),
        (["comment"], ["comment"]),
        (S("html"), ["using:InBody"]),
        (S("col"), ["insert-void"]),
        (E("colgroup"), [(IF, "!current-node:colgroup", ["err", "ignore"], ["pop", "mode:InTable"])]),
        (E("col"), ["err", "ignore"]),
        (S("template") + E("template"), ["using:InHead"]),
        (["eof"], ["using:InBody"]),
        (["*"], ANYTHING_ELSE["InColumnGroup"]),
    ],
    "InTableBody": [
        (S("tr"), ["clear-stack:tbody", "insert", "mode:InRow"]),
        (S("th", "td"), ["err", "clear-stack:tbody", "insert:tr", "reprocess:InRow"]),
        (E("tbody", "tfoot", "thead"), [(IF, "!token-name-in-table-scope", ["err", "ignore"], ["clear-stack:tbody", "pop", "mode:InTable"])]),
        (S("caption", "col", "colgroup", "tbody", "tfoot", "thead") + E("table"),
         [(IF, "!tbody-thead-tfoot-in-table-scope", ["err", "ignore"], ["clear-stack:tbody", "pop", "reprocess:InTable"])]),
        (E("body", "caption", "col", "colgroup", "html", "td", "th", "tr"), ["err", "ignore"]),
        (["*"], ANYTHING_ELSE["InTableBody"]),
    ],
    "InRow": [
        (S("th", "td"), ["clear-stack:row", "insert", "mode:InCell", "push-marker"]),
        (E("tr"), [(IF, "!tr-in-table-scope", ["err", "ignore"], ["clear-stack:row", "pop", "mode:InTableBody"])]),
        (S("caption", "col", "colgroup", "tbody", "tfoot", "thead", "tr") + E("table"),
         [(IF, "!tr-in-table-scope", ["err", "ignore"], ["clear-stack:row", "pop", "reprocess:InTableBody"])]),
        (E("tbody", "tfoot", "thead"), [(IF, "!token-name-in-table-scope", ["err", "ignore"],
                                          [(IF, "!tr-in-table-scope", ["ignore"], ["clear-stack:row", "pop", "reprocess:InTableBody"])])]),
        (E("body", "caption", "col", "colgroup", "html", "td", "th"), ["err", "ignore"]),
        (["*"], ANYTHING_ELSE["InRow"]),
    ],
    "InCell": [
        (E("td", "th"), [(IF, "!token-name-in-table-scope", ["err", "ignore"], ["implied", "pop-until:token", "clear-to-marker", "mode:InRow"])]),
        (S("caption", "col", "colgroup", "tbody", "td", "tfoot", "th", "thead", "tr"), [(IF, "!td-or-th-in-table-scope", ["err", "ignore"], ["close-cell", "reprocess:InRow"])]),
        (E("body", "caption", "col", "colgroup", "html"), ["err", "ignore"]),
        (E("table", "tbody", "tfoot", "thead", "tr"), [(IF, "!token-name-in-table-scope", ["err", "ignore"], ["close-cell", "reprocess:InRow"])]),
        (["*"], ANYTHING_ELSE["InCell"]),
    ],
    "InTemplate": [
        (["ws", "chars", "null", "comment"], ["using:InBody"]),
        (S(*HEAD_START) + E("template"), ["using:InHead"]),
        (S("caption", "colgroup", "tbody", "tfoot", "thead"), ["pop-tmode", "push-tmode:InTable", "reprocess:InTable"]),
        (S("col"), ["pop-tmode", "push-tmode:InColumnGroup", "reprocess:InColumnGroup"]),
        (S("tr"), ["pop-tmode", "push-tmode:InTableBody", "reprocess:InTableBody"]),
        (S("td", "th"), ["pop-tmode", "push-tmode:InRow", "reprocess:InRow"]),
        (["S:*"], ["pop-tmode", "push-tmode:InBody", "reprocess:InBody"]),
        (["E:*"], ["err", "ignore"]),
        (["eof"], [(IF, "!template-on-stack", ["stop"], ["err", "pop-until:template", "clear-to-marker", "pop-tmode", "reset-mode-reprocess"])]),
    ],
    "AfterBody": [
        (["ws"], ["using:InBody"]),
        (["comment"], ["comment:html"]),
        (S("html"), ["using:InBody"]),
        (E("html"), [(IF, "fragment", ["err", "ignore"], ["mode:AfterAfterBody"])]),
        (["eof"], ["stop"]),
        (["*"], ANYTHING_ELSE["AfterBody"]),
    ],
    "InFrameset": [
        (["ws"], ["char"]),
        (["comment"], ["comment"]),
        (S("html"), ["using:InBody"]),
        (S("frameset"), ["insert"]),
        (E("frameset"), [(IF, "current-node-is-root-html", ["err", "ignore"], ["pop", (IF, "not-fragment-and-current-not-frameset", ["mode:AfterFrameset"])])]),
        (S("frame"), ["insert-void"]),
        (S("noframes"), ["using:InHead"]),
        (["eof"], [(IF, "!current-node-is-root-html", ["err"]), "stop"]),
        (["*"], ANYTHING_ELSE["InFrameset"]),
    ],
    "AfterFrameset": [
        (["ws"], ["char"]),
        (["comment"], ["comment"]),
        (S("html"), ["using:InBody"]),
        (E("html"), ["mode:AfterAfterFrameset"]),
        (S("noframes"), ["using:InHead"]),
        (["eof"], ["stop"]),
        (["*"], ANYTHING_ELSE["AfterFrameset"]),
    ],
    "AfterAfterBody": [
        (["comment"], ["comment:doc"]),
        (["ws"] + S("html"), ["using:InBody"]),
        (["eof"], ["stop"]),
        (["*"], ANYTHING_ELSE["AfterAfterBody"]),
    ],
    "AfterAfterFrameset": [
        (["comment"], ["comment:doc"]),
        (["ws"] + S("html"), ["using:InBody"]),
        (["eof"], ["stop"]),
        (S("noframes"), ["using:InHead"]),
        (["*"], ANYTHING_ELSE["AfterAfterFrameset"]),
    ],
}

# rows not transcribed (the customizable-select revision of the standard, which I do not know reliably)
NOT_TRANSCRIBED = {
    "InBody": S("select", "option", "optgroup", "hr", "input", "selectedcontent") + E("select", "option", "optgroup", "selectedcontent"),
}
