"""Tag-token dispatch of the WHATWG tree-construction insertion modes (13.2.6.4.*), transcribed as data from the
standard's wording, independently of html5ever's source.

For each insertion mode: the rows of the standard that are selected by a start or end tag name, in the standard's
order.  "S:x" is "a start tag whose tag name is x", "E:x" the end tag.  A row lists every tag token the standard handles
by that one paragraph.  Tokens not listed in any row of a mode fall to the mode's "any other start tag" / "any other end
tag" / "anything else" paragraph.

NOT_TRANSCRIBED lists tokens whose handling was rewritten by the 2024-25 "customizable select" revision of the standard
(html5ever at this commit follows that revision: there is no "in select" insertion mode); I do not know the revised
text reliably, so those tokens are left out of the comparison rather than guessed.
"""

H = ["h1", "h2", "h3", "h4", "h5", "h6"]
FORMATTING = ["b", "big", "code", "em", "font", "i", "s", "small", "strike", "strong", "tt", "u"]
BLOCK_START = ["address", "article", "aside", "blockquote", "center", "details", "dialog", "dir", "div", "dl", "fieldset", "figcaption", "figure", "footer",
               "header", "hgroup", "main", "menu", "nav", "ol", "p", "search", "section", "summary", "ul"]
BLOCK_END = ["address", "article", "aside", "blockquote", "button", "center", "details", "dialog", "dir", "div", "dl", "fieldset", "figcaption", "figure", "footer",
             "header", "hgroup", "listing", "main", "menu", "nav", "ol", "pre", "search", "section", "summary", "ul"]


def S(*names):
    return ["S:" + n for n in names]


def E(*names):
    return ["E:" + n for n in names]


def AS_ELSE(tokens):
    """the row's paragraph is 'act as described in the "anything else" entry below'"""
    return ("else", tokens)


def AS_OTHER_END(tokens):
    """the row shares its paragraph with 'any other end tag'"""
    return ("other-end", tokens)


DISPATCH = {
    "BeforeHtml": [
        S("html"),
        AS_ELSE(E("head", "body", "html", "br")),
    ],
    "BeforeHead": [
        S("html"),
        S("head"),
        AS_ELSE(E("head", "body", "html", "br")),
    ],
    "InHead": [
        S("html"),
        S("base", "basefont", "bgsound", "link"),
        S("meta"),
        S("title"),
        S("noframes", "style"),
        S("noscript"),
        S("script"),
        E("head"),
        AS_ELSE(E("body", "html", "br")),
        S("template"),
        E("template"),
        AS_OTHER_END(S("head")),
    ],
    "InHeadNoscript": [
        S("html"),
        E("noscript"),
        S("basefont", "bgsound", "link", "meta", "noframes", "style"),
        AS_ELSE(E("br")),
        AS_OTHER_END(S("head", "noscript")),
    ],
    "AfterHead": [
        S("html"),
        S("body"),
        S("frameset"),
        S("base", "basefont", "bgsound", "link", "meta", "noframes", "script", "style", "template", "title"),
        E("template"),
        AS_ELSE(E("body", "html", "br")),
        AS_OTHER_END(S("head")),
    ],
    "InBody": [
        S("html"),
        S("base", "basefont", "bgsound", "link", "meta", "noframes", "script", "style", "template", "title") + E("template"),
        S("body"),
        S("frameset"),
        E("body"),
        E("html"),
        S(*BLOCK_START),
        S(*H),
        S("pre", "listing"),
        S("form"),
        S("li"),
        S("dd", "dt"),
        S("plaintext"),
        S("button"),
        E(*BLOCK_END),
        E("form"),
        E("p"),
        E("li"),
        E("dd", "dt"),
        E(*H),
        S("a"),
        S(*FORMATTING),
        S("nobr"),
        E("a", "nobr", *FORMATTING),
        S("applet", "marquee", "object"),
        E("applet", "marquee", "object"),
        S("table"),
        E("br"),
        S("area", "br", "embed", "img", "keygen", "wbr"),
        S("param", "source", "track"),
        S("image"),
        S("textarea"),
        S("xmp"),
        S("iframe"),
        S("noembed"),
        S("noscript"),
        S("rb", "rtc"),
        S("rp", "rt"),
        S("math"),
        S("svg"),
        S("caption", "col", "colgroup", "frame", "head", "tbody", "td", "tfoot", "th", "thead", "tr"),
    ],
    "Text": [
        E("script"),
    ],
    "InTable": [
        S("caption"),
        S("colgroup"),
        S("col"),
        S("tbody", "tfoot", "thead"),
        S("td", "th", "tr"),
        S("table"),
        E("table"),
        E("body", "caption", "col", "colgroup", "html", "tbody", "td", "tfoot", "th", "thead", "tr"),
        S("style", "script", "template") + E("template"),
        S("input"),
        S("form"),
    ],
    "InCaption": [
        E("caption"),
        S("caption", "col", "colgroup", "tbody", "td", "tfoot", "th", "thead", "tr") + E("table"),
        E("body", "col", "colgroup", "html", "tbody", "td", "tfoot", "th", "thead", "tr"),
    ],
    "InColumnGroup": [
        S("html"),
        S("col"),
        E("colgroup"),
        E("col"),
        S("template") + E("template"),
    ],
    "InTableBody": [
        S("tr"),
        S("th", "td"),
        E("tbody", "tfoot", "thead"),
        S("caption", "col", "colgroup", "tbody", "tfoot", "thead") + E("table"),
        E("body", "caption", "col", "colgroup", "html", "td", "th", "tr"),
    ],
    "InRow": [
        S("th", "td"),
        E("tr"),
        S("caption", "col", "colgroup", "tbody", "tfoot", "thead", "tr") + E("table"),
        E("tbody", "tfoot", "thead"),
        E("body", "caption", "col", "colgroup", "html", "td", "th"),
    ],
    "InCell": [
        E("td", "th"),
        S("caption", "col", "colgroup", "tbody", "td", "tfoot", "th", "thead", "tr"),
        E("body", "caption", "col", "colgroup", "html"),
        E("table", "tbody", "tfoot", "thead", "tr"),
    ],
    "InTemplate": [
        S("base", "basefont", "bgsound", "link", "meta", "noframes", "script", "style", "template", "title") + E("template"),
        S("caption", "colgroup", "tbody", "tfoot", "thead"),
        S("col"),
        S("tr"),
        S("td", "th"),
    ],
    "AfterBody": [
        S("html"),
        E("html"),
    ],
    "InFrameset": [
        S("html"),
        S("frameset"),
        E("frameset"),
        S("frame"),
        S("noframes"),
    ],
    "AfterFrameset": [
        S("html"),
        E("html"),
        S("noframes"),
    ],
    "AfterAfterBody": [
        S("html"),
    ],
    "AfterAfterFrameset": [
        S("html"),
        S("noframes"),
    ],
    "Initial": [],
    "InTableText": [],
}

# 13.2.6.5 "the rules for parsing tokens in foreign content" (TreeBuilder::step_foreign)
# The paragraph 'An end tag whose tag name is "script", if the current node is an SVG script element' is not listed:
# without script execution it pops the current node, which is what "any other end tag" does for a current node of that name.
FOREIGN = [
    S("b", "big", "blockquote", "body", "br", "center", "code", "dd", "div", "dl", "dt", "em", "embed", "h1", "h2", "h3", "h4", "h5", "h6", "head", "hr", "i", "img",
      "li", "listing", "menu", "meta", "nobr", "ol", "p", "pre", "ruby", "s", "small", "span", "strong", "strike", "sub", "sup", "table", "tt", "u", "ul", "var")
    + E("br", "p"),
    S("font"),
]

# modes whose fall-through is split into "any other start tag" / "any other end tag" (or "any other end tag" /
# "anything else") paragraphs; in every other mode one "anything else" paragraph takes both kinds
SPLIT_FALLTHROUGH = ["BeforeHtml", "BeforeHead", "InHead", "InHeadNoscript", "AfterHead", "InBody", "InTemplate", "Text"]

# tokens left out, per mode (see the module docstring)
NOT_TRANSCRIBED = {
    "InBody": S("select", "option", "optgroup", "hr", "input", "selectedcontent") + E("select", "option", "optgroup", "selectedcontent"),
}

# modes in which a start tag cannot arrive (the tokenizer is in a raw-text state): only end tags are compared
END_TAGS_ONLY = ["Text"]

# pairs of rows of one mode that the standard handles by the same words (so equal handling in code is expected):
# (mode, first token of row A, first token of row B)
SAME_HANDLING = [
    # "act as described in the 'anything else' entry below" rows and the mode's fall-through are not comparable by tag
    # signature; rows listed here were reviewed when the comparison first ran
]
