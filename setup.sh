#!/bin/sh
# builds the two engines from files on disk only (offline)
set -e
cd "$(dirname "$0")"
export CARGO_NET_OFFLINE=true
(cd engines/hx-mir && cargo build --offline -q)
(cd engines/hx-ast && cargo build --offline -q)
mkdir -p .work evidence
echo setup ok
