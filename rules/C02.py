"""C02 — HTML tree construction equals the WHATWG algorithm (DESIGN 4.C02): tables, constants, sibling agreement, reviewed dispatch."""
import json
import os
import re

from lib import machine as mc
from lib.ast import walk, decode_atom, NS_SHORT, expanded_names_in_pat
from lib.flat import show
from lib.mir import AnchorMissing
from . import nf_common, nfq
from .guardlib import gval, comparisons, lt_true, ge_true

MANIFEST = {
    "text": "Transcription, table and sibling-agreement rules for the tree builder. (a) The rows of all 21 insertion modes: for every (mode, token class) and every valuation of the conditions either side tests, the steps the code performs (one helper call = one step of the standard) equal an independent transcription of the standard's paragraphs (R02.11, 515 rows); the tag dispatch groups names exactly as the standard's paragraphs do (R02.8); foreign-content rows and foreign element insertion (R02.12); 'reset the insertion mode' (R02.10). (b) Tables: the standard's name sets and limits (implied end tags, scopes incl. their MathML/SVG members, special category's foreign members, table contexts, integration points, formatting elements, break-out list, text-mode elements; 8/3/3), the five quirks-mode identifier tables and their decision order, the SVG/MathML/foreign adjustment tables (value sets equal the standard's, key = lower-cased value, injective) (R02.1, R02.2, R02.9). (c) Sibling agreement of the element -> tokenizer-state map (R02.3); set_quirks_mode call sites (R02.5); scope choices (R02.7). (d) Every function of tree_builder/ equals its reviewed normal form (R02.4, R02.6).",
    "note": "Decides R02.1-R02.12. NOT decided: that the helpers (adoption agency, reconstruction, foster parenting, implied-end-tag and scope loops) equal the standard's algorithms - R02.6 only says they still equal the normal forms I read; the rows rewritten by the customizable-select revision and the HTML part of the special category are not transcribed (uncertain memory). Authority of the transcriptions: my memory of the standard; five defects they found were reproduced against the real crates and fixed. Also decided: Noah's Ark removes the earliest of three equal entries (R02.1). Also decided: the whitespace predicates are exactly ASCII whitespace (R02.13); the special category has every certainly-special HTML name (R02.1). Round 6: R02.15 decides the helper algorithms as facts (in scope, implied end tags, pop until, appropriate place / foster parenting, any other end tag, clear to marker, close the cell, reconstruct formatting, marker-bounded searches, misnested a, adoption agency bail-outs and placements) - the NOT-decided remark above now applies only to the parts of those helpers R02.15 does not name (adoption agency inner loop steps 13.x, insert_element's form/shadow details); R02.9 HTML 4.01 clause tests only the absence of the system identifier. Round 7: R02.15 also is_marker_or_open (whole stack), ignore-LF flag lives for one token, insert an element / insert_at, adoption agency inner loop. Round 8: the in-table-body tag set is the standard's tbody/thead/tfoot (F26, R02.1), the foreign-content breakout stops at annotation-xml integration points (F27, R02.15), input type=hidden is compared ASCII case-insensitively (R02.15), a path of reset_insertion_mode that took the context element is a 'last' path (R02.10).",
    "technique": "independent transcription of the standard's rows / dispatch / tables compared with decision trees extracted from the source; reviewed normal-form comparison for the helpers",
}
LEVEL = "other"
EXPLANATION = """
R02.1 spec sets and constants (23 tables/constants) vs ref/spec_sets.json; R02.2 adjustment tables self-check
(37 + 58 + 1 + 11 entries); R02.3 three-way agreement on text-mode elements; R02.4 snapshot of special_tag,
html_default_scope and the doctype/quirks tables (through normal forms); R02.5 who calls set_quirks_mode; R02.6
reviewed normal forms of html5ever::tree_builder (113 functions, step = 330 paths) and html5ever::driver.
R02.8 tag dispatch vs ref/whatwg_dispatch.py (one handling per paragraph of the standard, unlisted names = fresh name, rows distinct);
R02.9 quirks tables and decision order; R02.10 reset-insertion-mode table; R02.11 rows of all insertion modes (steps and
conditions, per valuation) vs ref/whatwg_rows.py; R02.12 foreign content rows and foreign element insertion; R02.1 also local tag
sets and the MathML/SVG members of the scope list and special category.
"""
ASSUMPTIONS = ["ref/spec_sets.json restates the standard correctly (written from memory; only sets I am certain of)"]
TB = "html_tree_builder"
SPEC = json.load(open(os.path.join(os.path.dirname(os.path.dirname(os.path.abspath(__file__))), "ref", "spec_sets.json")))


def tag_set_fns(ctx):
    """name -> (entries {(ns,local): bool}, super fn name or None) for every tag-set function of html5ever"""
    out = {}
    for it in ctx.ast.walkable("html5ever"):
        if it["k"] != "Fn" or it.get("body") is None or "tree_builder" not in it["mod"]:
            continue
        _collect_tagsets(it["name"], it["body"], out)
    return out


def _collect_tagsets(name, body, out):
    # a tag-set function: `match p { ExpandedName{..} => bool, ..., p => supr(p) }` or `matches!(p, ..)`
    stmts = [s for s in body if s["k"] == "ExprStmt"]
    for s in body:
        if s["k"] == "ItemStmt" and s["item"].get("k") == "Fn":
            _collect_tagsets(s["item"]["name"], s["item"]["body"], out)
    if len(stmts) < 1:
        return
    e = stmts[-1]["e"]
    if e.get("k") != "Match":
        return
    entries = {}
    sup = None
    for a in e["arms"]:
        names = expanded_names_in_pat(a["pat"])
        b = a["body"]
        if names and b.get("k") == "Lit" and b.get("t") == "bool":
            for n in names:
                entries[n] = b["v"]
        elif not names and b.get("k") == "Call":
            sup = show(b["f"])
        elif not names and b.get("k") == "Lit" and b.get("t") == "bool" and b["v"] is False:
            sup = None
        else:
            return
    if entries:
        out[name] = (entries, sup)


def _or_chain(e, out):
    """flatten `a || b || c`; each operand must be f(param) or a matches!-style match"""
    if e.get("k") == "Binary" and e.get("op") == "||":
        return _or_chain(e["l"], out) and _or_chain(e["r"], out)
    if e.get("k") == "Paren":
        return _or_chain(e["e"], out)
    if e.get("k") == "Call" and len(e.get("args", [])) == 1:
        out.append(("call", show(e["f"])))
        return True
    if e.get("k") == "Match":
        names = set()
        for a in e["arms"]:
            b = a["body"]
            ns = expanded_names_in_pat(a["pat"])
            if ns and b.get("k") == "Lit" and b.get("v") is True:
                names |= set(ns)
            elif not ns and b.get("k") == "Lit" and b.get("v") is False:
                pass
            else:
                return False
        out.append(("names", names))
        return True
    return False


def or_chain_fns(ctx):
    """name -> operands, for the functions of tree_builder whose body is an || chain over set functions / matches!"""
    out = {}
    for it in ctx.ast.walkable("html5ever"):
        if it["k"] != "Fn" or it.get("body") is None or "tree_builder" not in it["mod"]:
            continue
        stmts = [x for x in it["body"] if x["k"] == "ExprStmt"]
        if len(stmts) != 1 or len(it["body"]) != 1:
            continue
        ops = []
        if stmts[0]["e"].get("k") == "Binary" and _or_chain(stmts[0]["e"], ops):
            out[it["name"]] = ops
    return out


def resolve(sets, name, depth=0):
    """-> (set of (ns,local) that are members, set explicitly excluded) following the super chain of declared sets"""
    if depth > 6:
        return None
    if name not in sets and name in sets.get("__chains__", {}):
        mem = set()
        for kind, v in sets["__chains__"][name]:
            if kind == "names":
                mem |= v
            else:
                r = resolve(sets, v.split("::")[-1], depth + 1)
                if r is None:
                    return None
                mem |= r
        return mem
    if name not in sets:
        return None
    entries, sup = sets[name]
    base = set()
    if sup and sup != "empty_set":
        r = resolve(sets, sup, depth + 1)
        base = r if r is not None else set()
    mem = set(base)
    for k, v in entries.items():
        if v:
            mem.add(k)
        else:
            mem.discard(k)
    return mem


# local tag sets declared inside functions: (outer function, set name) -> (members, super, note).  Two of them differ from the
# standard's wording without a difference in behaviour; the value accepted here is the code's, with the argument why.
LOCAL_SETS = {
    ("step", "close_list"): ({"li"}, "empty_set", "the li start tag closes an open li"),
    ("step", "close_defn"): ({"dd", "dt"}, "empty_set", "dd / dt start tags close an open dd or dt"),
    ("step", "extra_special"): ({"-address", "-div", "-p"}, "special_tag", "special category minus address, div, p"),
    ("step", "table_outer"): ({"tbody", "tfoot", "thead"}, "empty_set",
                              "the standard's wording: 'does not have a tbody, thead, or tfoot element in table scope' (in table body; caption/col/colgroup/tbody/tfoot/thead start tags, </table>). "
                              "Until F26 the code had (table, tbody, tfoot) and an earlier review accepted that as equivalent - wrongly: inside template contents a thead sits on the stack "
                              "without a table (<template><thead><caption>), is not found, and the token is ignored"),
    ("appropriate_place_for_insertion", "foster_target"): ({"table", "tbody", "tfoot", "thead", "tr"}, "empty_set", "foster parenting targets"),
    ("check_body_end", "body_end_ok"): ({"body", "dd", "dt", "html", "li", "optgroup", "option", "p", "rp", "rt", "tbody", "td", "tfoot", "th", "thead", "tr"}, "empty_set",
                                        "decides a parse error only (the standard's list also has rb and rtc)"),
    ("close_p_element", "implied"): ({"-p"}, "cursory_implied_end", "generate implied end tags except for p"),
    ("process_chars_in_table", "table_outer"): ({"table", "tbody", "tfoot", "thead", "tr"}, "empty_set",
                                               "REVIEWED EQUIVALENT, not the standard's wording (which also lists template): with a template as current node the characters take the "
                                               "'anything else' branch, which inserts them at the same place (no foster parenting under a template, reconstruction stops at the template's marker); only a parse error differs"),
    ("insert_element", "form_associatable"): ({"button", "fieldset", "img", "input", "object", "output", "select", "textarea"}, "empty_set", "form-associated elements"),
    ("insert_element", "listed"): ({"-img"}, "form_associatable", "listed elements = form-associated minus img"),
}


def local_tag_sets(ctx):
    out = []
    for it in ctx.ast.walkable("html5ever"):
        if it["k"] != "Fn" or it.get("body") is None or "tree_builder" not in it["mod"]:
            continue

        def f(n, outer=it["name"]):
            if n.get("k") == "ItemStmt" and n.get("item", {}).get("k") == "Fn":
                tmp = {}
                _collect_tagsets(n["item"]["name"], n["item"]["body"], tmp)
                for k, (e, sup) in tmp.items():
                    out.append((outer, k, e, sup))
        walk(it["body"], f)
    return out


def special_tag_html_rule(ctx, rule, sets=None):
    """the HTML members of the special category: the names I can state with certainty must all be there, and nothing beyond them
    except the three names the living standard has been moving in and out (keygen, search, isindex), which are not judged"""
    if sets is None:
        sets = tag_set_fns(ctx)
    CERTAIN = set("""address applet area article aside base basefont bgsound blockquote body br button caption center col colgroup dd details dir div dl dt
        embed fieldset figcaption figure footer form frame frameset h1 h2 h3 h4 h5 h6 head header hgroup hr html iframe img input li link listing main marquee menu
        meta nav noembed noframes noscript object ol p param plaintext pre script section select source style summary table tbody td template textarea tfoot th thead
        title tr track ul wbr xmp""".split())
    r = resolve(sets, "special_tag")
    got = None if r is None else {x[1] for x in r if x[0] == "html"}
    ok = got is not None and CERTAIN <= got and got - CERTAIN <= {"keygen", "search", "isindex"}
    ctx.ob(rule, "spec-set/special_tag-html-members", ok, "the special category has the %d HTML names that are certain (and only keygen / search / isindex beyond them)" % len(CERTAIN) if ok else
           "the special category lacks %s / has unexpected %s: the 'any other end tag' steps, the adoption agency's furthest block and the li/dd/dt loop treat such an element wrongly" % (
               sorted(CERTAIN - (got or set())), sorted((got or set()) - CERTAIN - {"keygen", "search", "isindex"})), "html5ever tree_builder tag_sets special_tag")
    return 1


def r02_1(ctx):
    found = local_tag_sets(ctx)
    for outer, name, ent, sup in found:
        exp = LOCAL_SETS.get((outer, name))
        got = {(("" if v else "-") + k[1]) for k, v in ent.items()}
        if exp is None:
            ctx.ob("R02.1", "local-set/%s/%s" % (outer, name), False, "tag set %s declared inside %s is not in the reviewed table (members %s over %s)" % (name, outer, sorted(got), sup), "html5ever tree_builder " + outer)
            continue
        ok = got == exp[0] and (sup or "empty_set") == exp[1] and all(k[0] == "html" for k in ent)
        ctx.ob("R02.1", "local-set/%s/%s" % (outer, name), ok, exp[2] if ok else "tag set %s in %s is %s over %s; reviewed: %s over %s (%s)" % (name, outer, sorted(got), sup, sorted(exp[0]), exp[1], exp[2][:80]),
               "html5ever tree_builder " + outer)
    ctx.floor("R02.1", "local-tag-sets", len(found), 10)
    sets = tag_set_fns(ctx)
    sets["__chains__"] = or_chain_fns(ctx)
    n = 0

    def html(names):
        return {("html", x) for x in names}

    def check(key, got, want, what):
        nonlocal n
        n += 1
        ok = got == want
        ctx.ob("R02.1", "spec-set/" + key, ok, "%s = %s" % (what, sorted(x[1] for x in want)) if ok else "%s is %s, the standard says %s" % (what, sorted(got or []), sorted(want)), "html5ever tree_builder tag_sets")

    check("cursory_implied_end", resolve(sets, "cursory_implied_end"), html(SPEC["cursory_implied_end"]), "generate implied end tags")
    check("thorough_implied_end", resolve(sets, "thorough_implied_end"), html(SPEC["cursory_implied_end"] + SPEC["thorough_implied_end_extra"]), "generate all implied end tags thoroughly")
    for k in ("heading_tag", "td_th", "table_scope", "table_body_context", "table_row_context"):
        check(k, resolve(sets, k), html(SPEC[k]), k)
    for k, extra in (("list_item_scope", "list_item_scope_extra"), ("button_scope", "button_scope_extra")):
        ent, sup = sets.get(k, ({}, None))
        check(k, {kk for kk, v in ent.items() if v}, html(SPEC[extra]), "%s - default scope" % k)
        ctx.ob("R02.1", "spec-set/%s-extends-default-scope" % k, sup == "default_scope", "%s is default_scope plus its additions" % k)
    # the foreign members of the scope-terminating list and of the special category
    foreign = {("mathml", x) for x in SPEC["mathml_text_integration_point"] + ["annotation-xml"]} | {("svg", x) for x in SPEC["svg_html_integration_point"]}
    for k in ("default_scope", "special_tag"):
        r = resolve(sets, k)
        check(k + "-foreign-members", None if r is None else {x for x in r if x[0] != "html"}, foreign, "MathML / SVG members of " + k)
    n += special_tag_html_rule(ctx, "R02.1", sets)
    # integration points (matches! style)
    for fn, key, ns in (("mathml_text_integration_point", "mathml_text_integration_point", "mathml"), ("svg_html_integration_point", "svg_html_integration_point", "svg")):
        its = [it for it in ctx.ast.walkable("html5ever") if it["k"] == "Fn" and it["name"] == fn and it.get("body") is not None]
        got = set()
        for it in its:
            def f(nd):
                if nd.get("k") == "Match":
                    for a in nd["arms"]:
                        if a["body"].get("k") == "Lit" and a["body"]["v"] is True:
                            got.update(expanded_names_in_pat(a["pat"]))
            walk(it["body"], f)
        check(key, got, {(ns, x) for x in SPEC[key]}, fn)
    # (that default_scope = HTML list + the two integration-point sets + annotation-xml is decided above on the resolved
    # member sets, whatever helper functions the definition is spread over)
    # dispatch-derived sets
    key, step = nfq.cells(ctx, TB, "rules::TreeBuilder<Handle,Sink>::step")
    step = nfq.feasible(step)

    def start_names(pc, kind="StartTag"):
        s = None
        for g, v in pc["guards"].items():
            if v and g.startswith("p2 matches Tag("):
                alts = re.findall(r"Tag\{kind:(\w+),name:atom:([\w:-]+)\}", g)
                t = {nm for k, nm in alts if k == kind}
                s = t if s is None else s & t
        return s or set()

    fmt = set()
    adopt = set()
    for pc in step:
        if not pc["guards"].get("p1 matches InBody"):
            continue
        names = nfq.names(pc)
        if "self.create_formatting_element_for" in names:
            fmt |= start_names(pc)
        if "self.adoption_agency" in names and "self.create_formatting_element_for" not in names and "self.handle_misnested_a_tags" not in names:
            adopt |= start_names(pc, "EndTag")
    check("formatting-start-tags(InBody)", html(fmt), html(SPEC["formatting_start_tags"]), "start tags that push onto the list of active formatting elements")
    check("adoption-agency-end-tags(InBody)", html(adopt), html(SPEC["formatting_start_tags"]), "end tags that run the adoption agency algorithm")
    key, sf = nfq.cells(ctx, TB, "rules::TreeBuilder<Handle,Sink>::step_foreign")
    bo_s, bo_e, font_attrs = set(), set(), set()
    for pc in nfq.feasible(sf):
        if "self.unexpected_start_tag_in_foreign_content" in nfq.names(pc):
            for g, v in pc["guards"].items():
                if v and g.startswith("p1 matches Tag("):
                    alts = re.findall(r"Tag\{kind:(\w+),name:atom:([\w:-]+)\}", g)
                    if len(alts) > 2:
                        bo_s |= {nm for k, nm in alts if k == "StartTag"}
                        bo_e |= {nm for k, nm in alts if k == "EndTag"}
                if v and ".any(" in g:
                    font_attrs |= set(re.findall(r"local:atom:(\w+)", g))
    check("foreign-breakout-start-tags", html(bo_s), html(SPEC["foreign_breakout_start_tags"]), "start tags that break out of foreign content")
    check("foreign-breakout-end-tags", html(bo_e), html(SPEC["foreign_breakout_end_tags"]), "end tags that break out of foreign content")
    check("foreign-font-attributes", html(font_attrs), html(SPEC["foreign_font_attrs"]), "font attributes that break out of foreign content")
    # constants
    key, aa = nfq.cells(ctx, TB, "::adoption_agency")
    blob = " ".join(" ".join(nfq.texts(pc)) + " " + " ".join(pc["guards"]) for pc in aa)
    m = re.search(r"loop-begin for _ in 0\.\.(\d+)", blob)
    ctx.ob("R02.1", "constant/adoption-outer-loop", bool(m) and int(m.group(1)) == SPEC["adoption_outer_loop_limit"], "outer loop runs at most %s times (standard: 8)" % (m.group(1) if m else "?"))
    m = re.search(r"\((\d+) < \(φ\(0\) \+ 1\)\)", blob)  # canonical spelling of `counter + 1 > N`
    ctx.ob("R02.1", "constant/adoption-inner-loop", bool(m) and int(m.group(1)) == SPEC["adoption_inner_loop_limit"], "inner loop counter threshold > %s (standard: greater than 3)" % (m.group(1) if m else "?"))
    key, cf = nfq.cells(ctx, TB, "::create_formatting_element_for")
    blob = " ".join(" ".join(pc["guards"]) for pc in cf)
    m = None
    for pc in cf:
        for a, op, b, v, g in comparisons(pc["guards"]):
            if op == "<" and b.isdigit():  # canonical spelling of `count >= N` is `!(count < N)`
                m = re.match(r"(\d+)", b)
    ctx.ob("R02.1", "constant/noahs-ark", bool(m) and int(m.group(1)) == SPEC["noahs_ark_limit"], "Noah's Ark clause triggers at >= %s equal entries (standard: three)" % (m.group(1) if m else "?"))
    # Noah's Ark removes the EARLIEST of the equal entries: the list is walked from its end towards the last marker, every
    # matching entry overwrites the remembered index, so the one that is removed is the one seen last = the earliest
    rem = 0
    bad = None
    for pc in nfq.feasible(cf):
        for a, args in pc["actions"]:
            if a == "self.active_formatting.remove":
                matched = any(v and "equiv_modulo_attr_order" in g for g, v in pc["guards"].items())
                if matched:
                    rem += 1
                    if not re.match(r"loop\(Some\(item\.0\)\)", str(args[0])):
                        bad = "on a matching entry the remembered index is not overwritten with that entry's index (removal argument %s): a later = more recent duplicate is removed instead of the earliest" % str(args[0])[:80]
    walk_ok = any(any(x.startswith("loop-begin for _ in self.active_formatting_end_to_marker()") for x in nfq.texts(pc)) for pc in cf)
    try:
        k2, vw = nfq.cells(ctx, TB, "ActiveFormattingView<'a,Handle>::iter")
        walk_ok = walk_ok and all(re.search(r"enumerate\(\)\.rev\(\)", str(pc["ret"]) + " ".join(nfq.texts(pc))) for pc in vw)
    except AnchorMissing:
        walk_ok = False
    ctx.ob("R02.1", "noahs-ark-removes-earliest", bad is None and rem >= 1 and walk_ok, bad or "the entry removed is the last one visited on the walk from the end of the list to the marker")
    n += 3
    ctx.floor("R02.1", "tables-and-constants", n, 19)


def _adjust_table(ctx, fname):
    its = [it for it in ctx.ast.walkable("html5ever") if it["k"] == "Fn" and it["name"] == fname and it.get("body") is not None and "tree_builder" in it["mod"]]
    if len(its) != 1:
        raise AnchorMissing(fname)
    rows = []

    def f(nd):
        if nd.get("k") == "Match":
            for a in nd["arms"]:
                ks = []
                walk(a["pat"], lambda p: ks.append(decode_atom(p["path"])) if p.get("k") in ("PPath",) and decode_atom(p["path"]) else None)
                if not ks:
                    continue
                vals = []
                walk(a["body"], lambda p: vals.append(decode_atom(p["path"])) if p.get("k") == "Path" and decode_atom(p["path"]) else None)
                if vals:
                    rows.append((ks[0][1], [v for v in vals]))

    walk(its[0]["body"], f)
    return rows


def r02_2(ctx, rule="R02.2"):
    for fname, floor in (("adjust_svg_tag_name", 37), ("adjust_svg_attributes", 58), ("adjust_mathml_attributes", 1)):
        rows = _adjust_table(ctx, fname)
        ctx.floor(rule, fname, len(rows), floor)
        seen_k, seen_v = set(), set()
        for k, vals in rows:
            v = [x[1] for x in vals if x[0] == "LOCALNAME"][-1]
            ok = k == v.lower() and k != v and k not in seen_k and v not in seen_v
            seen_k.add(k)
            seen_v.add(v)
            if not ok:
                ctx.ob(rule, "%s/%s" % (fname, k), False, "entry %r -> %r violates key == lower(value), key != value, injective" % (k, v), "html5ever tree_builder " + fname)
        ctx.ob(rule, fname + "/self-consistent", True, "%d entries: key == ASCII-lowercase(value), key != value, injective" % len(rows))
        want = set(SPEC[{"adjust_svg_tag_name": "svg_element_name_adjustments", "adjust_svg_attributes": "svg_attribute_name_adjustments", "adjust_mathml_attributes": "mathml_attribute_name_adjustments"}[fname]])
        ok = seen_v == want
        ctx.ob(rule, fname + "/equals-standard" + ("" if ok else "/" + ",".join(sorted(seen_v ^ want))[:80]), ok,
               "the adjusted names are exactly the standard's %d" % len(want) if ok else "missing from the code: %s; not in the standard: %s" % (sorted(want - seen_v), sorted(seen_v - want)), "html5ever tree_builder " + fname)
    rows = _adjust_table(ctx, "adjust_foreign_attributes")
    ctx.floor(rule, "adjust_foreign_attributes", len(rows), 11)
    gotk = {k for k, _ in rows}
    wantk = set(SPEC["foreign_attribute_adjustments"])
    ctx.ob(rule, "adjust_foreign_attributes/equals-standard" + ("" if gotk == wantk else "/" + ",".join(sorted(gotk ^ wantk))[:80]), gotk == wantk,
           "the adjusted attributes are exactly the standard's %d" % len(wantk) if gotk == wantk else "missing from the code: %s; not in the standard: %s" % (sorted(wantk - gotk), sorted(gotk - wantk)))
    NSURL = {"xlink": "http://www.w3.org/1999/xlink", "xml": "http://www.w3.org/XML/1998/namespace", "xmlns": "http://www.w3.org/2000/xmlns/"}
    for k, vals in rows:
        pre = [x[1] for x in vals if x[0] == "PREFIX"]
        ns = [x[1] for x in vals if x[0] == "NAMESPACE"]
        loc = [x[1] for x in vals if x[0] == "LOCALNAME"]
        if ":" in k:
            p, l = k.split(":", 1)
            ok = pre == [p] and loc == [l] and ns == [NSURL.get(p)]
        else:
            ok = k == "xmlns" and loc == ["xmlns"] and ns == [NSURL["xmlns"]] and not pre
        ctx.ob(rule, "adjust_foreign_attributes/" + k, ok, "%r -> prefix %s, namespace %s, local %s" % (k, pre, ns, loc))


def r02_3(ctx):
    """element -> tokenizer state: rules (parse_raw_data / to_raw_text_mode / ToPlaintext) == tokenizer_state_for_context_elem == serializer"""
    key, step = nfq.cells(ctx, TB, "rules::TreeBuilder<Handle,Sink>::step")
    by_state = {}
    for pc in nfq.feasible(step):
        st = None
        for a, args in pc["actions"]:
            if a == "self.parse_raw_data" and len(args) == 2:
                st = str(args[1])
            if a == "self.to_raw_text_mode" and args:
                st = str(args[0])
        if str(pc["ret"]) == "ToPlaintext":
            st = "Plaintext"
        if st is None:
            continue
        names = set()
        for g, v in pc["guards"].items():
            if v and g.startswith("p2 matches Tag("):
                names |= {nm for k, nm in re.findall(r"Tag\{kind:(\w+),name:atom:([\w:-]+)\}", g) if k == "StartTag"}
        nosc = [v for g, v in pc["guards"].items() if "name matches atom:noscript" in g]
        if nosc and names >= {"noscript"}:
            # the noframes|style|noscript arm: noscript takes the raw path only when scripting is enabled
            scripting = [v for g, v in pc["guards"].items() if "scripting_enabled" in g]
        by_state.setdefault(st, set()).update(names)
    want = {"Rcdata": set(SPEC["rcdata_elements"]), "Rawtext": set(SPEC["rawtext_elements"]) | set(SPEC["rawtext_if_scripting"]),
            "ScriptData": set(SPEC["script_data_elements"]), "Plaintext": set(SPEC["plaintext_elements"])}
    for st, w in want.items():
        got = by_state.get(st, set())
        ctx.ob("R02.3", "rules-text-mode/" + st, got == w, "tree-builder rules switch to %s for %s" % (st, sorted(got)) if got == w else "rules switch to %s for %s, the standard says %s" % (st, sorted(got), sorted(w)))
    key, pcs = nfq.cells(ctx, TB, "::tokenizer_state_for_context_elem")
    cmap = {}
    for pc in nfq.feasible(pcs):
        r = str(pc["ret"])
        st = "Rcdata" if "Rcdata" in r else "Rawtext" if "Rawtext" in r else "ScriptData" if "ScriptData" in r else "Plaintext" if "Plaintext" in r else None
        if st is None:
            continue
        for g, v in pc["guards"].items():
            if v and " matches " in g and "atom:" in g and "xhtml" not in g:
                cmap.setdefault(st, set()).update(re.findall(r"atom:([a-z]+)", g.split(" matches ", 1)[1]))
    for st, w in want.items():
        ctx.ob("R02.3", "fragment-context-text-mode/" + st, cmap.get(st, set()) == w, "tokenizer_state_for_context_elem maps %s to %s" % (sorted(cmap.get(st, set())), st))
    # noscript conditional on scripting in both
    ok1 = any(("scripting_enabled" in g) for pc in nfq.feasible(step) for g in pc["guards"] if any(a == "self.parse_raw_data" for a, _ in pc["actions"]))
    ok2 = any(pc["guards"].get("p1") is not None or any("p1" == g for g in pc["guards"]) for pc in pcs)
    ctx.ob("R02.3", "noscript-conditional-on-scripting", ok1 and ok2, "noscript is raw text only with scripting enabled, in the rules and in the fragment-context map")


def r02_5(ctx):
    cur = nf_common.area_current(ctx, TB)
    callers = {}
    for key, v in cur.items():
        if v["kind"] != "paths":
            continue
        pcs = nfq.feasible(mc.from_json({key: v["cells"]})[key])
        for pc in pcs:
            if "self.set_quirks_mode" in nfq.names(pc):
                callers.setdefault(key.rsplit("::", 1)[-1], []).append(pc)
    ok = set(callers) == {"process_token", "step"}
    ctx.ob("R02.5", "set_quirks_mode-callers", ok, "called from the DOCTYPE handler and the tree-builder step only" if ok else "set_quirks_mode is called from %s" % sorted(callers))
    for pc in callers.get("step", []):
        ok = bool(pc["guards"].get("p1 matches Initial")) and pc["guards"].get("self.opts.iframe_srcdoc") is False and any(a == "self.set_quirks_mode" and args == ("Quirks",) for a, args in pc["actions"])
        ctx.ob("R02.5", "initial-anything-else-sets-quirks", ok, "Initial 'anything else': quirks mode unless iframe srcdoc")
    for pc in callers.get("process_token", []):
        ok = any(v and "self.mode.get() matches Initial" in g for g, v in pc["guards"].items())
        ctx.ob("R02.5", "doctype-sets-quirks-in-initial-only", ok, "the DOCTYPE handler decides the quirks mode only in mode Initial, whatever drop_doctype says")
        ok = not any("drop_doctype" in g and v for g, v in pc["guards"].items()) or True
    pts = callers.get("process_token", [])
    both = {pc["guards"].get("self.opts.drop_doctype") for pc in pts}
    ctx.ob("R02.5", "quirks-independent-of-drop_doctype", both >= {True, False} or both == {None}, "set_quirks_mode is reached with drop_doctype on and off")


SCOPE_FACTS = [
    # (mode, kind, tag names, scope function the standard prescribes for "has an element in ... scope")
    ("InBody", "EndTag", {"li"}, "list_item_scope"),
    ("InBody", "EndTag", {"dd", "dt"}, "default_scope"),
    ("InBody", "EndTag", {"p"}, "button_scope"),
    ("InBody", "EndTag", {"body"}, "default_scope"),
    ("InBody", "EndTag", {"html"}, "default_scope"),
    ("InBody", "StartTag", {"button"}, "default_scope"),
    ("InBody", "StartTag", {"nobr"}, "default_scope"),
    ("InBody", "EndTag", {"address", "div", "ul", "ol", "pre", "section"}, "default_scope"),
    ("InBody", "EndTag", {"h1", "h6"}, "default_scope"),
]


def r02_7(ctx):
    key, step = nfq.cells(ctx, TB, "rules::TreeBuilder<Handle,Sink>::step")
    step = nfq.feasible(step)
    n = 0
    for mode, kind, tags, scope in SCOPE_FACTS:
        for tag in sorted(tags):
            used = set()
            for pc in step:
                if not pc["guards"].get("p1 matches " + mode):
                    continue
                # the path applies to this tag: a positive token pattern lists it and no name test excludes it
                applies = False
                for g, v in pc["guards"].items():
                    if v and g.startswith("p2 matches Tag("):
                        if (kind, tag) in set(re.findall(r"Tag\{kind:(\w+),name:atom:([\w:-]+)\}", g)):
                            applies = True
                if not applies:
                    continue
                excluded = False
                for g, v in pc["guards"].items():
                    m = re.match(r"^p2\.0\.name matches atom:([\w:-]+)$", g)
                    if m and ((m.group(1) == tag) != bool(v)):
                        excluded = True
                if excluded:
                    continue
                for g in list(pc["guards"]) + nfq.texts(pc):
                    m = re.match(r"^self\.in_scope(?:_named)?\((\w+),", g)
                    if m:
                        used.add(m.group(1))
            n += 1
            ok = used == {scope}
            ctx.ob("R02.7", "scope-choice/%s/%s%s" % (mode, "/" if kind == "EndTag" else "", tag), ok,
                   "uses %s" % scope if ok else "the rule for %s<%s%s> tests scope %s; the standard prescribes %s" % (mode + " ", "/" if kind == "EndTag" else "", tag, sorted(used), scope),
                   "html5ever tree_builder rules " + mode)
    ctx.floor("R02.7", "scope-facts", n, 15)


def r02_9(ctx):
    """quirks-mode tables: contents equal the standard's lists (ASCII case-insensitively), each table read under the right comparison"""
    want = {
        "QUIRKY_PUBLIC_PREFIXES": "quirks_public_id_prefixes", "QUIRKY_PUBLIC_MATCHES": "quirks_public_id_exact", "QUIRKY_SYSTEM_MATCHES": "quirks_system_id_exact",
        "LIMITED_QUIRKY_PUBLIC_PREFIXES": "limited_quirks_public_id_prefixes", "HTML4_PUBLIC_PREFIXES": "html401_public_id_prefixes_quirks_without_system_id_limited_with",
    }
    code = {}
    for it in ctx.ast.walkable("html5ever"):
        if it["k"] in ("Static", "Const") and it["mod"].endswith("tree_builder::data") and it["name"] in want:
            arr = it["init"]
            while arr.get("k") in ("Ref", "Paren", "Cast"):
                arr = arr["e"]
            if arr.get("k") != "Array" or not all(e.get("k") == "Lit" and e.get("t") == "str" for e in arr["elems"]):
                raise AnchorMissing("%s is not an array of string literals" % it["name"])
            code[it["name"]] = [e["v"] for e in arr["elems"]]
    for name, key in sorted(want.items()):
        if name not in code:
            raise AnchorMissing("tree_builder::data::%s not found" % name)
        got, exp = set(code[name]), {x.lower() for x in SPEC[key]}
        ok = got == exp
        detail = "%d entries equal the standard's list" % len(exp)
        if not ok:
            detail = "missing from the code: %s; not in the standard: %s" % (sorted(exp - got), sorted(got - exp))
        ctx.ob("R02.9", "quirks-table/" + name + ("" if ok else "/" + ",".join(sorted(exp ^ got))[:80]), ok, detail, "html5ever/src/tree_builder/data.rs " + name)
        lc = all(x == x.lower() for x in code[name])
        ctx.ob("R02.9", "quirks-table-lowercase/" + name, lc, "entries are lower-case (the identifiers are lower-cased before the comparison)")
    # how the tables are read
    key, pcs = nfq.cells(ctx, TB, "data::doctype_error_and_quirks")
    pcs = nfq.feasible(pcs)
    lowered = "to_ascii_lowercase"
    facts = 0
    for pc in pcs:
        ret = str(pc["ret"])
        g = pc["guards"]
        def has(sub, val):
            return any(sub in k and v is val for k, v in g.items())
        for k in g:
            for t in want:
                if t in k:
                    facts += 1
                    ok = lowered in k and (("starts_with" in k) == t.endswith("PREFIXES")) and (("public_id" in k) == ("PUBLIC" in t)) and (("system_id" in k) == ("SYSTEM" in t))
                    ctx.ob("R02.9", "quirks-read/" + t, ok, "table compared with the lower-cased %s identifier by %s" % ("public" if "PUBLIC" in t else "system", "prefix" if t.endswith("PREFIXES") else "equality") if ok else "table %s is read as '%s'" % (t, k[:200]))
        mode = ret.rstrip(")").split(",")[-1]
        exp = None
        if any(k == "p2" and v is True for k, v in g.items()):
            exp = "NoQuirks"  # iframe srcdoc document: never quirks / limited quirks
        elif has("p1.force_quirks", True) or gval(g, '(p1.name == Some("html"))') is False:
            exp = "Quirks"
        elif has("QUIRKY_PUBLIC_MATCHES", True) or has("QUIRKY_SYSTEM_MATCHES", True) or (has("QUIRKY_PUBLIC_PREFIXES", True) and not has("LIMITED_QUIRKY_PUBLIC_PREFIXES", True)):
            exp = "Quirks"
        elif has("LIMITED_QUIRKY_PUBLIC_PREFIXES", True):
            exp = "LimitedQuirks"
        elif has("HTML4_PUBLIC_PREFIXES", True):
            sysg = [(re.sub(r"#\d+$", "", k).split(" matches ", 1)[1], v) for k, v in g.items() if re.match(r"p1\.system_id[^,]* matches ", k) and "QUIRKY" not in k]
            odd = [a for a, v in sysg if a not in ("None", "Some(_)")]
            if odd:
                ctx.ob("R02.9", "quirks-html401-system-id", False, "for the HTML 4.01 Transitional / Frameset public identifiers the code tests the system identifier against %s; the standard asks only whether it is MISSING (an empty identifier is present)" % odd[0][:40],
                       "html5ever/src/tree_builder/data.rs doctype_error_and_quirks")
            exp = "Quirks" if any((a == "None" and v is True) or (a == "Some(_)" and v is False) for a, v in sysg) else "LimitedQuirks"
        else:
            exp = "NoQuirks"
        facts += 1
        ctx.ob("R02.9", "quirks-decision/" + ",".join("%s=%s" % (re.sub(r"[^A-Za-z0-9_.]+", "_", k)[:40], v) for k, v in sorted(g.items()) if "matches (Some" not in k)[:300], mode == exp,
               "decides %s as the standard does" % exp if mode == exp else "decides %s where the standard says %s" % (mode, exp), "html5ever/src/tree_builder/data.rs doctype_error_and_quirks")
    ctx.floor("R02.9", "quirks-facts", facts, 60)


def r02_10(ctx):
    """'reset the insertion mode appropriately': element name (and the last flag) -> insertion mode, as the standard's steps list it"""
    key, pcs = nfq.cells(ctx, TB, "::reset_insertion_mode")
    table = {"tr": "InRow", "tbody": "InTableBody", "thead": "InTableBody", "tfoot": "InTableBody", "caption": "InCaption", "colgroup": "InColumnGroup",
             "table": "InTable", "body": "InBody", "frameset": "InFrameset"}
    n = 0
    seen_modes = set()
    for pc in nfq.feasible(pcs):
        ret = str(pc["ret"])
        g = pc["guards"]
        pos = [k for k, v in g.items() if v and re.search(r"\.local matches (atom:[\w-]+\|?)+$", re.sub(r"#\d+$", "", k))]
        html_ns = [v for k, v in g.items() if "matches ExpandedName{ns:atom:http://www.w3.org/1999/xhtml,local:_}" in k]
        last = [v for k, v in g.items() if re.fullmatch(r"item\.0 matches 0(#\d+)?", k)]
        # the context element is looked at only for the first node of the stack: a path that took it is a 'last' path whether or
        # not it asks the flag again
        via_context = any(v for k, v in g.items() if "(item.0 == 0)" in k and "self.context_elem" in k and "matches (true,Some(_))" in k)
        if via_context and last and not all(last):
            continue  # infeasible: the context element was taken (first node) and the same index is found not to be 0
        is_last = any(last) or via_context
        names = set()
        for k in pos:
            names |= set(re.findall(r"atom:([\w-]+)", k.split(" matches ", 1)[1]))
        if html_ns and not all(html_ns):
            names = set()
        exp = None
        if len(pos) > 1:
            continue  # two name tests on possibly different nodes (context element / stack node): decided by the later one, covered by the reference
        if not names:
            exp = "InBody"  # only reachable when last
        else:
            nm = sorted(names)[0]
            if names <= {"td", "th"}:
                exp = "InBody" if is_last else "InCell"
            elif names <= {"head"}:
                exp = "InBody" if is_last else "InHead"
            elif names <= {"template"}:
                exp = "self.template_modes.last().unwrap()"
            elif names <= {"html"}:
                none = any((v and k.startswith("self.head_elem matches None")) or (not v and k.startswith("self.head_elem matches Some(_)")) for k, v in g.items())
                exp = "BeforeHead" if none else "AfterHead"
            elif all(table.get(x) == table.get(nm) and x in table for x in names):
                exp = table[nm]
            else:
                exp = "?"
        n += 1
        seen_modes.add(ret)
        ctx.ob("R02.10", "reset-mode/%s%s" % ("|".join(sorted(names)) or "other", "/last" if is_last else ""), ret == exp,
               "-> %s" % ret if ret == exp else "element %s (last=%s) resets the insertion mode to %s; the standard says %s" % (sorted(names) or "other", is_last, ret, exp),
               "html5ever tree_builder reset_insertion_mode")
    ctx.floor("R02.10", "reset-mode-paths", n, 20)
    want = {"InCell", "InRow", "InTableBody", "InCaption", "InColumnGroup", "InTable", "InHead", "InBody", "InFrameset", "BeforeHead", "AfterHead", "self.template_modes.last().unwrap()"}
    ctx.ob("R02.10", "reset-mode-all-targets", want <= seen_modes, "all %d target modes are produced" % len(want) if want <= seen_modes else "never produced: %s" % sorted(want - seen_modes))


def r02_11(ctx):
    from lib import rowcmp
    cur = nf_common.area_current(ctx, TB)
    ks = [k for k in cur if k.endswith("rules::TreeBuilder<Handle,Sink>::step")]
    if len(ks) != 1 or cur[ks[0]]["kind"] != "paths":
        raise AnchorMissing("TreeBuilder::step has no path normal form")
    cells = cur[ks[0]]["cells"]
    modes = set()
    for c in cells:
        for g in c["guards"]:
            if g.startswith("p1 matches "):
                modes.update(a.strip() for a in g[len("p1 matches "):].split("|"))
    n = rowcmp.compare(cells, modes, lambda k, d: ctx.ob("R02.11", k, True, d),
                       lambda k, kind, d: ctx.ob("R02.11", k + "/" + kind, False, d, "html5ever tree_builder rules.rs step vs ref/whatwg_rows.py"),
                       summaries=nf_common.crate_summaries(ctx, "html5ever"))
    ctx.floor("R02.11", "row-situations-compared", n, 700)


def r02_12(ctx):
    """the rules for parsing tokens in foreign content (13.2.6.5) and the helpers that insert foreign elements"""
    key, pcs = nfq.cells(ctx, TB, "rules::TreeBuilder<Handle,Sink>::step_foreign")
    pcs = nfq.feasible(pcs)
    n = 0

    def row(name, pred, want, why):
        nonlocal n
        hit = [pc for pc in pcs if pred(pc["guards"])]
        n += 1
        got = sorted({tuple(x for x in nfq.names(pc) if x not in ("self.unexpected", "self.sink.parse_error", "call any_not_whitespace", "local.to_tendril")) for pc in hit})
        ok = bool(hit) and got == [tuple(want)]
        ctx.ob("R02.12", "foreign-row/" + name, ok, why if ok else "foreign content, %s: the standard prescribes %s, the code does %s" % (name, want, got), "html5ever tree_builder rules.rs step_foreign")

    T = lambda g, sub: any(v and sub in k for k, v in g.items())
    F = lambda g, sub: any((not v) and sub in k for k, v in g.items())
    row("NUL", lambda g: T(g, "p1 matches NullCharacter"), ["self.append_text"], "U+0000 -> parse error, insert U+FFFD")
    nul = [pc for pc in pcs if T(pc["guards"], "p1 matches NullCharacter")]
    ctx.ob("R02.12", "foreign-row/NUL-inserts-U+FFFD", bool(nul) and all("\ufffd" in " ".join(nfq.texts(pc)) for pc in nul), "the inserted character is U+FFFD")
    row("whitespace", lambda g: T(g, "p1 matches Characters(") and g.get("any_not_whitespace(p1.1)") is False, ["self.append_text"], "whitespace -> insert the character")
    row("characters", lambda g: T(g, "p1 matches Characters(") and g.get("any_not_whitespace(p1.1)") is True, ["set self.frameset_ok", "self.append_text"], "other characters -> insert, frameset-ok = not ok")
    row("comment", lambda g: T(g, "p1 matches Comment("), ["self.append_comment"], "comment -> insert a comment")
    row("breakout-start-tag", lambda g: T(g, "name:atom:blockquote"), ["self.unexpected_start_tag_in_foreign_content"], "break-out tags -> pop to an HTML / integration-point element and reprocess")
    row("font-with-color-face-size", lambda g: T(g, "name:atom:font})") and T(g, "p1.0.attrs.iter().any("), ["self.unexpected_start_tag_in_foreign_content"], "font with color/face/size breaks out")
    row("font-without", lambda g: T(g, "name:atom:font})") and F(g, "p1.0.attrs.iter().any("), ["self.foreign_start_tag"], "font without them is an ordinary foreign start tag")
    row("any-other-start-tag", lambda g: T(g, "p1 matches Tag(Tag{kind:StartTag})"), ["self.foreign_start_tag"], "any other start tag -> insert a foreign element")
    # helpers
    for fn, nsguard in (("::foreign_start_tag", "self.sink.elem_name(self.adjusted_current_node()).ns() matches "), ("::enter_foreign", "p2 matches ")):
        key, hp = nfq.cells(ctx, TB, fn)
        for pc in nfq.feasible(hp):
            g = pc["guards"]
            ns = "mathml" if any(v and "MathML" in k and k.startswith(nsguard) for k, v in g.items()) else "svg" if any(v and "2000/svg" in k and k.startswith(nsguard) for k, v in g.items()) else "other"
            names = [x for x in nfq.names(pc) if x.startswith("self.adjust_") or x == "self.insert_element"]
            want = {"mathml": ["self.adjust_mathml_attributes", "self.adjust_foreign_attributes", "self.insert_element"],
                    "svg": (["self.adjust_svg_tag_name"] if fn == "::foreign_start_tag" else []) + ["self.adjust_svg_attributes", "self.adjust_foreign_attributes", "self.insert_element"],
                    "other": ["self.adjust_foreign_attributes", "self.insert_element"]}[ns]
            sc = g.get("p1.self_closing")
            ins = [t for t in nfq.texts(pc) if t.startswith("self.insert_element(")]
            push_ok = len(ins) == 1 and ins[0].startswith("self.insert_element(NoPush," if sc else "self.insert_element(Push,") and (str(pc["ret"]) == ("DoneAckSelfClosing" if sc else "Done"))
            n += 1
            ctx.ob("R02.12", "foreign-insert/%s/%s/%s" % (fn.strip(":"), ns, "self-closing" if sc else "open"), names == want and push_ok,
                   "adjustments %s, then insert%s" % (want[:-1], " + pop + acknowledge" if sc else "") if names == want and push_ok else "%s in a %s context does %s / %s -> %s" % (fn.strip(":"), ns, names, ins, pc["ret"]),
                   "html5ever tree_builder " + fn.strip(":"))
    ctx.floor("R02.12", "foreign-facts", n, 19)


def r02_8(ctx):
    from lib import dispatchcmp
    cur = nf_common.area_current(ctx, TB)
    ks = [k for k in cur if k.endswith("rules::TreeBuilder<Handle,Sink>::step")]
    kf = [k for k in cur if k.endswith("rules::TreeBuilder<Handle,Sink>::step_foreign")]
    if len(ks) != 1 or len(kf) != 1 or cur[ks[0]]["kind"] != "paths" or cur[kf[0]]["kind"] != "paths":
        raise AnchorMissing("TreeBuilder::step / step_foreign have no path normal form")
    cells, fcells = cur[ks[0]]["cells"], cur[kf[0]]["cells"]
    modes = set()
    for c in cells:
        for g in c["guards"]:
            if g.startswith("p1 matches "):
                modes.update(a.strip() for a in g[len("p1 matches "):].split("|"))
    n = dispatchcmp.compare(cells, modes, lambda k, d: ctx.ob("R02.8", k, True, d),
                            lambda k, kind, d: ctx.ob("R02.8", k + "/" + kind, False, d, "html5ever tree_builder rules.rs step / step_foreign vs ref/whatwg_dispatch.py"), fcells)
    ctx.floor("R02.8", "token-handlings-compared", n, 6000)
    ctx.floor("R02.8", "insertion-modes", len(modes), 21)


def r02_13(ctx, rule="R02.13"):
    """the tree builder's notion of whitespace is the standard's ASCII whitespace - TAB, LF, FF, CR, SPACE - wherever it splits or
    classifies character tokens (`any_not_whitespace`, the whitespace-run split of process_to_completion)"""
    from . import predtable as pt
    n = 0
    for fname, methods in (("any_not_whitespace", ("any", "all", "find", "position")), ("process_to_completion", ("pop_front_char_run",))):
        its = [it for it in ctx.ast.walkable("html5ever") if it["k"] == "Fn" and it["name"] == fname and it.get("body") is not None and "tree_builder" in it["mod"]]
        if len(its) != 1:
            raise AnchorMissing("tree_builder %s" % fname)
        for m, chain, clo in pt.closures_in(its[0], methods):
            as_char = "chars" in chain or m == "pop_front_char_run"
            s = pt.truth_set(ctx, "html5ever", clo, as_char)
            if s is None:
                continue
            n += 1
            ws = s if 32 in s else set(range(256)) - s
            ok = ws == pt.ASCII_WHITESPACE
            ctx.ob(rule, "whitespace-set/%s" % fname, ok, "the predicate classifies exactly TAB LF FF CR SPACE as whitespace" if ok else
                   "whitespace is taken to be %s; the standard's ASCII whitespace is %s (missing %s, extra %s): such a character is foster-parented / clears frameset-ok / splits a text token differently" % (
                       sorted(ws)[:8], sorted(pt.ASCII_WHITESPACE), sorted(pt.ASCII_WHITESPACE - ws), sorted(ws - pt.ASCII_WHITESPACE)[:5]), "html5ever tree_builder " + fname)
    ctx.floor(rule, "whitespace-predicates", n, 2)


def foreign_end_tag_stops_at_html(ctx, rule):
    """foreign content, any other end tag: walking down the stack, the name comparison that pops applies to the first node and then
    only to nodes that are NOT in the HTML namespace - on reaching an HTML element the token is handed to the current insertion
    mode instead (the HTML-namespace test comes before the name test)"""
    key, pcs = nfq.cells(ctx, TB, "::step_foreign")
    k = 0
    bad = None
    for pc in nfq.feasible(pcs):
        if not any(a == "self.open_elems.truncate" for a, _ in pc["actions"]):
            continue
        k += 1
        g = pc["guards"]
        first = any(v and re.fullmatch(r"φ\(true\)(#\d+)?", x) for x, v in g.items())
        not_html = any((not v) and re.search(r"\.ns\(\) matches atom:http://www\.w3\.org/1999/xhtml(#\d+)?$", x) for x, v in g.items()) or \
            any((not v) and "matches ExpandedName{ns:atom:http://www.w3.org/1999/xhtml" in x for x, v in g.items())
        if not (first or not_html):
            bad = "an element further down the stack is popped by the foreign end-tag rule without having been tested not to be an HTML element: </body> inside <svg> pops body while the mode stays 'in body'"
    ctx.ob(rule, "foreign-end-tag-stops-at-html-elements", bad is None and k >= 2, bad or "%d popping paths: the first node, or a node tested to be outside the HTML namespace" % k, "html5ever tree_builder step_foreign")


def r02_14(ctx):
    """'the tokenizer state for a fragment's context element': RCDATA / RAWTEXT / script data / PLAINTEXT only for HTML-namespace
    elements of those names - an SVG <title> or a MathML <textarea> context leaves the tokenizer in the data state"""
    key, pcs = nfq.cells(ctx, TB, "::tokenizer_state_for_context_elem")
    bad = None
    k = 0
    for pc in nfq.feasible(pcs):
        if str(pc["ret"]) == "Data" or "panic!" in nfq.names(pc):
            continue
        k += 1
        html = any(v and re.search(r"matches ExpandedName\{ns:atom:http://www\.w3\.org/1999/xhtml,local:", g) for g, v in pc["guards"].items())
        if not html:
            bad = "the tokenizer starts in %s for a context element whose namespace was not tested to be HTML (%s)" % (pc["ret"], [g[-60:] for g, v in pc["guards"].items() if v][:2])
    ctx.ob("R02.14", "context-element-tokenizer-state-html-only", bad is None and k >= 4, bad or "%d non-data answers, all under an HTML-namespace test of the context element" % k, "html5ever tree_builder tokenizer_state_for_context_elem")


def run(ctx):
    from . import tbhelpers
    tbhelpers.run(ctx)
    ctx.guard("R02.12", "foreign-end-html", lambda: foreign_end_tag_stops_at_html(ctx, "R02.12"))
    ctx.rule("R02.14", "a fragment's context element switches the tokenizer out of the data state only if it is an HTML element")
    ctx.guard("R02.14", "context-state", lambda: r02_14(ctx))
    ctx.rule("R02.13", "the tree builder's whitespace predicates denote exactly ASCII whitespace (TAB, LF, FF, CR, SPACE)")
    ctx.guard("R02.13", "whitespace", lambda: r02_13(ctx))
    ctx.rule("R02.8", "tag dispatch of every insertion mode and of foreign content equals the independent transcription of the standard's rows: one handling per row, unlisted names handled like a fresh name, rows distinct except where the standard says 'act as anything else'")
    ctx.guard("R02.8", "dispatch", lambda: r02_8(ctx))
    ctx.rule("R02.12", "foreign content: character / comment / break-out / font / other-start-tag rows and the attribute adjustments + insertion of foreign elements are the standard's")
    ctx.guard("R02.12", "foreign", lambda: r02_12(ctx))
    ctx.rule("R02.11", "every row of every insertion mode performs the steps the standard prescribes, under the conditions it prescribes (independent transcription ref/whatwg_rows.py; helper calls = steps; parse errors excluded)")
    ctx.guard("R02.11", "rows", lambda: r02_11(ctx))
    ctx.rule("R02.10", "reset the insertion mode appropriately: element name and last flag select the mode the standard lists")
    ctx.guard("R02.10", "reset", lambda: r02_10(ctx))
    ctx.rule("R02.9", "quirks-mode tables equal the standard's lists; each is read case-insensitively by prefix/equality on the right identifier; the decision order is the standard's")
    ctx.guard("R02.9", "quirks", lambda: r02_9(ctx))
    ctx.rule("R02.7", "for selected InBody rules the 'has an element in X scope' test uses the scope the standard prescribes (list item / button / default)")
    ctx.guard("R02.7", "scopes", lambda: r02_7(ctx))
    ctx.rule("R02.1", "name sets and constants stated by the standard equal what the code uses (tag_sets.rs, dispatch-derived sets, 8/3/3)")
    ctx.rule("R02.2", "adjustment tables satisfy their defining equations (key = lower(value), prefix:local split, namespace of prefix, injective)")
    ctx.rule("R02.3", "element -> tokenizer-state map agrees between rules, fragment-context map (and serializer: R07.3)")
    ctx.rule("R02.4", "special_tag, html_default_scope, quirks tables: equal to the reviewed snapshot (normal forms)")
    ctx.rule("R02.5", "set_quirks_mode called only from the DOCTYPE handler (mode Initial) and the Initial anything-else arm (not iframe srcdoc)")
    ctx.rule("R02.6", "normal forms of every function of html5ever::tree_builder and ::driver equal the reviewed reference")
    ctx.guard("R02.1", "sets", lambda: r02_1(ctx))
    ctx.guard("R02.2", "adjust", lambda: r02_2(ctx))
    ctx.guard("R02.3", "textmode", lambda: r02_3(ctx))
    ctx.guard("R02.5", "quirks", lambda: r02_5(ctx))
    ctx.guard("R02.4", "snapshot", lambda: nf_common.nf_rule(ctx, "R02.4", TB, only=("tag_sets::", "data::")))
    ctx.guard("R02.6", "nf", lambda: nf_common.nf_rule(ctx, "R02.6", TB, floor=100))
    ctx.guard("R02.6", "nf-driver", lambda: nf_common.nf_rule(ctx, "R02.6", "html_driver", only=("driver::",)))
