"""Truth tables of single-argument predicates (closures without captured variables) over the 256 byte values, extracted by
partial evaluation of the syntax tree (no code is run): used where the standard fixes a character set."""
from lib.ast import walk
from lib.flat import scalar_consts, Config, explore, run_body
from lib.mir import AnchorMissing

ASCII_WHITESPACE = {9, 10, 12, 13, 32}


def free_names(closure):
    pnames = []
    def pn(p):
        if p.get("k") == "PIdent":
            pnames.append(p["name"])
        for v in p.values():
            if isinstance(v, dict):
                pn(v)
            elif isinstance(v, list):
                for x in v:
                    if isinstance(x, dict):
                        pn(x)
    for p in closure.get("params", []):
        pn(p)
    free = set()

    def g(n):
        if n.get("k") == "Path" and "::" not in n["path"] and n["path"] not in pnames and n["path"][:1].islower():
            free.add(n["path"])
    walk(closure["body"], g)
    return pnames, free


def truth_set(ctx, crate, closure, as_char):
    """{v in 0..255 : closure(v) is true}; the argument is a char (as_char) or a byte"""
    pnames, free = free_names(closure)
    if free or len(pnames) != 1:
        return None
    members = set()
    consts = scalar_consts(ctx.ast.walkable(crate))
    body = closure["body"] if isinstance(closure["body"], list) else [{"k": "ExprStmt", "e": closure["body"], "semi": False}]
    for v in range(256):
        cfg = Config(acquire={}, primitives=set(), inline={}, guards=set(), samples=[], accessors=set(), full_call_text=True, generic_loops=True, consts=consts)
        val = ("ch", chr(v)) if as_char else v
        paths = explore(cfg, lambda run, val=val: run_body(run, body, {pnames[0]: val}))
        outs = {p["outcome"][1] if len(p["outcome"]) > 1 else None for p in paths}
        if outs == {True}:
            members.add(v)
        elif outs != {False}:
            raise AnchorMissing("predicate is not decidable for value %d: %s" % (v, outs))
    return members


def closures_in(item, methods):
    """(method name, receiver text hint, closure) for every call `.m(closure)` with m in methods inside a function item"""
    out = []

    def f(n):
        if n.get("k") == "MethodCall" and n.get("m") in methods:
            for arg in n.get("args", []):
                if arg.get("k") == "Closure" and len(arg.get("params", [])) == 1:
                    chain = []
                    r = n.get("recv")
                    while isinstance(r, dict) and r.get("k") == "MethodCall":
                        chain.append(r["m"])
                        r = r.get("recv")
                    out.append((n["m"], chain, arg))
    walk(item["body"], f)
    return out
