"""C09 — line numbers reported with tokens match the source (DESIGN 4.C09)."""
import re
from lib import machine as mc
from lib.mir import AnchorMissing, callee_is
from . import mirq, tokrules as tr
from . import nf_common

MANIFEST = {
    "text": "Who-may-consume and must-count rules: raw consumption primitives of the input queue are called only from the reviewed wrapper roles, current_line is written only where a normalised line break is recognised (and by the SIMD scan), every fast-path set contains CR and LF so no run hides a line break, and no peek/discard_char path can drop a line break uncounted; the line is read at every sink call. The SIMD scan's newline tally covers exactly the bytes its index advances over (R09.6, SSE2 and NEON); characters the char-ref code may push back are read uncounted (R09.3); the tree builder forwards the line before anything that can call the sink (R09.5).",
    "note": "Decides R09.1-R09.6: each consumed line break passes exactly one +1 and the number reaches the sink. Not decided: the sink's use of the number. Round 6: pending-CR flag cleared on every path that saw it, reconsumed character not recounted (R09.7). Round 8: R09.8 = R03.16 (a line is counted exactly when preprocessing answers a line feed).",
    "technique": 'who-may-call over the resolved MIR call graph + rules over flattened transition tables',
}
LEVEL = "other"
EXPLANATION = """
R09.1 (MIR call graph) restricts which functions of html5ever::tokenizer may call BufferQueue::{next,
pop_except_from, eat, pop_front} or pop characters off the front chunk; R09.2 restricts writers of current_line;
R08.1's set-completeness gives 'no run contains a line break'; R09.3 (flattened tables) shows no peek+discard
path sees CR/LF; R09.4 checks that process_token passes current_line at both call sites.
R09.5 line forwarded before any sink-reaching call in TreeBuilder::process_token; R09.6 SIMD scan newline accounting (SSE2 +
NEON) and reviewed normal forms of the SIMD functions; R09.3 also: pushed-back characters were read uncounted.
"""
ASSUMPTIONS = ["the sink receives the line number it is passed (tree builder forwards it unchanged: checked structurally in R09.4)"]

CONSUMERS = ("BufferQueue::next", "BufferQueue::pop_except_from", "BufferQueue::eat", "BufferQueue::pop_front",
             "Tendril::<F, A>::pop_front_char", "Tendril::<F, A>::unsafe_pop_front", "Tendril::<fmt::UTF8, A>::pop_front_char")
ALLOWED_CONSUMER_ROLES = {
    # function -> the primitives it may call, with the reason it counts lines
    "get_char": {"BufferQueue::next"},
    "get_preprocessed_char": {"BufferQueue::next"},
    "pop_except_from": {"BufferQueue::pop_except_from"},
    "eat": {"BufferQueue::eat", "BufferQueue::next"},
    "discard_char": {"BufferQueue::next"},
    "feed": {"BufferQueue::next"},
    "step": {"BufferQueue::pop_front"},
    "data_state_simd_fast_path": {"pop_front_char", "unsafe_pop_front"},
}


def r09_1(ctx):
    mir = ctx.mir
    n = 0
    for f in mir.by_crate["html5ever"]:
        if not f.path.startswith("tokenizer::"):
            continue
        fname = f.name if f.d["kind"] != "Closure" else f.d.get("closure_of", "").rsplit("::", 1)[-1]
        for bb, c, t in f.calls():
            if c is None:
                continue
            hit = None
            for p in CONSUMERS:
                if c["path"].endswith(p) or c["path"].endswith(p.split("::")[-1]) and ("BufferQueue" in c["path"] or "Tendril" in c["path"]) and p.split("::")[-1] == c["path"].split("::")[-1]:
                    hit = p
                    break
            if hit is None:
                continue
            n += 1
            short = hit.split("::")[-1]
            base = f
            if f.d["kind"] == "Closure":
                par = [g for g in mir.by_crate["html5ever"] if g.path == f.d.get("closure_of")]
                base = par[0] if par else f
            # (a helper extracted since the review consumes on behalf of the reviewed wrappers that call it)
            for owner in sorted(mirq.reviewed_owners(ctx, base)) if mirq.is_new(ctx, base) else [fname]:
                allowed = ALLOWED_CONSUMER_ROLES.get(owner, set())
                ok = any(a.endswith(short) for a in allowed)
                if owner in ("end",) and short == "next":
                    ok = False
                ctx.ob("R09.1", "consumer/%s calls %s" % (owner if "char_ref" not in f.path else "char_ref::" + owner, hit), ok,
                       "wrapper role reviewed: counts or cannot see a line break" if ok else "raw consumption of input outside the reviewed wrappers: characters read here bypass the line counter",
                       f.where(bb))
    ctx.floor("R09.1", "raw-consumption-sites", n, 8)


def r09_2(ctx):
    T = ctx.tables("html")
    writers = set()
    for sec in ("helpers", "charref"):
        for fn, pcs in T[sec].items():
            for pc in pcs:
                for a, args in pc["actions"]:
                    if a == "set self.current_line" or a.startswith("set tokenizer.current_line"):
                        writers.add(fn)
                        if fn == "get_preprocessed_char":
                            ivs = mc.acq_intervals(pc)
                            ok = args == ("(self.current_line.get() + 1)",)
                            ctx.ob("R09.2", "line-increment/get_preprocessed_char/+1", ok, "line counter incremented by exactly one" if ok else "increment is %s" % (args,))
    for st, cells in T["raw"]["step"].items():
        for c in cells or []:
            if any(a == "set self.current_line" for a, _ in c["actions"]):
                writers.add("step/" + st)
    # MIR: every function of the tokenizer writing the Cell current_line
    mir = ctx.mir
    mw = set()
    for f in mir.by_crate["html5ever"]:
        if not f.path.startswith("tokenizer::"):
            continue
        for bb, c, t in f.calls():
            if c is not None and c["path"].endswith("Cell::<T>::set") and t["a"]:
                r = f.root(t["a"][0])
                if r[0] == "local" and ".current_line" in r[2]:
                    mw |= mirq.reviewed_owners(ctx, f)  # (a helper extracted since the review writes on behalf of its callers)
    for w in sorted(mw | writers):
        ok = w in ("get_preprocessed_char", "data_state_simd_fast_path", "new")
        ctx.ob("R09.2", "line-writer/" + w, ok, "reviewed writer of current_line" if ok else "current_line is written outside get_preprocessed_char / the SIMD scan")
    ctx.floor("R09.2", "writers", len(mw), 2)
    # the +1 happens exactly on the classes that are line breaks after CR folding
    pcs = T["helpers"]["get_preprocessed_char"]
    for pc in pcs:
        g = pc["guards"]
        if g.get("self.ignore_lf") is not False:
            continue
        ivs = mc.acq_intervals(pc)
        if not ivs:
            continue
        lo, hi = ivs[0]
        counts = any(a == "set self.current_line" for a, _ in pc["actions"])
        is_break = (lo, hi) in ((10, 10), (13, 13))
        if counts != is_break:
            ctx.ob("R09.2", "line-increment/class=%s" % mc.class_name((lo, hi)), False, "class %s counting a line but is not a line break" % ("is" if counts else "is not"))
    ctx.ob("R09.2", "line-increment/classes", True, "with no CR pending, exactly '\\n' and '\\r' increment the counter")


def r09_4(ctx):
    mir = ctx.mir
    n = 0
    for f in mir.by_crate["html5ever"]:
        if f.path.startswith("tokenizer::") and f.name == "process_token" and "Tokenizer" in f.path:
            for bb, c, t in f.calls():
                if c is not None and c["path"].endswith("TokenSink::process_token"):
                    n += 1
                    r = f.root(t["a"][2]) if len(t["a"]) > 2 else None
                    # (Cell::get is followed by the provenance analysis: the root is the field itself)
                    ok = r is not None and r[0] == "local" and ".current_line" in r[2]
                    ctx.ob("R09.4", "sink-call-passes-current_line/%d" % n, ok, "sink.process_token(token, self.current_line.get())" if ok else "line argument does not come from current_line", f.where(bb))
    ctx.floor("R09.4", "sink-calls", n, 2)


def r09_5(ctx):
    """the HTML tree builder forwards the token's line to the sink before anything that can call the sink"""
    import re
    from . import nfq
    key, pcs = nfq.cells(ctx, "html_tree_builder", "TreeBuilder<Handle,Sink>[TokenSink]::process_token")
    pcs = nfq.feasible(pcs)
    n = 0
    same = re.compile(r"\(?(p2 (==|!=) self\.current_line\.get\(\)|self\.current_line\.get\(\) (==|!=) p2)\)?")
    for pc in pcs:
        acts = [(a, [str(x) for x in args]) for a, args in pc["actions"]]
        reach = [i for i, (a, args) in enumerate(acts) if (a.startswith("self.sink.") and a != "self.sink.set_current_line") or re.fullmatch(r"self\.[a-z_0-9]+", a)]
        if not reach:
            continue
        n += 1
        fwd = [i for i, (a, args) in enumerate(acts) if a == "self.sink.set_current_line" and args == ["p2"]]
        unchanged = False
        for g, v in pc["guards"].items():
            m = same.fullmatch(g)
            if m:
                op = m.group(2) or m.group(3)
                unchanged = (op == "!=" and v is False) or (op == "==" and v is True)
        ok = bool(fwd and fwd[0] < reach[0]) or unchanged
        first = acts[reach[0]][0]
        kinds = sorted(g for g, v in pc["guards"].items() if v and g.startswith("p1 matches "))
        ctx.ob("R09.5", "line-forwarded-before/%s/%s" % (first, ",".join(kinds)[:80]), ok,
               "set_current_line(line_number) precedes it, or the line is unchanged" if ok else "%s runs on a path where the token's line number was not forwarded to the sink first" % first,
               "html5ever/src/tree_builder/mod.rs process_token")
    ctx.floor("R09.5", "sink-reaching-paths", n, 20)


def _tuple2(txt):
    comps = mc._split_top(txt.strip()[1:-1], ",") if txt.strip().startswith("(") and txt.strip().endswith(")") else []
    return [c.strip() for c in comps]


def r09_6(ctx):
    """SIMD scan of the data state: per loop iteration the newline tally covers exactly the bytes the index advances over"""
    from lib import nf as nfmod
    import re
    items = {}
    for it in ctx.ast.walkable("html5ever"):
        if it["k"] == "Fn" and it["name"] in ("data_state_sse2_fast_path", "data_state_neon_fast_path") and it.get("body") is not None:
            items[it["name"]] = it

    def find(its):
        for it in its:
            if it.get("k") == "Fn" and it["name"] in ("data_state_sse2_fast_path", "data_state_neon_fast_path") and it.get("body") is not None:
                items.setdefault(it["name"], dict(it, mod=it.get("mod") or "tokenizer"))
            if it.get("k") in ("Impl", "Mod"):
                find(it.get("items", []))
    find(ctx.ast.raw("html5ever/src/tokenizer/mod.rs"))
    n = 0
    for name, it in sorted(items.items()):
        r = nfmod.nf_function(it)
        if r[0] != "paths":
            ctx.ob("R09.6", "simd-newline-accounting/%s" % name, False, "the scan loop left the fragment the flattener models (%s): newline accounting cannot be decided" % (r[2] if len(r) > 2 else "?"))
            continue
        for c in mc.to_json({name: r[1]})[name]:
            ret = str(c["ret"])
            if ret == "!":
                continue
            t = _tuple2(ret)
            if ret == "()" and c["actions"] and c["actions"][-1][0] == "loop-end" and str(c["actions"][-1][1][0]) == "end":
                # the iteration goes round: what it leaves in the loop-carried locals; the index is the one advanced by a whole block,
                # the tally the other one that is 'previous + something'
                inc = [str(x) for x in c["actions"][-1][1][1:] if re.fullmatch(r"\(φ\(0\) \+ (.*)\)", str(x))]
                idx = [x for x in inc if x == "(φ(0) + 16)"]
                rest = [x for x in inc if x != "(φ(0) + 16)"]
                if len(idx) == 1 and len(rest) <= 1:
                    t = ["loop(%s)" % idx[0], "loop(%s)" % rest[0] if rest else "loop(φ(0))"]
            if len(t) != 2:
                ctx.ob("R09.6", "simd-newline-accounting/%s/result-shape" % name, False, "result is not (bytes scanned, newlines found): " + ret[:120])
                continue
            if t[0] == "loop(φ(0))" and t[1] == "loop(φ(0))":
                continue  # the loop's exit test failed: nothing scanned, nothing counted in this iteration
            mi = re.fullmatch(r"loop\(\(φ\(0\) \+ (.*)\)\)", t[0])
            mn = re.fullmatch(r"loop\(\(φ\(0\) \+ (.*)\)\)", t[1])
            zero = t[1] == "loop(φ(0))"
            if mi is None or (mn is None and not zero):
                ctx.ob("R09.6", "simd-newline-accounting/%s/result-shape" % name, False, "index / tally are not 'previous + increment': " + ret[:160])
                continue
            di = mi.group(1)
            dn = mn.group(1) if mn else "0"
            n += 1
            full = di == "16"
            nl = ("10" in dn) or ("'\\n'" in dn) or ("'\n'" in dn)
            if full:
                prefix = "(1 <<" in dn or "[.." in dn
                no_newline_known = zero and any(v and (g.endswith(" matches 0") or "== 0" in g) and "newline" not in g and g.count("10") > 0 for g, v in c["guards"].items())
                ok = (zero and (no_newline_known or any("10" in g or "'\\n'" in g for g in c["guards"]))) or (nl and not prefix)
                what = "a whole 16-byte block: tally += newlines of the whole block"
            else:
                ok = nl and (("(1 << %s) - 1" % di) in dn or ("[..%s]" % di) in dn)
                what = "stop inside the block: tally += newlines before the stop position only"
            ctx.ob("R09.6", "simd-newline-accounting/%s/%s" % (name, "full-block" if full else "stop"), ok,
                   what if ok else "index advances by %s but the newline tally by %s: line breaks %s are counted although they have not been consumed (they are counted again when consumed)" % (di[:80], dn[:160], "after the stop position" if not full else "?"),
                   "html5ever tokenizer " + name)
    ctx.floor("R09.6", "simd-scan-paths", n, 4)


def reconsume_not_recounted(ctx):
    """get_char with the reconsume flag set hands back the character that was already read - and already counted if it was a line
    break - as it is: it does not go through get_preprocessed_char (which counts line feeds and folds CR) a second time"""
    for which in ("html", "xml"):
        T = ctx.tables(which)
        rows = T["helpers"].get("get_char")
        if not rows:
            raise AnchorMissing("get_char not tabulated (%s)" % which)
        bad = None
        n = 0
        for pc in rows:
            if not any(v is True and re.sub(r"\.get\(\)$", "", k) == "self.reconsume" for k, v in pc["guards"].items()):
                continue
            n += 1
            names = [a for a, _ in pc["actions"]]
            extra = [a for a in names if a not in ("set self.reconsume",)]
            if extra or "current_char" not in str(pc["ret"]) or "get_preprocessed_char" in str(pc["ret"]):
                bad = "with the reconsume flag set get_char does %s and answers %s: a reconsumed line break is counted twice (and a reconsumed CR is folded again)" % (extra[:3], str(pc["ret"])[:60])
        if which == "xml" and n == 0:
            continue
        ctx.ob("R09.7", "reconsumed-character-not-recounted/" + which, bad is None and n >= 1, bad or "reconsume: flag cleared, the stored character handed back untouched", "%s tokenizer get_char" % which)


def run(ctx):
    ctx.rule("R09.8", "= R03.16: a line is counted exactly when input stream preprocessing answers a line feed (CR, CR LF and LF each once)")
    ctx.guard("R09.8", "preprocessing", lambda: tr.preprocess_transcription(ctx, "R09.8", "html"))
    ctx.rule("R09.7", "a pending CR's line feed is skipped (uncounted) only together with clearing the flag, on every path that saw it - also when the chunk ends there (R03.3); "
                      "a character that is reconsumed is handed back as it is, without being counted again")
    ctx.guard("R09.7", "ignore_lf-consumed", lambda: tr.ignore_lf_consumed_when_seen(ctx, "R09.7", "html"))
    ctx.guard("R09.7", "reconsume", lambda: reconsume_not_recounted(ctx))
    ctx.rule("R09.6", "SIMD data-state scan (SSE2 and NEON): the newline tally of an iteration covers exactly the bytes the index advances over; normal forms of the SIMD functions equal the reviewed reference")
    ctx.guard("R09.6", "simd", lambda: r09_6(ctx))
    ctx.guard("R09.6", "nf-simd", lambda: nf_common.nf_rule(ctx, "R09.6", "html_tokenizer_simd", floor=3))
    ctx.rule("R09.5", "TreeBuilder::process_token forwards the token's line (set_current_line) before any call that can reach the sink, on every path")
    ctx.guard("R09.5", "forward", lambda: r09_5(ctx))
    ctx.rule("R09.1", "raw consumption primitives of the input are called only from the reviewed wrapper roles")
    ctx.rule("R09.2", "current_line is written only in get_preprocessed_char (+1 on exactly CR/LF) and the SIMD scan")
    ctx.rule("R09.3", "no peek/discard_char path discards a line break uncounted; every fast-path set contains CR and LF")
    ctx.rule("R09.4", "every sink.process_token call passes current_line.get()")
    ctx.guard("R09.1", "who-may-consume", lambda: r09_1(ctx))
    ctx.guard("R09.2", "writers", lambda: r09_2(ctx))
    ctx.guard("R09.3", "sets", lambda: tr.fastpath_sets(ctx, "R09.3", "html", 10))

    def raw():
        n = tr.raw_discards(ctx, "R09.3", "html")
        ents = ctx.ast.raw("web_atoms/entities.rs")
        bad = 0
        for it in ents:
            if it["k"] == "Static" and it["name"] == "NAMED_ENTITIES":
                for el in it["init"]["elems"]:
                    if "\n" in el["elems"][0]["v"] or "\r" in el["elems"][0]["v"]:
                        bad += 1
        ctx.ob("R09.3", "entity-names-have-no-line-break", bad == 0, "so the matched prefix of name_buf (the only part not pushed back) contains none")

    ctx.guard("R09.3", "raw-discards", raw)
    ctx.guard("R09.3", "ignore_lf", lambda: tr.ignore_lf_rule(ctx, "R09.3", "html"))
    # characters the char-ref code may push back must not have been counted: they are read with peek + discard_char
    ctx.guard("R09.3", "wrapper-gate", lambda: tr.wrapper_fast_path_gate(ctx, "R09.3", "html"))
    ctx.guard("R09.3", "pushback", lambda: tr.pushback_taint(ctx, "R09.3", "html"))
    ctx.guard("R09.4", "sink", lambda: r09_4(ctx))
    ctx.guard("R09.3", "raw-path-gate", lambda: ctx.floor("R09.3", "raw-path-sites", tr.raw_path_gate(ctx, "R09.3", "html"), 1))
