"""C03 — output independent of chunking, pausing and resuming (DESIGN 4.C03)."""
import re
from lib import machine as mc
import re
from lib.mir import AnchorMissing
from . import tokrules as tr
from . import nf_common
from . import tok_common

MANIFEST = {
    "text": "Structural conditions under which any tokenizer state can be left on 'no more input' and re-entered without loss, decided on the flattened transition tables: no effect precedes a possible suspension (every state and char-ref step), look-ahead text survives (temp_buf provably empty where eat() starts), a pending CR is resolved only where the next character is known, the BOM flag is cleared after the first character, a script pause happens on the consuming '>' transition with the state already reset; plus equality of all helper normal forms with the reviewed reference. The pending 'ignore LF' flag is consumed on every path that saw it, also when input runs out while skipping (R03.3); a char-ref function that finds the queue empty answers Stuck without a state change (R03.1); buffered table text is foster-parented iff some pending token has a non-whitespace character (R03.7).",
    "note": 'Decides R03.1-R03.7 (necessary conditions). Not decided: BufferQueue arithmetic under the primitives (C13), equality of the final tree (needs C02). Trusted: flattening engine, rustc expansion. Also decided: an eat() that needs more input stashes the whole queue in order (R03.2). Also decided: whitespace-sensitive modes split unsplit character tokens first (R03.9). Round 6: runs of characters are only appended (R03.10), whitespace tests are per-character (R03.11), drivers feed until done (R03.12). Round 7: split labels only the run (R03.13), run() passes step results on unchanged (R03.14). Round 8: end() runs the machine before eof_step (R03.15), input stream preprocessing equals its transcription cell by cell (R03.16), feed() answers what run() answered and drops at most one BOM character (R03.17).',
    "technique": 'must-pass-through / dataflow rules over decision-tree-flattened transition tables',
}
LEVEL = "other"
EXPLANATION = """
Rules over the flattened tables of html5ever's tokenizer (73 states x exact char partition x guards) and the normal
forms of its helpers: R03.1 suspend-before-effect, R03.2 temp_buf empty at eat(), R03.3 pending CR resolved only
with a known next character, R03.4 BOM flag cleared at stream start, R03.5 script pause position, R03.6 partial
state lives in fields / helpers equal the reviewed normal forms.  These are necessary conditions of chunk
independence that quantify over code, not over inputs.
R03.7 table-text decision is existential over pending tokens; R03.3 also: ignore_lf consumed on every path that saw it; R03.1 also:
char-ref functions answer Stuck on an empty queue without a state change.
"""
ASSUMPTIONS = ["BufferQueue primitives return None only when they consumed nothing (C13)", "ref/html_tokenizer.json reviewed"]


def r03_5(ctx):
    T = ctx.tables("html")
    n = 0
    for st, cells in T["raw"]["step"].items():
        for c in cells or []:
            if not any(a == "emit_current_tag" for a, _ in c["actions"]):
                continue
            n += 1
            acq = [(l, ch) for k, l, ch in c["choices"] if k == "acq" and isinstance(ch, dict)]
            on_gt = len(acq) == 1 and acq[0][1]["lo"] == acq[0][1]["hi"] == ord(">") and acq[0][0] in ("get_char", "pop_except_from") or (
                len(acq) == 1 and acq[0][0].startswith("pop_except_from") and acq[0][1]["lo"] == acq[0][1]["hi"] == ord(">"))
            names = [a for a, _ in c["actions"]]
            ok = on_gt and "set self.reconsume" not in names and names[-1] == "emit_current_tag" and c["value"] == "self.emit_current_tag()"
            state_before = any(a == "set self.state" for a in names[: names.index("emit_current_tag")]) or c["next"] == st
            ctx.ob("R03.5", "emit-tag-on-consumed-gt/state=%s" % st, ok and state_before,
                   "tag emitted on the consuming '>' transition, state written before emit_current_tag and its result returned unchanged" if ok and state_before
                   else "tag is emitted on %s with actions %s: a script pause here would not sit right after the end tag" % (acq, names))
    ctx.floor("R03.5", "emit-tag-sites", n, 9)
    # emit_current_tag: Script arm resets the state to Data and returns Script without touching input
    pcs = T["helpers"].get("emit_current_tag")
    if not pcs:
        raise AnchorMissing("emit_current_tag not tabulated")
    k = 0
    for pc in pcs:
        if pc["ret"].startswith("Script("):
            k += 1
            names = [a for a, _ in pc["actions"]]
            i = names.index("process_token") if "process_token" in names else -1
            after = pc["actions"][i + 1:]
            ok = i >= 0 and after == (("set self.state", ("Data",)),)
            ctx.ob("R03.5", "script-arm-resets-state", ok, "after the sink answered Script the only effect is state := Data" if ok else "Script arm performs %s" % (after,))
    ctx.floor("R03.5", "script-arms", k, 1)
    # run(): returns on Script / EncodingIndicator without another step
    run = T["helpers"].get("run")
    if not run:
        raise AnchorMissing("run not tabulated")
    k = 0
    for pc in run:
        if pc["ret"].startswith("Script(") or pc["ret"].startswith("EncodingIndicator("):
            k += 1
            names = [a for a, _ in pc["actions"]]
            steps = [a for a in names if a == "step"]
            ok = len(steps) == 1 and names[-1] != "step" or (len(steps) == 1 and names.index("step") == max(i for i, a in enumerate(names) if a == "step"))
            ctx.ob("R03.5", "run-returns-on-%s" % pc["ret"].split("(")[0], ok and len(steps) == 1, "run() returns the pause to the caller after exactly one step")
    ctx.floor("R03.5", "run-pause-returns", k, 2)


def r03_7(ctx):
    """tree builder: the decision taken on buffered table text does not depend on how the text was cut into character tokens:
    it is foster-parented iff SOME pending token has a non-whitespace character"""
    from . import nfq
    key, step = nfq.cells(ctx, "html_tree_builder", "rules::TreeBuilder<Handle,Sink>::step")
    n = 0
    for pc in nfq.feasible(step):
        if pc["guards"].get("p1 matches InTableText") is not True:
            continue
        gl = [(k, v) for k, v in pc["guards"].items() if k.startswith("self.pending_table_text.take()")]
        if not gl:
            continue
        k, v = gl[0]
        n += 1
        kk = k.replace(" ", "")
        exists = ".iter().any(" in kk and "Whitespace=>False" in kk and "NotWhitespace=>True" in kk and "NotSplit=>any_not_whitespace(" in kk
        forall = ".iter().all(" in kk and "Whitespace=>True" in kk and "NotWhitespace=>False" in kk and "NotSplit=>!any_not_whitespace(" in kk
        names = nfq.names(pc)
        fostered = "self.foster_parent_in_body" in names
        appended = "self.append_text" in names
        nonspace = v if exists else (not v) if forall else None   # "some pending token has a non-whitespace character"
        ok = nonspace is not None and ((nonspace and fostered and not appended) or ((not nonspace) and appended and not fostered))
        ctx.ob("R03.7", "table-text-decision-is-existential/%s" % ("foster" if fostered else "insert"), ok,
               "some pending token has a non-whitespace character -> foster-parent all of them; none -> insert them" if ok else
               "pending table text: under '%s' = %s the tokens are %s; the outcome then depends on where the text was split" % (k[:120], v, "foster-parented" if fostered else "inserted" if appended else "dropped"),
               "html5ever tree_builder rules.rs InTableText")
    ctx.floor("R03.7", "table-text-paths", n, 2)


def r03_13(ctx):
    """process_to_completion, SplitWhitespace: only the run that was actually cut off the front of the text is labelled
    (Whitespace / NotWhitespace, by the run's own class); what remains is queued as NotSplit - it has not been looked at, it may
    contain more whitespace, and the modes that drop or keep whitespace must see it split again"""
    from . import nfq
    key, pcs = nfq.cells(ctx, "html_tree_builder", "::process_to_completion")
    bad = None
    n = 0
    for pc in nfq.feasible(pcs):
        if not any(v and "matches SplitWhitespace(_)" in g for g, v in pc["guards"].items()):
            continue
        acts = [(a, tuple(str(x) for x in args)) for a, args in pc["actions"]]
        if "panic!" in [a for a, _ in acts]:
            continue
        n += 1
        for a, args in acts:
            if re.search(r"\.(push_back|push_front|push|insert)$", a) and args and "Characters(" in args[-1]:
                m = re.match(r"Characters\((\w+),", args[-1])
                if not m or m.group(1) != "NotSplit":
                    bad = "the rest of a split character token is queued as %s: it has not been examined - whitespace inside it is then treated like the first character after the run (dropped or kept wholesale), and how much of it there is depends on where the tokenizer cut the text" % (m.group(1) if m else args[-1][:40])
        ends = [args for a, args in acts if a == "loop-end"]
        isws = [v for g, v in pc["guards"].items() if re.search(r"pop_front_char_run\(.*\)\.0\.1$", re.sub(r"#\d+$", "", g))]
        cur = [c for c in (ends[-1][1:] if ends else ()) if c.startswith("Characters(")]
        if cur and isws:
            m = re.match(r"Characters\((\w+),(.*)$", cur[0])
            want = "Whitespace" if isws[-1] else "NotWhitespace"
            if not m or m.group(1) != want or "pop_front_char_run" not in m.group(2):
                bad = "the run cut off the front is labelled %s although its class is %s" % (m.group(1) if m else "?", want)
    ctx.ob("R03.13", "split-labels-only-the-run", bad is None and n >= 4, bad or "%d split paths: run labelled by its own class, remainder queued NotSplit" % n, "html5ever tree_builder process_to_completion")


def run(ctx):
    ctx.rule("R03.17", "feed() answers what run() answered (a pause or indicator that arrives with the queue just emptied is still reported) and drops at most one character as BOM")
    ctx.guard("R03.17", "feed/html", lambda: tr.feed_facts(ctx, "R03.17", "html"))
    ctx.rule("R03.16", "'preprocessing the input stream' (get_preprocessed_char) equals its transcription cell by cell: CR / CR LF -> one LF with the pending-CR flag carried to the next call or chunk, a skipped LF replaced by the character behind it, the flag consulted on every answering path")
    ctx.guard("R03.16", "preprocessing/html", lambda: tr.preprocess_transcription(ctx, "R03.16", "html"))
    ctx.rule("R03.15", "end() runs the state machine over the queue, unconditionally, after setting the end-of-input flag and before eof_step: a look-ahead stash parked by eat() at the very end of the input is re-joined")
    ctx.guard("R03.15", "end-runs/html", lambda: tr.end_runs_before_eof(ctx, "R03.15", "html"))
    ctx.rule("R03.14", "run() passes every answer of step() on unchanged (a pause is never reported as Done), in the profiling loop too")
    for _w in ("html", "xml"):
        ctx.guard("R03.14", "run/" + _w, lambda _w=_w: tr.run_maps_step_results(ctx, "R03.14", _w))
    ctx.rule("R03.13", "splitting a character token labels only the run cut off its front; the remainder stays NotSplit")
    ctx.guard("R03.13", "split-labels", lambda: r03_13(ctx))
    ctx.rule("R03.12", "the drivers feed the tokenizer until it is done, so where a chunk ends relative to a script end tag does not matter")
    ctx.guard("R03.12", "driver/html", lambda: tr.driver_feeds_until_done(ctx, "R03.12", "html_driver", "::loop_until_done", "html5ever driver loop_until_done"))
    ctx.guard("R03.12", "driver/xml", lambda: tr.driver_feeds_until_done(ctx, "R03.12", "xml_driver", "XmlParser<Sink>[TendrilSink<tendril::fmt::UTF8>]::process", "xml5ever driver process"))
    ctx.rule("R03.10", "a run of characters taken from the queue is only appended to what the state collects: nothing per run (its length depends on the chunking)")
    for _w in ("html", "xml"):
        ctx.guard("R03.10", "runs/" + _w, lambda _w=_w: tr.runs_only_concatenate(ctx, "R03.10", _w))
    ctx.rule("R03.11", "the whitespace tests the tree builder applies to character tokens are per-character predicates (some character is not ASCII whitespace): their answer for a text does not depend on how it was cut into tokens")
    from .C02 import r02_13
    ctx.guard("R03.11", "whitespace-predicates", lambda: r02_13(ctx, "R03.11"))
    ctx.rule("R03.7", "buffered table text is foster-parented iff some pending character token contains a non-whitespace character (independent of the split)")
    ctx.guard("R03.7", "table-text", lambda: r03_7(ctx))
    ctx.rule("R03.9", "every insertion mode that treats whitespace specially splits an unsplit character token first: the tree does not depend on where the tokenizer cut the text")
    from .C08 import split_before_whitespace_decision
    ctx.guard("R03.9", "split", lambda: split_before_whitespace_decision(ctx, "R03.9"))
    ctx.rule("R03.1", "on every path to 'need more input' nothing but input acquisition and pure queries has happened in this iteration")
    ctx.rule("R03.2", "temp_buf is empty at the entry of every state whose arm starts with eat() (forward dataflow over the transition table); an eat() that needs more input stashes the whole queue, in order")
    ctx.rule("R03.3", "ignore_lf is cleared only by get_preprocessed_char, after raw text was pushed back, or after peek() returned Some")
    ctx.rule("R03.4", "feed() clears discard_bom once the first character of the stream has been seen; nothing else reads the flag")
    ctx.rule("R03.5", "a tag is emitted only on the consuming '>' transition; the Script arm resets the state; run() returns the pause immediately")
    ctx.rule("R03.6", "helper methods (get_char, peek, eat, pop_except_from, get_preprocessed_char, feed, run, end ...) equal the reviewed normal forms")
    ctx.guard("R03.1", "suspend", lambda: tr.suspend_before_effect(ctx, "R03.1", "html"))
    ctx.guard("R03.1", "charref-stuck", lambda: tr.charref_needs_more_input_means_stuck(ctx, "R03.1", "html"))
    ctx.guard("R03.2", "temp_buf", lambda: tr.temp_buf_dataflow(ctx, "R03.2", "html"))
    ctx.guard("R03.2", "eat-stash", lambda: tr.eat_drains_queue(ctx, "R03.2", "html"))
    ctx.guard("R03.3", "ignore_lf", lambda: tr.ignore_lf_rule(ctx, "R03.3", "html"))
    ctx.guard("R03.3", "ignore_lf-consumed", lambda: tr.ignore_lf_consumed_when_seen(ctx, "R03.3", "html"))
    ctx.guard("R03.4", "bom", lambda: tr.bom_rule(ctx, "R03.4", "html"))
    ctx.guard("R03.5", "script-pause", lambda: r03_5(ctx))

    def nf():
        T = ctx.tables("html")
        R = ctx.ref("html_tokenizer.json")
        tok_common.compare_section(ctx, "R03.6", "html", "helpers", T, R, "fn")
        tok_common.compare_section(ctx, "R03.6", "html", "charref", T, R, "fn")

    ctx.guard("R03.6", "normal-forms", nf)
    ctx.guard("R03.6", "nf-simd", lambda: nf_common.nf_rule(ctx, "R03.6", "html_tokenizer_simd", floor=3))
    ctx.guard("R03.3", "wrapper-gate", lambda: tr.wrapper_fast_path_gate(ctx, "R03.3", "html"))
    ctx.guard("R03.3", "raw-path-gate", lambda: ctx.floor("R03.3", "raw-path-sites", tr.raw_path_gate(ctx, "R03.3", "html"), 1))
    from .C09 import r09_6
    ctx.rule("R03.8", "the SIMD scan's newline tally covers exactly the bytes consumed (shared with R09.6): line numbers do not depend on chunk alignment")
    def simd():
        import rules.C09 as c9
        # same analysis, reported under this property's rule id
        obs_before = len(ctx.obs)
        c9.r09_6(ctx)
        for o in ctx.obs[obs_before:]:
            if o["rule"] == "R09.6":
                o["rule"] = "R03.8"
        for k in [k for k in ctx.floors if k.startswith("R09.6.")]:
            ctx.floors["R03.8." + k[len("R09.6."):]] = ctx.floors.pop(k)
    ctx.guard("R03.8", "simd", simd)
    ctx.analysed.update(states=73)
