"""C18 — trace_handles reports every node the tree builder still needs (DESIGN 4.C18)."""
import re

from lib.mir import AnchorMissing
from . import nf_common, nfq

MANIFEST = {
    "text": "Field enumeration from the type-checked program: every field of TreeBuilder / XmlTreeBuilder (and of every type reachable from Parser / XmlParser) whose type mentions the Handle parameter is read in trace_handles and reaches Tracer::trace_handle unconditionally for every Handle position (both variants of FormatEntry, Some of each Option, every element of each Vec); no other reachable type stores a Handle; nodes created during a step are inserted, pushed on a traced stack or handed to the caller before process_token returns.",
    "note": "Decides R18.1-R18.3 for the struct definitions and trace functions as they are. Trusted: rustc's type information; 'connected in the DOM' is the sink's notion.",
    "technique": "ADT field enumeration by type over MIR facts + unconditional-reach rule on the trace functions' normal forms",
}
LEVEL = "other"
EXPLANATION = """
R18.1 every Handle-bearing field of both tree builders is traced (HTML 6 fields, XML 3), on every path, without a
guard other than the Option/enum shape of the field itself; R18.2 Tokenizer, XmlTokenizer, BufferQueue,
CharRefTokenizer and the drivers hold no Handle; no static mentions a Handle type; R18.3 a Handle obtained from
create_element* in a step function is inserted / pushed / returned on every path (typestate over normal forms).
"""
ASSUMPTIONS = ["the sink keeps alive whatever is connected to a traced node"]


def handle_fields(ctx, crate, adt_suffix):
    mir = ctx.mir
    cands = [a for k, a in mir.adts.items() if a["crate"] == crate and a["path"].endswith(adt_suffix)]
    if len(cands) != 1:
        raise AnchorMissing("ADT %s::%s matches %d" % (crate, adt_suffix, len(cands)))
    a = cands[0]
    out = []
    for v in a["variants"]:
        for name, ty, vis in v["fields"]:
            if re.search(r"\bHandle\b", ty):
                out.append((name, ty))
    return a, out


def r18_1(ctx):
    for crate, adt, area, fnkey, floor in (("html5ever", "TreeBuilder", "html_tree_builder", "TreeBuilder<Handle,Sink>::trace_handles", 6),
                                           ("xml5ever", "XmlTreeBuilder", "xml_tree_builder", "XmlTreeBuilder<Handle,Sink>::trace_handles", 3)):
        a, fields = handle_fields(ctx, crate, "tree_builder::" + adt)
        ctx.floor("R18.1", "handle-fields/" + crate, len(fields), floor)
        key, pcs = nfq.cells(ctx, area, fnkey)
        pcs = nfq.feasible(pcs)
        for name, ty in fields:
            # the field must reach trace_handle on every path where the field's own shape admits a handle
            missing = None
            extra_guard = None
            for pc in pcs:
                traced = [str(args[0]) for a2, args in pc["actions"] if a2.endswith("trace_handle") and args]
                hit = [t for t in traced if re.search(r"\bself\.%s\b" % re.escape(name), t) or (("item" in t) and any(("self.%s" % name) in a3 for a3, _ in pc["actions"] if a3.startswith("loop-begin")))]
                shape_guards = {g: v for g, v in pc["guards"].items() if ("self.%s" % name) in g}
                # loops: iteration over the field
                loops = [a3 for a3, _ in pc["actions"] if a3.startswith("loop-begin") and ("self.%s" % name) in a3]
                admits = True
                for g, v in shape_guards.items():
                    if ("matches Some" in g or "is_some" in g) and not v:
                        admits = False
                if not admits:
                    continue
                if ty.startswith("std::cell::RefCell<std::vec::Vec") or "Vec<" in ty:
                    if not loops:
                        missing = "no loop over self.%s" % name
                    continue
                if not any(re.search(r"\bself\.%s\b" % re.escape(name), t) for t in traced) and not hit:
                    missing = "path %s does not trace self.%s" % ({g: v for g, v in list(pc["guards"].items())[:4]}, name)
            # the only guards that mention other state must not decide whether this field is traced
            for pc in pcs:
                for g in pc["guards"]:
                    pass
            ctx.ob("R18.1", "field-traced/%s::%s.%s" % (crate, adt, name), missing is None,
                   "field %s: %s holds a Handle but %s" % (name, ty, missing) if missing else "reaches Tracer::trace_handle whenever it holds a handle", "%s tree_builder %s" % (crate, adt))
        # per-element coverage inside the loops and no foreign guard
        allowed = {"self." + n for n, _ in fields}
        foreign = set()
        for pc in pcs:
            for g in pc["guards"]:
                roots = set(re.findall(r"self\.[a-z_]+", g))
                if roots - allowed:
                    foreign |= roots - allowed
        ctx.ob("R18.1", "no-foreign-guard/%s" % crate, not foreign,
               "whether a handle is traced depends on %s: a handle that is only dormant (used again later) would be dropped by a collecting sink" % sorted(foreign) if foreign
               else "tracing depends only on the shape of the traced fields themselves")
        # FormatEntry: the Element variant's handle is traced; Marker has none
        if crate == "html5ever":
            ok = any(any(v and "matches Element(_,_)" in g for g, v in pc["guards"].items()) and any(a2.endswith("trace_handle") and "item.0" in str(args) for a2, args in pc["actions"]) for pc in pcs)
            ctx.ob("R18.1", "format-entry-element-traced", ok, "FormatEntry::Element(handle, _) of every active-formatting entry is traced")
        # whole-stack coverage: the loop over open_elems traces the loop item, not a single element
        whole_loop = re.compile(r"loop-begin for _ in self\.open_elems(\.iter\(\))?(\.rev\(\)|\.chain\(.*\)|\.cloned\(\)|\.copied\(\))*$")
        ok = all(any(whole_loop.match(a2) for a2, _ in pc["actions"]) for pc in pcs) and not any(
            re.search(r"self\.open_elems\.(last|first|split_last|split_first|get|skip|take)\(", " ".join(nfq.texts(pc))) for pc in pcs)
        ctx.ob("R18.1", "whole-open-element-stack-traced/%s" % crate, ok, "every element of open_elems is traced (a loop over the whole stack)")


def r18_2(ctx):
    mir = ctx.mir
    n = 0
    for crate, names in (("html5ever", ("tokenizer::Tokenizer", "tokenizer::char_ref::CharRefTokenizer", "driver::Parser")),
                         ("xml5ever", ("tokenizer::XmlTokenizer", "tokenizer::char_ref::CharRefTokenizer", "driver::XmlParser")),
                         ("markup5ever", ("util::buffer_queue::BufferQueue",))):
        for nm in names:
            cands = [a for k, a in mir.adts.items() if a["crate"] == crate and a["path"].endswith(nm)]
            if len(cands) != 1:
                raise AnchorMissing("ADT %s::%s" % (crate, nm))
            n += 1
            bad = [(f[0], f[1]) for v in cands[0]["variants"] for f in v["fields"] if re.search(r"\bHandle\b", f[1]) and "Sink" not in f[0] and not re.search(r"Tokenizer<|TreeBuilder<", f[1])]
            ctx.ob("R18.2", "no-handle-outside-tree-builder/%s::%s" % (crate, nm), not bad, "holds no Handle" if not bad else "stores a Handle in %s, which trace_handles cannot see" % bad)
    for s in mir.statics:
        if re.search(r"\bHandle\b", s["ty"]):
            ctx.ob("R18.2", "static-with-handle/" + s["path"], False, "a static mentions a Handle type")
    ctx.floor("R18.2", "types-scanned", n, 7)


CREATE = ("create_element", "create_element_with_flags", "self.sink.create_comment", "self.sink.create_pi")


def r18_3(ctx):
    """a handle created in a function is inserted, stored in a traced place, or returned on every path"""
    from lib import machine as mc

    n = 0
    for area, crate in (("html_tree_builder", "html5ever"), ("xml_tree_builder", "xml5ever")):
        cur = nf_common.area_current(ctx, area)
        for key, v in sorted(cur.items()):
            if v["kind"] != "paths":
                continue
            pcs = mc.from_json({key: v["cells"]})[key]
            fname = key.rsplit("::", 1)[-1]
            bad = None
            cnt = 0
            for pc in nfq.feasible(pcs):
                acts = pc["actions"]
                for i, (a, args) in enumerate(acts):
                    if not (a in ("call create_element", "call create_element_with_flags", "self.sink.create_comment", "self.sink.create_pi")):
                        continue
                    cnt += 1
                    val = "%s(%s)" % (a.replace("call ", ""), ",".join(str(x) for x in args))
                    rest = " ".join("%s(%s)" % (b, ",".join(str(x) for x in bargs)) for b, bargs in acts[i + 1:]) + " " + str(pc["ret"])
                    if val not in rest and "panic!" not in rest:
                        bad = val[:80]
            if cnt:
                n += 1
                ctx.ob("R18.3", "created-node-not-dropped/%s::%s" % (crate, fname), bad is None,
                       "a node created by %s is neither inserted, stored nor returned on some path" % bad if bad else "every created node is inserted, stored or returned on the same path")
    ctx.floor("R18.3", "creating-functions", n, 10)


def run(ctx):
    ctx.rule("R18.1", "every field of the tree builders whose type mentions Handle reaches Tracer::trace_handle on every path, for every Handle position, under no foreign guard")
    ctx.rule("R18.2", "no other type reachable from the parsers (tokenizers, char-ref tokenizers, BufferQueue, drivers) stores a Handle; no static does")
    ctx.rule("R18.3", "a node created inside a tree-builder function is inserted, stored or returned on every path of that function")
    ctx.rule("R18.4", "normal forms of both trace_handles functions equal the reviewed reference")
    ctx.guard("R18.1", "fields", lambda: r18_1(ctx))
    ctx.guard("R18.2", "others", lambda: r18_2(ctx))
    ctx.guard("R18.3", "created", lambda: r18_3(ctx))
    ctx.guard("R18.4", "nf-html", lambda: nf_common.nf_rule(ctx, "R18.4", "html_tree_builder", only=("::trace_handles",)))
    ctx.guard("R18.4", "nf-xml", lambda: nf_common.nf_rule(ctx, "R18.4", "xml_tree_builder", only=("::trace_handles",)))
