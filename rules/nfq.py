"""Queries over generic normal forms (lib/nf.py) used by the property-specific rules."""
from lib import machine as mc
from lib.mir import AnchorMissing
from . import nf_common


def cells(ctx, area, key_sub, exact=False):
    """projected cells of the single function of `area` whose key contains key_sub"""
    cur = nf_common.area_current(ctx, area)
    ks = [k for k in cur if (k == key_sub if exact else k.endswith(key_sub))]
    if len(ks) != 1:
        ks2 = [k for k in cur if key_sub in k]
        if len(ks2) == 1:
            ks = ks2
    if len(ks) != 1:
        raise AnchorMissing("%s: function '%s' matches %d functions (%s)" % (area, key_sub, len(ks), ks[:4]))
    v = cur[ks[0]]
    if v["kind"] != "paths":
        raise AnchorMissing("%s: %s has no path normal form (%s)" % (area, ks[0], v.get("why")))
    return ks[0], mc.from_json({ks[0]: v["cells"]})[ks[0]]


def names(pc):
    return [a for a, _ in pc["actions"]]


def texts(pc):
    """every action rendered as text"""
    return ["%s(%s)" % (a, ",".join(str(x) for x in args)) for a, args in pc["actions"]]


def feasible(pcs):
    """paths whose guard valuation can hold (no contradictory pattern tests; `empty_set(x)`, the base of the tag-set algebra, is
    never true)"""
    return [c for c in pcs if not mc._guard_conflict(c["guards"], c["guards"]) and not any(v and g.startswith("empty_set(") for g, v in c["guards"].items())]
