"""C01 — HTML tokenization equals the WHATWG tokenization algorithm (DESIGN 4.C01)."""
from lib import machine as mc
from lib import speccmp
from . import tok_common, nf_common

MANIFEST = {
    "text": "Translation validation: the tokenizer's transition function (73 concrete states x exact character partition x guard valuations), its helper methods and the character-reference sub-tokenizer are extracted from the source and compared pointwise with a reference reviewed against the WHATWG tokenization section. Right level because the property is 'equals a table-driven algorithm': agreement of tables is decidable from the code, behaviour on strings is not sampled at all. Independently (R01.5) the extracted machine is checked bisimilar - big-step over reconsume chains, effects per channel, successor states related, the code's skipped states added to the relation - to a transcription of the WHATWG state machine written as data from the standard (ref/whatwg_tokenizer.py).",
    "note": "Decides: code tables == reviewed tables (R01.1-R01.4) and code machine ~ transcribed WHATWG machine (R01.5, 18 379 big steps). Trusted: my memory of the standard behind both the review and the transcription (no offline copy), rustc macro expansion, syn, BufferQueue/StrTendril/LocalName primitives, the sink. Not decided: tree construction, primitives' arithmetic, parse errors (outside C01). Round 6: finish_attribute empties both attribute buffers on every path (R01.7). Round 8: the character reference states against a transcription of the standard (R01.8 = R14.12), SIMD stop set (R01.9 = R08.2), input stream preprocessing as a transcription (R01.10 = R03.16), no attribute value without a name (R01.11), end() runs the machine before eof_step (R01.6). R01.12: emit the current tag token / appropriate end tag token as a transcription.",
    "technique": "decision-tree flattening of the macro-expanded source; pointwise comparison with a reviewed reference table; bisimulation with an independent transcription of the standard's state machine",
}
LEVEL = "translation_validation"
EXPLANATION = """
Translation validation of html5ever's tokenizer against a reviewed reference: the transition function of
Tokenizer::step and eof_step is extracted from the macro-expanded source by decision-tree flattening (all 73
concrete states x an exact partition of char x all guard valuations) and compared pointwise with
ref/html_tokenizer.json, which was reviewed state by state against the WHATWG tokenization section; every helper
method and the character-reference sub-tokenizer are compared in normal form (guards, input events -> ordered
effects, result) with the same reference.  Independently (R01.5) the extracted machine is checked bisimilar to a transcription of the standard's state machine
(ref/whatwg_tokenizer.py): per state x input class x guard valuation, reconsume chains folded, effects compared per
channel (output, temporary buffer, tag, comment, doctype), successor states related; where the code skips a state of
the standard the successor pair is added to the relation and checked.  Decides that the code's tables equal the reviewed tables and the transcription; does not decide
that the review equals the standard, nor the behaviour of StrTendril / BufferQueue / the sink.
"""
ASSUMPTIONS = [
    "ref/html_tokenizer.json equals the WHATWG tokenizer up to the behaviour-preserving deviations listed in its review_notes",
    "rustc's macro expansion (-Zunpretty=expanded) and syn's parser",
    "BufferQueue / StrTendril primitives behave as documented (C11, C13)",
]
_cmp = {"n": 0, "programs": 0}


def run(ctx):
    ctx.rule("R01.7", "finish_attribute leaves the attribute name and value buffers empty, also when the attribute is dropped as a duplicate")
    from . import tokrules as _tr7
    ctx.guard("R01.7", "attr-buffers", lambda: _tr7.attr_buffers_emptied(ctx, "R01.7", "html"))
    ctx.rule("R01.1", "flattened transition function of step/eof_step equals the reviewed reference, per (state, character class, guard valuation)")
    ctx.rule("R01.2", "every concrete state has its own row in step and eof_step; a path that starts a character reference returns to the driver")
    ctx.rule("R01.3", "helper methods of Tokenizer in normal form equal the reviewed reference")
    ctx.rule("R01.4", "CharRefTokenizer methods in normal form equal the reviewed reference")
    ctx.rule("R01.5", "the extracted machine is bisimilar (big-step: reconsume chains folded; effects per channel; parse errors excluded) to the independent transcription of the WHATWG tokenizer in ref/whatwg_tokenizer.py")
    T = ctx.guard("R01.1", "tables", lambda: ctx.tables("html"))
    if T is None:
        return
    R = ctx.ref("html_tokenizer.json")
    n = 0
    n += tok_common.compare_section(ctx, "R01.1", "html", "step", T, R, "state")
    n += tok_common.compare_section(ctx, "R01.1", "html", "eof_step", T, R, "state")
    # R01.2 coverage
    missing = [s for s in T["states"] if not T["step"].get(s)] + [s for s in T["states"] if not T["eof_step"].get(s)]
    for s in T["states"]:
        ctx.ob("R01.2", "state-covered/" + s, bool(T["step"].get(s)) and bool(T["eof_step"].get(s)), "state has rows in step and eof_step")
    ctx.floor("R01.2", "states", len(T["states"]), 73)
    for s in R["states"]:
        if s not in T["states"]:
            ctx.ob("R01.2", "state-removed/" + s, False, "concrete state of the reference no longer exists in states.rs")
    for st, cells in T["raw"]["step"].items():
        for c in cells or []:
            if any(a == "start_consuming_character_reference" for a, _ in c["actions"]) and c["outcome"] != "return":
                ctx.ob("R01.2", "charref-start-must-return/" + st, False, "a path starts the char-ref sub-tokenizer and loops inside step instead of returning Continue")
    n += tok_common.compare_section(ctx, "R01.3", "html", "helpers", T, R, "fn")
    n += tok_common.compare_section(ctx, "R01.4", "html", "charref", T, R, "fn")
    ctx.guard("R01.3", "nf-misc", lambda: nf_common.nf_rule(ctx, "R01.3", "html_tokenizer_misc", floor=8))
    tok_common.not_tabulated(ctx, "R01.3", T, R)
    ctx.floor("R01.3", "helpers", len(T["helpers"]), 30)
    ctx.floor("R01.4", "charref-fns", len(T["charref"]), 15)
    ctx.floor("R01.1", "cells", sum(len(v or []) for v in T["step"].values()), 3000)
    # R01.5: second, independent oracle -- the standard's state machine transcribed as data, compared by bisimulation
    def spec_cmp():
        J = {"step": mc.to_json(T["step"]), "eof_step": mc.to_json(T["eof_step"]), "helpers": mc.to_json(T["helpers"])}
        notes = set()
        k = speccmp.compare(J, lambda key, d: ctx.ob("R01.5", key, True, d),
                            lambda key, kind, d: ctx.ob("R01.5", key + "/" + kind, False, d, "html tokenizer vs WHATWG transcription"), notes)
        _cmp["error_notes"] = sorted(notes)
        return k
    k = ctx.guard("R01.5", "spec-bisimulation", spec_cmp)
    ctx.floor("R01.5", "big-steps-compared", k or 0, 15000)
    n += k or 0
    # R01.6: facts shared with C03 / C14 (each is a necessary condition of "the tokens are those the standard defines")
    from . import tokrules as tr
    from .C14 import r14_4b, semicolon_rule, in_attribute_flag_rule, charref_start_states_rule
    ctx.rule("R01.6", "shared facts: CR-LF flag consumed on every path that saw it; temporary buffer empty where look-ahead starts; numeric overflow flag sticky; ';' decides before the legacy attribute exception; in-attribute flag over all attribute value states")
    ctx.guard("R01.6", "ignore_lf", lambda: tr.ignore_lf_consumed_when_seen(ctx, "R01.6", "html"))
    ctx.guard("R01.6", "temp_buf", lambda: tr.temp_buf_dataflow(ctx, "R01.6", "html"))
    ctx.guard("R01.6", "overflow", lambda: r14_4b(ctx, "html", "R01.6"))
    ctx.guard("R01.6", "semicolon", lambda: semicolon_rule(ctx, "R01.6"))
    ctx.guard("R01.6", "in-attribute", lambda: in_attribute_flag_rule(ctx, "R01.6"))
    ctx.guard("R01.6", "end-runs/html", lambda: tr.end_runs_before_eof(ctx, "R01.6", "html"))
    ctx.guard("R01.6", "charref-start-states", lambda: charref_start_states_rule(ctx, "R01.6"))
    ctx.rule("R01.12", "'emit the current tag token' (attribute finished first; last start tag name for start tags only; token fields; the sink's answer selects PLAINTEXT / a raw state / data + pause) and 'appropriate end tag token' equal their transcription")
    ctx.guard("R01.12", "emit-tag", lambda: tr.emit_tag_transcription(ctx, "R01.12"))
    ctx.rule("R01.11", "no attribute value without a name (html5ever): value states are entered from attribute states only, or finish_attribute empties the value buffer for an empty name")
    ctx.guard("R01.11", "value-without-name", lambda: tr.no_value_without_name(ctx, "R01.11", "html"))
    ctx.rule("R01.10", "= R03.16: input stream preprocessing equals its transcription (CR / CR LF normalisation precedes tokenization)")
    ctx.guard("R01.10", "preprocessing", lambda: tr.preprocess_transcription(ctx, "R01.10", "html"))
    ctx.rule("R01.9", "= R08.2: the SIMD scan of the data state, its scalar tail and the small-char set stop at the same characters (a NUL inside a full 16-byte block is a token of its own)")
    from .C08 import r08_2
    ctx.guard("R01.9", "simd-stop-set", lambda: ctx.under("R01.9", lambda: r08_2(ctx)))
    ctx.rule("R01.8", "= R14.12 for the HTML tokenizer: the character reference states as transcribed from the standard")
    from . import charrefspec as _crs
    ctx.guard("R01.8", "charref-machine", lambda: _crs.charref_machine(ctx, "R01.8", "html"))
    _cmp["n"] = n
    _cmp["programs"] = 2 * len(T["states"]) + len(T["helpers"]) + len(T["charref"])
    ctx.analysed.update(functions=_cmp["programs"], states=len(T["states"]), char_classes=len(T["classes"]))


def coverage_extra(ctx):
    return {"programs": _cmp["programs"], "disagreements_checked": _cmp["n"],
            "parse_error_differences_not_armed": len(_cmp.get("error_notes", []))}
