"""C13 — BufferQueue behaves as one flat character stream (DESIGN 4.C13)."""
import re

from lib.mir import AnchorMissing
from . import nf_common, nfq
from .guardlib import gval, comparisons, lt_true, ge_true

MANIFEST = {
    "text": "Invariant and commit-discipline rules on BufferQueue: no empty buffer is ever stored (every push is on the false edge of a len32()==0 test; every in-place shrink of the front buffer is followed by an emptiness test that pops it), eat() mutates nothing before the whole pattern matched, pop_except_from touches only the front buffer; SmallCharSet::contains tests exactly bit n for n<64. Plus equality of every function of buffer_queue.rs and smallcharset.rs with its reviewed normal form. eat() answers 'need more' only for an empty queue or where the buffered text ran out after matching so far (R13.2).",
    "note": 'Decides R13.1-R13.4. Not decided: index arithmetic inside eat() and nonmember_prefix_len beyond equality with the reviewed normal forms. Round 6: push_front/push_back add exactly one buffer, eat() commits from the front (R13.6). Round 7: FromSet only for an empty non-member prefix (R13.7). Round 8: R13.8 eat()\'s scan and commit as a transcription over a precise normal form (the index arithmetic is now decided), run taken = run removed, whole-queue operations.',
    "technique": 'pairing / who-may-mutate rules over function normal forms + reviewed normal-form comparison',
}
LEVEL = "other"
EXPLANATION = """
R13.1 pushes guarded by the emptiness test, shrinks followed by an emptiness test; R13.2 eat(): all mutation of the
deque happens after the scan decided 'matched'; R13.3 pop_except_from/peek/next use only the front buffer,
push_front inserts at the front; R13.4 reviewed normal forms of markup5ever::util (24 functions).
R13.2 also: eat() answers None only for an empty queue or where the text ran out inside the comparison loop.
"""
ASSUMPTIONS = ["VecDeque and StrTendril::{pop_front_char, pop_front, chars} behave as documented (C11)"]
AREA = "markup5ever_util"
BQ = "util::buffer_queue::BufferQueue::"


def r13_1(ctx):
    n = 0
    for fn in ("push_front", "push_back"):
        key, pcs = nfq.cells(ctx, AREA, BQ + fn)
        for pc in nfq.feasible(pcs):
            names = nfq.names(pc)
            if "self.buffers." + fn in names:
                n += 1
                ok = gval(pc["guards"], "(p1.len32() == 0)") is False
                ctx.ob("R13.1", "push-only-non-empty/" + fn, ok, "the buffer is stored only on the false edge of len32() == 0" if ok else "a buffer can be stored without the emptiness test: an empty buffer in the queue breaks peek()/next()")
    ctx.floor("R13.1", "push-sites", n, 2)
    for fn in ("next", "pop_except_from"):
        key, pcs = nfq.cells(ctx, AREA, BQ + fn)
        bad = None
        k = 0
        for pc in nfq.feasible(pcs):
            t = nfq.texts(pc)
            shr = [i for i, x in enumerate(t) if re.search(r"\.(pop_front_char|pop_front|unsafe_pop_front)\(", x) and "buffers.pop_front" not in x]
            if not shr:
                continue
            k += 1
            tests = any(("is_empty()" in g or "len32() == 0" in g or "now_empty" in g) for g in pc["guards"]) or any("is_empty()" in x for x in t)
            pops = any(x.startswith("self.buffers.pop_front(") for x in t)
            empties = [v for g, v in pc["guards"].items() if "is_empty()" in g]
            if not tests:
                bad = "shrinks the front buffer without testing whether it became empty"
            if any(empties) and not pops:
                bad = "the front buffer became empty and is left in the queue"
        ctx.ob("R13.1", "shrink-then-drop-empty/" + fn, bad is None and k > 0, bad or "%d shrinking paths test emptiness and pop the emptied buffer" % k)


def r13_2(ctx):
    key, pcs = nfq.cells(ctx, AREA, BQ + "eat")
    n = 0
    bad = None
    for pc in nfq.feasible(pcs):
        t = nfq.texts(pc)
        muts = [x for x in t if re.search(r"self\.buffers\.(pop_front|push_front|push_back|front_mut|clear|drain)|\.pop_front\(", x)]
        ret = str(pc["ret"])
        n += 1
        if ret in ("None", "Some(false)") and muts:
            bad = "eat() returns %s after %s" % (ret, muts[0])
    ctx.floor("R13.2", "eat-paths", n, 3)
    # "need more input" is answered only with an empty queue or at the byte where the buffered text ran out - after every earlier
    # byte matched; never from a length pre-check (a shorter text that already mismatches must answer Some(false))
    early = None
    for pc in nfq.feasible(pcs):
        if str(pc["ret"]) != "None":
            continue
        names = nfq.names(pc)
        empty_queue = any(("front()" in k and "matches Some(_)" in k and v is False) for k, v in pc["guards"].items())
        in_loop = any(a.startswith("loop-begin") and "p1.bytes()" in a for a in names)
        if not empty_queue and not in_loop:
            early = "eat() answers None on a path that has not compared any byte (%s)" % [k for k, v in pc["guards"].items()][:2]
    ctx.ob("R13.2", "eat-need-more-only-where-text-ran-out", early is None, early or "None only for an empty queue or inside the comparison loop when the buffers are exhausted")
    ctx.ob("R13.2", "eat-is-scan-then-commit", bad is None, bad or "every path that answers None / Some(false) leaves the queue untouched; mutation happens only on the matched path")


def r13_7(ctx):
    """pop_except_from: FromSet(c) is answered only when the front buffer starts with a set member (the non-member prefix is
    EMPTY); any non-empty prefix - a single character included - is answered as the run NotFromSet(prefix), the whole prefix and
    nothing more"""
    key, pcs = nfq.cells(ctx, AREA, BQ + "pop_except_from")
    bad = None
    seen = set()
    for pc in nfq.feasible(pcs):
        ret = str(pc["ret"])
        pre = [(l, r, v) for l, op, r, v, g in comparisons(pc["guards"]) if op == "<" and "nonmember_prefix_len(" in r and re.fullmatch(r"\d+", l)]
        eq0 = [v for k, v in pc["guards"].items() if re.search(r"nonmember_prefix_len\(.*\) matches 0(#\d+)?$", k)]
        if "FromSet(" not in ret:
            continue
        run = "NotFromSet(" in ret
        if not pre and not eq0:
            bad = "a %s answer is given without the length of the non-member prefix having been tested" % ("run" if run else "FromSet")
            continue
        nonempty = (pre and pre[-1][2] and int(pre[-1][0]) >= 0) or (eq0 and eq0[-1] is False)
        bound = int(pre[-1][0]) if pre else 0
        if bound != 0:
            bad = "the run branch is taken only for a prefix longer than %d: a prefix of %d non-member character(s) is answered as FromSet(c) with a c that is NOT in the set (the tokenizer then treats an ordinary character as one of its special ones)" % (bound, bound)
        if run:
            seen.add("run")
            if not nonempty:
                bad = "a run is answered for an empty prefix"
            if not re.search(r"unsafe_subtendril\(0,p1\.nonmember_prefix_len\(", ret) and not any(a.endswith("unsafe_subtendril") and tuple(str(x) for x in args)[0] == "0" for a, args in pc["actions"]):
                bad = "the run is not the prefix [0, nonmember_prefix_len) of the front buffer"
        else:
            seen.add("member")
            if nonempty:
                bad = "FromSet is answered although the non-member prefix is not empty"
    ctx.ob("R13.7", "pop_except_from-run-iff-prefix-non-empty", bad is None and seen == {"run", "member"}, bad or "prefix empty -> FromSet(first char); otherwise NotFromSet(whole prefix)", "markup5ever BufferQueue::pop_except_from")


def r13_6(ctx):
    """push_front / push_back put the whole text in as ONE new buffer at that end and touch nothing else (no merging into a
    neighbour - a merge into the first buffer puts the text behind that buffer's unread characters); eat()'s commit removes the
    exhausted buffers from the FRONT, one per counted buffer, then cuts the matched part off the new front"""
    for fn, op in (("push_front", "self.buffers.push_front"), ("push_back", "self.buffers.push_back")):
        key, pcs = nfq.cells(ctx, AREA, BQ + fn)
        bad = None
        n = 0
        for pc in nfq.feasible(pcs):
            acts = [(a, tuple(str(x) for x in args)) for a, args in pc["actions"]]
            empty = any(v for k, v in pc["guards"].items() if re.fullmatch(r"p1\.(len32|len)\(\) matches 0|p1\.is_empty\(\)|\(p1\.(len32|len)\(\) == 0\)", k))
            if empty:
                if acts:
                    bad = "an empty buffer leads to %s" % [a for a, _ in acts][:2]
                continue
            n += 1
            if acts != [(op, ("p1",))]:
                bad = "%s does %s instead of adding the text as one buffer at that end: text merged into an existing buffer lands behind (or before) characters it must not pass" % (fn, [a for a, _ in acts][:3])
        ctx.ob("R13.6", "push-adds-one-buffer/" + fn, bad is None and n >= 1, bad or "non-empty text -> exactly %s(buf)" % op, "markup5ever BufferQueue::" + fn)
    key, pcs = nfq.cells(ctx, AREA, BQ + "eat")
    bad = None
    n = 0
    for pc in nfq.feasible(pcs):
        if str(pc["ret"]) != "Some(true)":
            continue
        n += 1
        acts = [(a, tuple(str(x) for x in args)) for a, args in pc["actions"]]
        rem = [(a, args) for a, args in acts if re.fullmatch(r"self\.buffers\.(remove|swap_remove_front|swap_remove_back|pop_back|truncate|split_off|retain|clear)", a)]
        if rem and not all(a == "self.buffers.remove" and args == ("0",) for a, args in rem):
            bad = "the commit removes buffers with %s%s: exhausted buffers are the ones at the FRONT of the queue, one per counted buffer" % (rem[0][0], rem[0][1])
        names = [a for a, _ in acts]
        drops = [i for i, a in enumerate(names) if a in ("self.buffers.pop_front", "self.buffers.drain") or (a == "self.buffers.remove")]
        if drops:
            # the removal sits in a loop counted by the number of exhausted buffers (or is one drain of that many)
            begins = [a for a in names[:drops[0]] if a.startswith("loop-begin for _ in 0..")]
            if names[drops[0]] != "self.buffers.drain" and not begins:
                bad = bad or "buffers are removed outside a loop counted by the number of exhausted buffers"
    ctx.ob("R13.6", "eat-commit-drops-front-buffers", bad is None and n >= 1, bad or "%d matching paths: pop_front per exhausted buffer, then the matched bytes cut off the front" % n, "markup5ever BufferQueue::eat")


def r13_3(ctx):
    for fn in ("peek", "next", "pop_except_from"):
        key, pcs = nfq.cells(ctx, AREA, BQ + fn)
        blob = " ".join(" ".join(nfq.texts(pc)) + " " + str(pc["ret"]) + " ".join(pc["guards"]) for pc in pcs)
        ok = ("front()" in blob or "front_mut()" in blob) and "back()" not in blob and "back_mut()" not in blob and "get(" not in blob.replace(".get()", "")
        ctx.ob("R13.3", "front-only/" + fn, ok, "reads/consumes only the front buffer")
    key, pcs = nfq.cells(ctx, AREA, BQ + "peek")
    blob = " ".join(str(pc["ret"]) + " ".join(nfq.texts(pc)) for pc in pcs)
    ctx.ob("R13.3", "peek-decodes-a-char", "chars().next()" in blob and "as_bytes" not in blob, "peek() returns the first *character* of the front buffer (chars().next())")
    key, pcs = nfq.cells(ctx, AREA, "util::smallcharset::SmallCharSet::contains")
    blob = " ".join(str(pc["ret"]) + " ".join(pc["guards"]) for pc in pcs)
    ok = "(1 << (p1 as usize))" in blob and not re.search(r"< 6[0-35-9]\b", blob)
    ctx.ob("R13.3", "smallcharset-contains-tests-bit-n", ok, "contains(n) tests bit n of the 64-bit set")
    prefix_scan_rule(ctx, "R13.3")


def prefix_scan_rule(ctx, rule):
    """SmallCharSet::nonmember_prefix_len looks at every byte of the text in order: a byte below 64 is asked of the set, a byte
    >= 64 counts as a non-member and the scan simply goes on to the next byte (no byte is skipped unexamined)"""
    key, pcs = nfq.cells(ctx, AREA, "util::smallcharset::SmallCharSet::nonmember_prefix_len")
    fe = nfq.feasible(pcs)
    asks = [pc for pc in fe if any("contains(" in g for g in pc["guards"])]
    high = [pc for pc in fe if gval(pc["guards"], "(item < 64)") is False]
    ok = bool(asks) and all(gval(pc["guards"], "(item < 64)") is True for pc in asks) and bool(high) and all(any(x.startswith("loop-end(end") for x in nfq.texts(pc)) for pc in high)
    # ... and it is a plain loop over the bytes of the text: the scan position advances by exactly one per iteration
    loops = [x for pc in fe for x in nfq.texts(pc) if x.startswith("loop-begin")]
    plain = bool(loops) and all(re.fullmatch(r"loop-begin for _ in p1\.(bytes\(\)|as_bytes\(\)(\.iter\(\))?)(\.(copied|cloned)\(\))?\(\)", x) for x in loops)
    ctx.ob(rule, "prefix-scan-bounds-at-64", ok and plain, "every byte is examined in order; contains() is asked only below 64, a byte >= 64 counts as a non-member and the scan goes on" if ok and plain else
           "nonmember_prefix_len does not examine every byte (loop %s) or asks contains() for a byte >= 64: a member of the set can be skipped over and becomes part of a text run (e.g. the closing quote of an attribute value after certain characters)" % loops[:1])




def run(ctx):
    ctx.rule("R13.8", "eat()'s scan and commit equal their transcription (two counters, buffers[B].as_bytes()[K], advance, need-more, commit); a run is taken and removed with one length; pop_front / swap_with / replace_with act on the whole queue's front / content")
    ctx.guard("R13.8", "eat-transcription", lambda: r13_8(ctx))
    ctx.rule("R13.5", "the boundary validators BufferQueue::eat relies on when it pops the matched prefix (UTF8::validate_prefix / validate_suffix) test the code point at the boundary (shared with R11.8)")
    from .C11 import utf8_boundary_validators
    ctx.guard("R13.5", "boundary", lambda: utf8_boundary_validators(ctx, "R13.5"))
    ctx.rule("R13.7", "pop_except_from answers FromSet only for an empty non-member prefix, otherwise the whole prefix as a run")
    ctx.guard("R13.7", "run-iff-non-empty", lambda: r13_7(ctx))
    ctx.rule("R13.6", "push_front / push_back add exactly one buffer at their end; eat() commits by dropping exhausted buffers from the front")
    ctx.guard("R13.6", "push-and-commit", lambda: r13_6(ctx))
    ctx.rule("R13.1", "no empty buffer is stored: pushes on the false edge of len32()==0; every shrink of the front buffer is followed by an emptiness test that pops it")
    ctx.rule("R13.2", "eat() mutates the queue only after the whole pattern matched")
    ctx.rule("R13.3", "peek/next/pop_except_from use the front buffer only; peek decodes a char; SmallCharSet membership is bit n, bytes >= 64 never members")
    ctx.rule("R13.4", "normal forms of markup5ever::util equal the reviewed reference")
    ctx.guard("R13.1", "nonempty", lambda: r13_1(ctx))
    ctx.guard("R13.2", "eat", lambda: r13_2(ctx))
    ctx.guard("R13.3", "front", lambda: r13_3(ctx))
    ctx.guard("R13.4", "nf", lambda: nf_common.nf_rule(ctx, "R13.4", AREA, floor=22))


def _precise_cells(ctx, names):
    """normal forms of the named functions of markup5ever::util with loop-carried locals told apart (phi1, phi2, ..) and
    index expressions kept - computed for this rule only; the shared normal forms keep the coarser rendering"""
    from lib import nf, flat, machine as mc
    crate, mods, excl = nf_common.AREAS[AREA][:3]
    flat.DISTINCT_PHI = True
    try:
        try:
            known = set(nf_common.area_ref(AREA, ctx))  # a private helper the reviewed tree did not have is written out in its callers
        except (OSError, ValueError, KeyError):
            known = None
        r = nf.area_nf(ctx.ast, crate, mods, excl, (), known, tuple(names))
    finally:
        flat.DISTINCT_PHI = False
    out = {}
    for k, v in r.items():
        if isinstance(v, dict) and v.get("kind") == "paths":
            out[k.split("::")[-1]] = mc.from_json({k: v["cells"]})[k]
    return out


def r13_8(ctx):
    """eat() as a transcription of 'compare the pattern with the concatenation, byte by byte': two counters that start at 0 - B,
    whole buffers passed, and K, bytes into buffer B; the byte compared with the pattern byte is buffers[B].as_bytes()[K]; more
    input is needed exactly when B has reached the number of buffers; after a matching byte K + 1 < len(buffers[B]) keeps
    (B, K + 1), otherwise the next buffer starts: (B + 1, 0); on a match B buffers are dropped from the front and K bytes cut
    off the new front.  Plus the other consuming operations: a run is the front buffer's first n bytes and exactly those n
    bytes are removed; pop_front pops the front; swap_with / replace_with exchange / replace the whole queue."""
    cells = _precise_cells(ctx, ("eat", "pop_except_from", "pop_front", "swap_with", "replace_with"))
    eat = cells.get("eat")
    if not eat:
        raise AnchorMissing("BufferQueue::eat has no path normal form")
    bad = None
    n = 0
    B = K = None
    for pc in eat:
        for a, args in pc["actions"]:
            if a == "call p2" and args:
                m = re.fullmatch(r"self\.buffers\[(φ\d+\(0\))\]\.as_bytes\(\)\[(φ\d+\(0\))\]", str(args[0]))
                if not m or m.group(1) == m.group(2) or str(args[1]) != "item":
                    bad = bad or "the byte compared with the pattern byte is %s, not buffers[B].as_bytes()[K] for two counters starting at 0" % str(args[0])[:80]
                else:
                    B, K = m.group(1), m.group(2)
    if B is None and bad is None:
        raise AnchorMissing("BufferQueue::eat: no comparison of a buffered byte with the pattern byte")
    if B is not None:
        more = "(%s < self.buffers.len())" % B
        room = "((%s + 1) < self.buffers[%s].len())" % (K, B)
        for pc in eat:
            g = pc["guards"]
            ret = str(pc["ret"])
            names_ = [a for a, _ in pc["actions"]]
            compared = "call p2" in names_
            if g.get("self.buffers.front() matches Some(_)") is False:
                continue
            n += 1
            if more not in g:
                bad = bad or "a path compares or answers without asking whether buffer B exists (%s)" % more
                continue
            if g[more] is False:
                if compared or ret != "None":
                    bad = bad or "with all buffers used up the answer is %s (after a comparison: %s), expected None" % (ret, compared)
                continue
            if not compared:
                bad = bad or "buffer B exists and no byte is compared"
                continue
            hit = [v for k, v in g.items() if k.startswith("p2(self.buffers[%s].as_bytes()[%s],item)" % (B, K))]
            if hit and hit[0] is False:
                if ret != "Some(false)" or any(x.endswith("pop_front") for x in names_):
                    bad = bad or "a mismatching byte answers %s" % ret
                continue
            if ret not in ("Some(true)", "!"):
                continue
            if room not in g:
                bad = bad or "after a matching byte the path does not ask whether buffer B has more bytes (%s); guards: %s" % (room, [k for k in g if "len()" in k][:2])
                continue
            want_cnt, want_cut = ("loop(%s)" % B, "(loop((%s + 1)) as u32)" % K) if g[room] else ("loop((%s + 1))" % B, "(loop(0) as u32)")
            loops = [a for a in names_ if a.startswith("loop-begin for _ in 0..")]
            if not loops or loops[-1] != "loop-begin for _ in 0..%s" % want_cnt:
                bad = bad or "with buffer B %s the commit drops %s buffers, expected 0..%s" % ("not used up" if g[room] else "used up", (loops or ["no counted loop"])[-1][len("loop-begin for _ in "):], want_cnt)
            cuts = [[str(x) for x in args] for a, args in pc["actions"] if a == "self.buffers.front_mut().0.pop_front"]
            if g.get("self.buffers.front_mut() matches Some(_)") and cuts != [[want_cut]]:
                bad = bad or "with buffer B %s the commit cuts %s off the new front, expected %s" % ("not used up" if g[room] else "used up", cuts, want_cut)
    ctx.ob("R13.8", "eat-scan-and-commit", bad is None and n >= 6, bad or "%d paths: buffers[B].as_bytes()[K] compared; (B, K) advance and commit as in the transcription" % n, "markup5ever BufferQueue::eat")
    # the run of pop_except_from: taken and removed with the same length
    bad = None
    n = 0
    for pc in cells.get("pop_except_from") or []:
        ret = str(pc["ret"])
        if "NotFromSet(" not in ret:
            continue
        n += 1
        m = re.search(r"NotFromSet\(self\.buffers\.front_mut\(\)\.0\.unsafe_subtendril\(0,(.*)\)\)\)$", ret)
        pops = [[str(x) for x in args] for a, args in pc["actions"] if a.endswith(".unsafe_pop_front") or a.endswith(".pop_front") and "front_mut().0" in a]
        if not m:
            bad = bad or "the run is %s, not the front buffer's first n bytes" % ret[:90]
        elif pops != [[m.group(1)]]:
            bad = bad or "the run has length %s and %s is removed from the front buffer" % (m.group(1)[:50], pops)
        elif "nonmember_prefix_len(self.buffers.front_mut().0)" not in m.group(1) or re.search(r"[-+] *\d", m.group(1)):
            bad = bad or "the run's length is %s, not the length of the non-member prefix" % m.group(1)[:60]
    ctx.ob("R13.8", "run-taken-is-run-removed", bad is None and n >= 1, bad or "%d run paths: subtendril(0, n) returned and exactly n bytes removed" % n, "markup5ever BufferQueue::pop_except_from")
    for fn, want in (("pop_front", "self.buffers.pop_front"), ("swap_with", "swap"), ("replace_with", "replace")):
        pcs = cells.get(fn) or []
        txt = " | ".join(" ; ".join("%s(%s)" % (a, ",".join(str(x) for x in args)) for a, args in pc["actions"]) + " -> " + str(pc["ret"]) for pc in pcs)
        if fn == "pop_front":
            ok = bool(pcs) and all(str(pc["ret"]) == "self.buffers.pop_front()" for pc in pcs)
        elif fn == "swap_with":
            ok = bool(pcs) and all(re.search(r"swap\(self\.buffers,p1\.buffers\)|swap\(p1\.buffers,self\.buffers\)|swap self\.buffers|self\.buffers\.swap\(p1\.buffers\)", txt) for pc in pcs)
        else:
            ok = bool(pcs) and bool(re.search(r"replace self\.buffers\(p1\.buffers\.take\(\)\)|replace\(self\.buffers,p1\.buffers\.take\(\)\)|assign self\.buffers\(p1\.buffers\.take\(\)\)|assign self\.buffers\(p1\.buffers\.into_inner\(\)\)", txt))
        ctx.ob("R13.8", "whole-queue-op/" + fn, ok, "%s: %s" % (fn, txt[:110]) if ok else "%s does %s" % (fn, txt[:160] or "nothing"), "markup5ever BufferQueue::" + fn)
