"""C10 — byte-stream front ends decode exactly like a whole-input lossy decode (DESIGN 4.C10)."""
import re

from lib.mir import AnchorMissing
from . import nf_common, nfq
from .guardlib import gval, comparisons, lt_true, ge_true

MANIFEST = {
    "text": "Pairing and provenance rules on Utf8LossyDecoder (and LossyDecoder's plumbing): every U+FFFD handed to the inner sink is immediately preceded by exactly one error report and vice versa; unchecked reinterpretation is applied only to the whole chunk on the decode-Ok edge or to subtendril(0, valid_prefix.len()); finish() reports a pending incomplete sequence exactly when one is stored; the position at which decoding resumes after an invalid sequence is valid_prefix + the whole invalid sequence. Plus equality of stream.rs / utf8_decode.rs / futf.rs functions and the from_utf8 drivers with their reviewed normal forms. Thorough tier, all-features pass: the encoding_rs path of LossyDecoder flushes with last = true at finish, pairs one error with each U+FFFD, reinterprets only decoder-written bytes as UTF-8, advances by bytes_read and leaves its loop only on InputEmpty or empty input (R10.6).",
    "note": 'Decides R10.1-R10.5 (and R10.6 in the thorough tier). The maximal-subpart classification is delegated to std::str::from_utf8 (error_len), which is trusted. Not decided: the offset arithmetic of try_complete_offsets beyond equality with its reviewed normal form; encoding_rs itself. Also decided: the accounting of try_complete_offsets - input advances by new minus old stored length, a malformed completion keeps exactly error_len bytes (R10.7). Round 6 (thorough tier): at end of stream only InputEmpty ends decode_to_sink’s loop (R10.6, defect F24 fixed), constructors keep the caller’s decoder (R10.9).',
    "technique": 'pairing / def-use rules over function normal forms + reviewed normal-form comparison',
}
LEVEL = "other"
EXPLANATION = """
R10.1 error/replacement pairing in process and finish (in closures too); R10.2 arguments of
reinterpret_without_validating; R10.3 finish emits error+replacement iff incomplete.is_some(), process stores an
incomplete suffix only on the Incomplete / NotEnoughInput edges; R10.4 resume offset after an invalid sequence;
R10.5 reviewed normal forms of tendril::{stream, utf8_decode, futf} and the drivers' from_utf8.
"""
ASSUMPTIONS = ["core::str::from_utf8 reports valid_up_to / error_len per the maximal-subpart rule", "encoding_rs decoders are correct"]
AREA = "tendril_decode"
DEC = "Utf8LossyDecoder<Sink,A>[TendrilSink<fmt::Bytes,A>]"


def _is_rep(x):
    """the replacement character, by name (closure text of older trees) or by value (constants are substituted)"""
    return "REPLACEMENT_CHARACTER" in x or "\ufffd" in x


def r10_1(ctx):
    n = 0
    for fn in ("process", "finish"):
        key, pcs = nfq.cells(ctx, AREA, "%s::%s" % (DEC, fn))
        bad = None
        for pc in nfq.feasible(pcs):
            t = nfq.texts(pc)
            # also the text of closures (the completion branch lives in a closure)
            for i, x in enumerate(t):
                is_rep = x.startswith("self.inner_sink.process(") and _is_rep(x)
                is_err = x.startswith("self.inner_sink.error(")
                if is_rep:
                    n += 1
                    if not (i > 0 and t[i - 1].startswith("self.inner_sink.error(")):
                        bad = "replacement without a preceding error report: " + " ; ".join(t[max(0, i - 2):i + 1])
                if is_err:
                    if not (i + 1 < len(t) and t[i + 1].startswith("self.inner_sink.process(") and _is_rep(t[i + 1])):
                        bad = "error report not followed by a replacement character: " + " ; ".join(t[i:i + 2])
            blob = " ".join(t) + " " + " ".join(pc["guards"])
            for m in re.finditer(r"\|\.\.\|\{(.*?)\}\)", blob):
                body = m.group(1)
                errs = len(re.findall(r"inner_sink\.error\(", body))
                reps = len(re.findall(r"inner_sink\.process\(from_slice\((?:REPLACEMENT_CHARACTER|\"\ufffd\")\)\)", body))
                if errs != reps:
                    bad = "closure reports %d errors for %d replacement characters" % (errs, reps)
                n += reps
        ctx.ob("R10.1", "one-error-per-replacement/" + fn, bad is None, bad or "every U+FFFD is preceded by exactly one error report and every error is followed by one U+FFFD", "tendril stream %s" % fn)
    ctx.floor("R10.1", "replacement-sites", n, 3)


def r10_2_4(ctx):
    key, pcs = nfq.cells(ctx, AREA, DEC + "::process")
    n = 0
    bad = None
    bad4 = None
    for pc in nfq.feasible(pcs):
        for a, args in pc["actions"]:
            if a.endswith(".reinterpret_without_validating"):
                n += 1
                recv = a[: -len(".reinterpret_without_validating")]
                whole = any(v and g.startswith("decode_utf8(") and g.endswith("matches Ok(_)") for g, v in pc["guards"].items()) and "subtendril" not in recv
                prefix = re.search(r"\.subtendril\(0,\(decode_utf8\(.*\)\.0\.valid_prefix\.len\(\) as u32\)\)$", recv) is not None
                if not (whole or prefix):
                    bad = recv
            if a.endswith(".pop_front") and "invalid_sequence" in str(args) or (a.endswith(".pop_front") and "valid_prefix.len()" in str(args)):
                arg = str(args[0])
                ok = re.fullmatch(r"\(\(decode_utf8\(.*\)\.0\.valid_prefix\.len\(\) \+ decode_utf8\(.*\)\.0\.invalid_sequence\.len\(\)\) as u32\)", arg) is not None
                if not ok:
                    bad4 = arg
    ctx.floor("R10.2", "reinterpret-sites", n, 2)
    ctx.ob("R10.2", "unchecked-reinterpretation-only-of-validated-bytes", bad is None,
           "reinterpret_without_validating is applied to %s, which is neither the whole chunk on the Ok edge nor subtendril(0, valid_prefix.len())" % bad if bad else "applied to the whole chunk on the decode-Ok edge or to the valid prefix only")
    ctx.ob("R10.4", "resume-after-whole-invalid-sequence", bad4 is None,
           "after an invalid sequence decoding resumes at %s instead of valid_prefix.len() + invalid_sequence.len(): one ill-formed subsequence would yield several replacement characters" % bad4 if bad4
           else "decoding resumes after valid_prefix plus the whole invalid sequence (one U+FFFD per maximal ill-formed subsequence)")


def r10_3(ctx):
    key, pcs = nfq.cells(ctx, AREA, DEC + "::finish")
    ok = True
    for pc in nfq.feasible(pcs):
        pending = gval(pc["guards"], "self.incomplete matches Some(_)")
        reps = sum(1 for x in nfq.texts(pc) if _is_rep(x))
        fin = nfq.names(pc)[-1:] == ["self.inner_sink.finish"]
        if pending is None or reps != (1 if pending else 0) or not fin:
            ok = False
    ctx.ob("R10.3", "finish-reports-pending-sequence", ok, "finish() emits one error + U+FFFD iff an incomplete sequence is pending, then finishes the inner sink")
    key, pcs = nfq.cells(ctx, AREA, DEC + "::process")
    stores = 0
    bad = None
    for pc in nfq.feasible(pcs):
        for a, args in pc["actions"]:
            if a == "assign self.incomplete" and str(args[0]).startswith("Some("):
                stores += 1
                ok2 = any((v and ("matches None" in g and "try_to_complete_codepoint" in g or "Err(Incomplete{" in g)) or (not v and "matches Some(" in g and "try_to_complete_codepoint" in g) for g, v in pc["guards"].items())
                if not ok2:
                    bad = [g for g, v in pc["guards"].items() if v][:3]
    ctx.floor("R10.3", "incomplete-stores", stores, 2)
    ctx.ob("R10.3", "incomplete-stored-only-when-input-ran-out", bad is None, "self.incomplete is set only on the NotEnoughInput / Incomplete edges" if bad is None else "self.incomplete is stored on %s" % bad)


def r10_6(ctx):
    """encoding_rs feature: LossyDecoder's EncodingRs arm and decode_to_sink (analysed in the all-features pass only)"""
    n = 0
    key, pcs = nfq.cells(ctx, AREA, "stream::LossyDecoder<Sink,A>[TendrilSink<fmt::Bytes,A>]::finish", exact=True)
    for pc in nfq.feasible(pcs):
        if not any(v and "EncodingRs" in g for g, v in pc["guards"].items()):
            continue
        t = nfq.texts(pc)
        n += 1
        ok = len(t) == 2 and re.fullmatch(r"call decode_to_sink\(new\(\),self\.inner\.0,self\.inner\.1,true\)", t[0]) is not None and t[1].startswith("self.inner.1.finish(")
        ctx.ob("R10.6", "finish-flushes-pending-then-finishes", ok, "finish() decodes the empty input with last = true, then finishes the sink" if ok else "finish() does %s" % t, "tendril stream LossyDecoder::finish")
    key, pcs = nfq.cells(ctx, AREA, "stream::LossyDecoder<Sink,A>[TendrilSink<fmt::Bytes,A>]::process", exact=True)
    for pc in nfq.feasible(pcs):
        if not any(v and "EncodingRs" in g for g, v in pc["guards"].items()):
            continue
        t = nfq.texts(pc)
        n += 1
        empty = pc["guards"].get("p1.is_empty()")
        ok = (empty is True and t == []) or (empty is not True and t == ["call decode_to_sink(p1,self.inner.0,self.inner.1,false)"])
        ctx.ob("R10.6", "process-decodes-not-last/%s" % ("empty" if empty else "non-empty"), ok, "process() hands the chunk to decode_to_sink with last = false" if ok else "process() does %s" % t, "tendril stream LossyDecoder::process")
    key, pcs = nfq.cells(ctx, AREA, "stream::decode_to_sink")
    bad = None
    k = 0
    for pc in nfq.feasible(pcs):
        t = nfq.texts(pc)
        g = pc["guards"]
        k += 1
        mal = any(v and "matches Malformed(" in x for x, v in g.items())
        errs = [i for i, x in enumerate(t) if re.match(r"φ\(p3\)\.error\(", x)]
        reps = [i for i, x in enumerate(t) if re.match(r"φ\(p3\)\.process\(from_slice\(", x) and _is_rep(x)]
        if mal != (len(errs) == 1) or len(errs) != len(reps) or any(r != e + 1 for e, r in zip(errs, reps)):
            bad = "malformed=%s but errors at %s and replacement characters at %s" % (mal, errs, reps)
        for i, x in enumerate(t):
            if "reinterpret_without_validating" in x and not re.search(r"new\(\)\.subtendril\(0,\(φ\(p2\)\.decode_to_utf8_without_replacement\(φ\(p1\),new\(\),p4\)\.2 as u32\)\)\.reinterpret_without_validating\(\)", x):
                bad = "reinterprets something other than the written prefix of the output buffer: " + x[:160]
            if ".pop_front(" in x and not re.fullmatch(r"φ\(p1\)\.pop_front\(\(φ\(p2\)\.decode_to_utf8_without_replacement\(φ\(p1\),new\(\),p4\)\.1 as u32\)\)", x):
                bad = "input advances by something other than bytes_read: " + x[:160]
        inp_empty = any(v and "matches InputEmpty" in x for x, v in g.items())
        pops = any(".pop_front(" in x for x in t)
        returns = not any(x.startswith("loop-end(end") or x.startswith("loop-end(continue)") for x in t)
        if not inp_empty and not pops:
            bad = "a path that did not exhaust the input leaves it unadvanced"
        if returns and not inp_empty and g.get("φ(p1).is_empty()") is not True:
            bad = "the loop is left although input remains and the decoder did not report InputEmpty"
        if returns and not inp_empty and "panic!" not in nfq.names(pc):
            # encoding_rs: "If decode_* returns InputEmpty, the processing of the stream has ended. Otherwise, the caller must call
            # decode_* again with last set to true": at the end of the stream only InputEmpty ends the loop
            notlast = gval(g, "p4") is False or gval(g, "!p4") is True
            if not notlast:
                bad = "the loop is left with the input used up but without the decoder having answered InputEmpty, also when `last` is set: what the decoder still holds at the end of the stream (ISO-2022-JP: the byte after an unfinished escape, 'a ESC $' decodes to 'a\ufffd' instead of 'a\ufffd$') is never written"
    ctx.ob("R10.6", "decode_to_sink-discipline", bad is None and k >= 8, bad or "%d paths: one error + U+FFFD per Malformed, only the written prefix reinterpreted, input advanced by bytes_read, loop left only on InputEmpty, or on empty input when the stream goes on" % k, "tendril stream decode_to_sink")
    ctx.floor("R10.6", "encoding-rs-facts", n + k, 11)


def r10_9(ctx):
    """encoding_rs feature, constructors: `new_from_encoding_rs_decoder(decoder, sink)` decodes with the caller's decoder on every
    path (its BOM handling and its state are the caller's choice - a UTF-8 decoder with BOM removal or sniffing is not the plain
    UTF-8 path); `new_encoding_rs(encoding, sink)` uses that encoding's own new decoder unless the encoding is UTF-8"""
    key, pcs = nfq.cells(ctx, AREA, "stream::LossyDecoder<Sink,A>::new_from_encoding_rs_decoder", exact=True)
    bad = None
    n = 0
    for pc in nfq.feasible(pcs):
        n += 1
        if not re.search(r"EncodingRs\(p1,p2\)", str(pc["ret"]).replace(" ", "")):
            bad = "a path builds %s: the decoder handed in is discarded (under %s) - its BOM handling / sniffing is lost and a leading BOM comes out differently from a one-shot decode with that decoder" % (
                str(pc["ret"])[:60], [k[:50] for k, v in pc["guards"].items() if v][:2])
    ctx.ob("R10.9", "constructor-keeps-the-callers-decoder", bad is None and n >= 1, bad or "%d path(s): EncodingRs(decoder, sink)" % n, "tendril stream LossyDecoder::new_from_encoding_rs_decoder")
    key, pcs = nfq.cells(ctx, AREA, "stream::LossyDecoder<Sink,A>::new_encoding_rs", exact=True)
    bad = None
    n = 0
    for pc in nfq.feasible(pcs):
        n += 1
        ret = str(pc["ret"]).replace(" ", "")
        utf8 = any(v and re.search(r"matches UTF_8$|== UTF_8\)$", k) for k, v in pc["guards"].items())
        if utf8:
            if "utf8" not in ret and "Utf8(" not in ret:
                bad = "UTF-8 is decoded with %s" % ret[:60]
        elif not re.search(r"EncodingRs\(p1\.new_decoder\(\),p2\)", ret):
            # ... or hands exactly that decoder to the sibling constructor (which keeps it, see above)
            deleg = [tuple(str(x) for x in args) for a, args in pc["actions"] if a in ("call Self::new_from_encoding_rs_decoder", "call new_from_encoding_rs_decoder")]
            if deleg != [("p1.new_decoder()", "p2")]:
                bad = "encoding other than UTF-8: builds %s%s, not EncodingRs(encoding.new_decoder(), sink): another decoder (e.g. one with BOM removal instead of BOM sniffing) does not decode like the one-shot decode of that encoding" % (ret[:60], deleg[:1] or "")
    ctx.ob("R10.9", "constructor-uses-the-encodings-decoder", bad is None and n >= 2, bad or "UTF-8 -> Utf8LossyDecoder; any other encoding -> its new_decoder()", "tendril stream LossyDecoder::new_encoding_rs")


def r10_7(ctx):
    """completing a sequence that was split over two chunks (IncompleteUtf8::try_complete_offsets): the bytes taken from the new
    chunk are exactly (new stored length - old stored length); a valid prefix keeps valid_up_to bytes; a malformed sequence keeps
    error_len bytes - the maximal invalid prefix, so that exactly one U+FFFD stands for it and decoding resumes right behind it"""
    key, pcs = nfq.cells(ctx, AREA, "::try_complete_offsets")
    bad = None
    kinds = set()
    n = 0
    for pc in nfq.feasible(pcs):
        ret = str(pc["ret"])
        if "panic!" in nfq.names(pc):
            continue  # `valid_up_to.checked_sub(initial).unwrap()`: the subtraction would underflow - no answer is given on that path
        m = re.fullmatch(r"\((.*),(Valid|MalformedUtf8Buffer|NotEnoughInput)\)", ret)
        ls = [str(args[0]) for a, args in pc["actions"] if a == "assign self.buffer_len" and args]
        if m is None or len(ls) != 1:
            bad = "a path does not answer (consumed, kind) after storing the new length exactly once: %s / %s" % (ret[:80], ls)
            continue
        n += 1
        consumed, kind = m.group(1), m.group(2)
        kinds.add(kind)
        lm = re.fullmatch(r"\((.*) as u8\)", ls[0])
        L = lm.group(1) if lm else ls[0]
        init = "(self.buffer_len as usize)"
        by_difference = consumed == "%s.checked_sub(%s).unwrap()" % (L, init) or consumed == "(%s - %s)" % (L, init)
        by_sum = L == "self.buffer[..(%s + %s)].len()" % (init, consumed)
        if not (by_difference or by_sum):
            bad = "%s path: consumed = %s but the stored length becomes %s: the input is not advanced by the number of bytes that were taken into the buffer" % (kind, consumed[:90], L[:90])
        g = pc["guards"]
        vut = [v for k, v in g.items() if k.endswith(".valid_up_to())") and k.startswith("(0 < ")]
        el = [v for k, v in g.items() if ".error_len() matches Some(_)" in k]
        if kind == "MalformedUtf8Buffer" and not re.fullmatch(r".*\.error_len\(\)\.0", L):
            bad = "a malformed completion keeps %s instead of the invalid sequence's own length (error_len): bytes of the malformed sequence are handed back to the caller and decoded a second time, or bytes behind it are swallowed" % L[:90]
        if kind == "Valid" and not by_sum and not re.fullmatch(r".*\.valid_up_to\(\)", L):
            bad = "a completed valid prefix keeps %s instead of valid_up_to bytes" % L[:90]
        if kind == "NotEnoughInput" and not (True not in el and by_sum):
            bad = "NotEnoughInput is answered although the sequence is known to be invalid, or without keeping all copied bytes"
    ctx.ob("R10.7", "split-sequence-completion-accounting", bad is None and n >= 6 and kinds == {"Valid", "MalformedUtf8Buffer", "NotEnoughInput"}, bad or
           "%d paths: consumed = new length - old length; Valid keeps valid_up_to / all bytes, Malformed keeps error_len bytes, NotEnoughInput keeps everything copied" % n,
           "tendril utf8_decode IncompleteUtf8::try_complete_offsets")


def r10_8(ctx):
    """TendrilSink::read_from: the stream is finished only when a read answered Ok(0) (a short read is not the end of the input),
    every Ok(n > 0) read is handed to process(), and an interrupted read is retried"""
    key, pcs = nfq.cells(ctx, AREA, "stream::read_from")
    bad = None
    fin = 0
    for pc in nfq.feasible(pcs):
        t = nfq.texts(pc)
        g = pc["guards"]
        eof = any(v and re.search(r"\.read\(.*\) matches Ok\(0\)(#\d+)?$", k) for k, v in g.items())
        if any(x == "self.finish()" or x.startswith("self.finish(") for x in t):
            fin += 1
            if not eof:
                bad = "read_from finishes the sink on a path where the read did not answer Ok(0) (%s): a reader that returns short reads has its input cut off" % [k[-40:] for k, v in g.items() if v][:2]
        got = any(v and re.search(r"\.read\(.*\) matches Ok\(_\)(#\d+)?$", k) for k, v in g.items()) and not eof
        if got and not any(x.startswith("self.process(") for x in t):
            bad = "a successful non-empty read is not handed to process()"
    ctx.ob("R10.8", "read_from-finishes-only-at-eof", bad is None and fin >= 1, bad or "finish() only after Ok(0); every other Ok(n) is processed", "tendril stream TendrilSink::read_from")


def run(ctx):
    ctx.rule("R10.8", "read_from finishes only at Ok(0); the byte-order mark is dropped only as the first character of the stream (shared with R03.4)")
    ctx.guard("R10.8", "read_from", lambda: r10_8(ctx))
    from . import tokrules as _tr
    for which in ("html", "xml"):
        ctx.guard("R10.8", "bom/" + which, lambda which=which: _tr.bom_rule(ctx, "R10.8", which))
    ctx.rule("R10.7", "completing a split sequence: input advances by (new stored length - old stored length); a malformed completion keeps exactly error_len bytes")
    ctx.guard("R10.7", "completion", lambda: r10_7(ctx))
    if ctx.config == "all-features":
        ctx.rule("R10.6", "encoding_rs feature: LossyDecoder flushes with last = true at finish, pairs each error with one U+FFFD, reinterprets only decoder-written UTF-8, advances by bytes_read")
        ctx.guard("R10.6", "encoding_rs", lambda: r10_6(ctx))
        ctx.rule("R10.9", "encoding_rs constructors: new_from_encoding_rs_decoder keeps the caller's decoder; new_encoding_rs uses the encoding's own decoder")
        ctx.guard("R10.9", "encoding_rs-constructors", lambda: r10_9(ctx))
    ctx.rule("R10.1", "every U+FFFD sent to the inner sink is immediately preceded by exactly one error() and vice versa (process, finish, completion closure)")
    ctx.rule("R10.2", "reinterpret_without_validating only on the decode-Ok chunk or on subtendril(0, valid_prefix.len())")
    ctx.rule("R10.3", "finish reports a pending incomplete sequence iff one is stored; process stores one only when input ran out")
    ctx.rule("R10.4", "after an invalid sequence decoding resumes at valid_prefix.len() + invalid_sequence.len()")
    ctx.rule("R10.5", "normal forms of tendril::{stream, utf8_decode, futf} and of the drivers equal the reviewed reference")
    ctx.guard("R10.1", "pairing", lambda: r10_1(ctx))
    ctx.guard("R10.2", "provenance", lambda: r10_2_4(ctx))
    ctx.guard("R10.3", "finish", lambda: r10_3(ctx))
    ctx.guard("R10.5", "nf", lambda: nf_common.nf_rule(ctx, "R10.5", AREA, floor=38))
    ctx.guard("R10.5", "nf-html-driver", lambda: nf_common.nf_rule(ctx, "R10.5", "html_driver", only=("driver::",)))
    ctx.guard("R10.5", "nf-xml-driver", lambda: nf_common.nf_rule(ctx, "R10.5", "xml_driver", only=("driver::",)))
