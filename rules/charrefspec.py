"""R14.12: the character-reference sub-tokenizer, state by state, against a transcription of the WHATWG character
reference states (13.2.5.72-80) written as data in this file.

The standard's states and html5ever's are cut differently (html5ever peeks, and hands text back with `unconsume_*`
instead of keeping a temporary buffer), so the transcription is stated in html5ever's vocabulary of *abstract* steps -
consume the peeked character or not, which state follows, what is remembered, how the step answers - per state and per
class of the peeked character:

  standard                                     here
  character reference state                    Begin:  alnum -> Named (nothing consumed) | '#' consumed -> Octothorpe | else: not a reference
  numeric character reference state            Octothorpe:  x / X consumed and remembered -> Numeric(16) | else -> Numeric(10), nothing consumed
  (hexa)decimal character reference start      Numeric(b), no digit seen yet, not a digit of base b -> everything handed back (unconsume_numeric)
  (hexa)decimal character reference state      Numeric(b): digit of base b consumed, code := code * b + digit | other -> NumericSemicolon, nothing consumed
     ';' / anything else                       NumericSemicolon:  ';' consumed | anything else left in the input;  then numeric character reference end (finish_numeric, R14.4)
  named character reference state              Named: every character is consumed into the name buffer; a full match is remembered with ITS length; a proper
                                               prefix of a name changes nothing; no entry -> finish_named (R14.6) with that character
  ambiguous ampersand state                    BogusName: alnum consumed and kept | anything else consumed, then the whole name handed back

A cell of the extracted table is compared with the row of every class of the standard it overlaps, so the code's own
partition of the characters (merged arms, extra cut points) does not matter.  Parse errors are not compared.
"""
import re

from lib.core import AnchorMissing

ALPHA = [(65, 90), (97, 122)]
DIGIT = [(48, 57)]
HEXLET = [(65, 70), (97, 102)]
MAXC = 0x10FFFF


def _minus(ranges):
    out = []
    lo = 0
    for a, b in sorted(ranges):
        if a > lo:
            out.append((lo, a - 1))
        lo = b + 1
    if lo <= MAXC:
        out.append((lo, MAXC))
    return out


def classes_for(state, base):
    if state == "do_begin":
        named = [("alpha", ALPHA), ("digit", DIGIT), ("hash", [(35, 35)])]
    elif state == "do_octothorpe":
        named = [("x", [(88, 88), (120, 120)])]
    elif state == "do_numeric":
        named = [("digit", DIGIT)] + ([("hexlet", HEXLET)] if base == 16 else [])
    elif state == "do_numeric_semicolon":
        named = [("semicolon", [(59, 59)])]
    elif state == "do_named":
        named = []
    elif state == "do_bogus_name":
        named = [("alnum", ALPHA + DIGIT)]
    else:
        raise KeyError(state)
    used = [r for _, rs in named for r in rs]
    return named + [("other", _minus(used))]


def overlaps(rng, ranges):
    return any(not (rng[1] < a or b < rng[0]) for a, b in ranges)


def _alts(v):
    """'varies:a|b' -> the alternatives (the flattener evaluates a class at three members)"""
    v = str(v)
    return v[len("varies:"):].split("|") if v.startswith("varies:") else [v]


def signature(pc, which):
    names = [a for a, _ in pc["actions"]]
    sig = {"consume": names.count("tokenizer.discard_char"), "state": None, "push_c": 0, "unconsume_name": "unconsume_name" in names,
           "assigns": {}, "other": []}
    for a, args in pc["actions"]:
        args = [str(x) for x in args]
        if a == "assign self.state":
            alts = [x for x in _alts(args[0]) if "«" not in x]
            sig["state"] = alts[0] if len(set(alts)) == 1 else "|".join(alts)
        elif a.startswith("assign self."):
            sig["assigns"].setdefault(a[len("assign self."):], []).append(args[0] if args else "")
        elif a == "self.name_buf_mut().push_char":
            sig["push_c"] += 1 if args == ["c"] else 100
        elif a in ("tokenizer.discard_char", "unconsume_name", "tokenizer.emit_error", "emit_name_error", "finish_none", "finish_numeric", "unconsume_numeric", "finish_named"):
            pass
        else:
            sig["other"].append(a)
    ret = str(pc["ret"])
    if ret in ("Stuck", "Progress"):
        sig["result"] = ret
    elif ret in ("Done(EMPTY)", "self.finish_none()") or (ret == "Done" and "finish_none" in names):
        sig["result"] = "Empty"
    elif ret == "self.finish_numeric()" and "finish_numeric" in names:
        sig["result"] = "FinishNumeric"
    elif ret == "self.unconsume_numeric()" and "unconsume_numeric" in names:
        sig["result"] = "UnconsumeNumeric"
    elif ret == "self.finish_named()" and "finish_named" in names:
        fa = [args for a, args in pc["actions"] if a == "finish_named"][0]
        sig["result"] = "FinishNamed" if any(str(x) == "Some(«c»)" for x in fa) else "FinishNamed(?)"
    else:
        sig["result"] = "?" + ret
    return sig


def gv(pc, pattern):
    """truth value of the guard whose text matches pattern (None if the path does not test it)"""
    for k, v in pc["guards"].items():
        if re.fullmatch(pattern, k):
            return v
    return None


def plain(sig, **kw):
    """sig has exactly the given essentials and nothing else of substance"""
    want = {"consume": 0, "state": None, "push_c": 0, "unconsume_name": False, "result": None}
    want.update(kw)
    assigns = want.pop("assigns", {})
    optional = want.pop("optional", {})
    for k, v in want.items():
        if sig[k] != v:
            return "%s is %r, the standard's row gives %r" % (k, sig[k], v)
    got = dict(sig["assigns"])
    for f, v in assigns.items():
        g = got.pop(f, None)
        if g is None or [x.replace(" ", "") for x in g] != [x.replace(" ", "") for x in v]:
            return "%s is set to %r, expected %r" % (f, g, v)
    for f, v in optional.items():
        g = got.pop(f, None)
        if g is not None and g != v:
            return "%s is set to %r, expected %r or nothing" % (f, g, v)
    if got:
        return "the row also sets %s" % sorted(got)
    if sig["other"]:
        return "the row also performs %s" % sig["other"][:2]
    return None


def expect(fn, base, cls, pc, sig, which, rng):
    """-> None if the cell agrees with the transcription for class cls, else a description"""
    if fn == "do_begin":
        named = plain(sig, state="Named", result="Progress", assigns={"name_buf_opt": ["Some(new())"]})
        if cls == "alpha":
            return named
        if cls == "hash":
            return plain(sig, consume=1, state="Octothorpe", result="Progress")
        notref = plain(sig, result="Empty")
        if cls == "digit":  # '&1': a digit never starts a name; through Named or not, the same characters come out
            return None if (named is None or notref is None) else notref
        return notref
    if fn == "do_octothorpe":
        if cls == "x":
            return plain(sig, consume=1, state="Numeric(16)", result="Progress", assigns={"hex_marker": ["Some(«c»)"]})
        return plain(sig, state="Numeric(10)", result="Progress", optional={"hex_marker": ["None"]})
    if fn == "do_numeric":
        isdigit = cls == "digit" or (cls == "hexlet" and base == 16)
        if isdigit:
            e = plain(sig, consume=1, result="Progress", assigns={"seen_digit": ["true"], "num": sig["assigns"].get("num", [])}, optional={"num_too_big": ["true"]})
            if e:
                return e
            nums = sig["assigns"].get("num", [])
            txt = " ; ".join(nums)
            if not re.search(r"wrapping_mul\(%d\)|\* %d\b|checked_mul\(%d\)|saturating_mul\(%d\)" % ((base,) * 4), txt):
                return "the code value is not multiplied by the base %d (%s)" % (base, txt[:80])
            # the digit added: the class was evaluated at its first, middle and last member
            lo, hi = rng
            lo, hi = max(lo, 48 if cls == "digit" else (65 if hi <= 70 else 97)), hi
            members = [lo, (lo + hi) // 2, hi]
            want = [int(chr(m), 16) for m in members]
            adds = re.findall(r"(?:wrapping_add|checked_add|saturating_add)\((\d+)\)|\+ (\d+)\b", txt)
            got = [int(a or b) for a, b in adds]
            if "«digit(c)»" in txt or "digit(c)" in txt:
                return None
            if got and not (set(got) <= set(want) and (len(set(want)) == 1 or len(set(got)) > 1 or lo == hi)):
                return "the digit added for %s..%s is %s, expected its value %s" % (chr(lo), chr(hi), got, want)
            if not got:
                return "no digit value is added to the code (%s)" % txt[:80]
            return None
        seen = gv(pc, r"self\.seen_digit")
        if seen is None:
            return "a character that is not a digit of base %d is decided without asking whether a digit was seen (guards %s)" % (base, list(pc["guards"])[:3])
        if seen:
            return plain(sig, state="NumericSemicolon", result="Progress")
        return plain(sig, result="UnconsumeNumeric")
    if fn == "do_numeric_semicolon":
        if cls == "semicolon":
            return plain(sig, consume=1, result="FinishNumeric")
        return plain(sig, result="FinishNumeric")
    if fn == "do_named":
        hits = [v for k, v in pc["guards"].items() if re.fullmatch(r"NAMED_ENTITIES\.get\(self\.name_buf\(\)\[\.\.\]\) matches Some\((_|\(_,_\))\)(#\d+)?", k)]
        if not hits:
            return "the name buffer is not looked up in the entity table on this path"
        if len(set(hits)) > 1:
            return None  # Some(_) and Some((_, _)) are the same test of one lookup: answered both ways, the path is infeasible
        hit = hits[0]
        if not hit:
            return plain(sig, consume=1, push_c=1, result="FinishNamed")
        prefix_only = gv(pc, r"NAMED_ENTITIES\.get\(self\.name_buf\(\)\[\.\.\]\)\.0\.0 matches 0")
        if prefix_only is None:
            return "a table entry is used without asking whether it is a full name or only a prefix of one"
        if prefix_only:
            if gv(pc, r"NAMED_ENTITIES\.get\(self\.name_buf\(\)\[\.\.\]\)\.0\.1 matches 0") is False:
                return None  # infeasible: an entry whose first code point is 0 is a prefix entry (0, 0) (R14.2)
            return plain(sig, consume=1, push_c=1, result="Progress")
        L = "NAMED_ENTITIES.get(self.name_buf()[..]).0"
        nm = [x.replace(" ", "") for x in sig["assigns"].get("name_match", [])]
        whole = nm in (["Some(%s)" % L], ["Some((%s.0,%s.1))" % (L, L)], ["Some(Tuple(%s.0,%s.1))" % (L, L)])
        if not whole:
            return "name_match is set to %s, expected the table entry of the lookup" % nm
        return plain(sig, consume=1, push_c=1, result="Progress",
                     assigns={"name_match": sig["assigns"].get("name_match", []), "name_len": ["self.name_buf().len()"]})
    if fn == "do_bogus_name":
        # every character read here is handed back in the end; where the state stops only decides a parse error. So for the
        # tokens it is enough that a row either keeps the character and goes on, or keeps it and hands the whole name back -
        # and that the characters the standard lets continue (alnum) are not the only ones that stop
        go_on = plain(sig, consume=1, push_c=1, result="Progress")
        stop = plain(sig, consume=1, push_c=1, unconsume_name=True, result="Empty")
        if cls == "alnum":
            return None if (go_on is None or stop is None) else go_on
        return None if (go_on is None or stop is None) else stop
    raise KeyError(fn)


def charref_machine(ctx, rule, which):
    T = ctx.tables(which)
    CR = T["charref"]
    fns = ["do_octothorpe", "do_numeric", "do_numeric_semicolon", "do_named", "do_bogus_name"] + (["do_begin"] if which == "html" else [])
    total = 0
    for fn in fns:
        cells = CR.get(fn)
        if not cells:
            raise AnchorMissing("%s CharRefTokenizer::%s not tabulated" % (which, fn))
        bad = {}
        n = 0
        stuck = 0
        for pc in cells:
            acq = dict((k, v) for k, v in pc["acq"])
            base = int(acq["param base"]) if "param base" in acq else None
            pk = acq.get("peek")
            if pk is None:
                raise AnchorMissing("%s %s: a cell without a peeked character" % (which, fn))
            sig = signature(pc, which)
            if pk == "None":
                stuck += 1
                e = plain(sig, result="Stuck")
                if e:
                    bad.setdefault("no-input", "with no character available: " + e)
                continue
            if fn == "do_numeric" and base not in (10, 16):
                bad.setdefault("base", "numeric state tabulated for base %r" % base)
                continue
            for cls, ranges in classes_for(fn, base):
                if not overlaps(tuple(pk), ranges):
                    continue
                n += 1
                e = expect(fn, base, cls, pc, sig, which, tuple(pk))
                if e:
                    bad.setdefault(cls + ("/base%d" % base if base else ""), "peeked U+%04X..U+%04X (%s): %s" % (pk[0], pk[1], cls, e))
        total += n
        if not stuck:
            bad.setdefault("no-input", "no row for 'no character available'")
        for k, d in sorted(bad.items()):
            ctx.ob(rule, "charref-state/%s/%s/%s" % (which, fn, k), False, d, "%s char_ref %s" % (which, fn))
        ctx.ob(rule, "charref-state/%s/%s" % (which, fn), not bad, "%d (class, guard) rows agree with the transcription of the character reference states" % n, "%s char_ref %s" % (which, fn))
    # the dispatcher: state -> its own function
    want = {"Begin": "do_begin", "Octothorpe": "do_octothorpe", "Numeric(_)": "do_numeric", "NumericSemicolon": "do_numeric_semicolon", "Named": "do_named", "BogusName": "do_bogus_name"}
    seen = {}
    for pc in CR.get("step") or []:
        st = [re.fullmatch(r"self\.state matches (.*)", k).group(1) for k, v in pc["guards"].items() if v and re.fullmatch(r"self\.state matches (.*)", k)]
        calls = [a for a, _ in pc["actions"] if a.startswith("do_")]
        if len(st) == 1 and calls:
            seen[st[0]] = calls
    bad = [(s, seen.get(s)) for s, f in want.items() if seen.get(s) != [f]]
    ctx.ob(rule, "charref-dispatch/" + which, not bad, "each of the six states runs its own step function" if not bad else "state -> step function: %s" % bad[:3], "%s char_ref step" % which)
    # finish_named, the decoding path: what follows the match goes back, the two code points are the table's, their number is 1 iff the second is 0
    fin = CR.get("finish_named") or []
    nmatch = 0
    bad = None
    for pc in fin:
        ret = str(pc["ret"])
        m = re.search(r"CharRef\(Array\((.*)\),(\d+)\)", ret) or next((re.search(r"CharRef\(Array\((.*)\),(\d+)\)", str(args[0])) for a, args in pc["actions"] if a == "assign self.result" and args and "CharRef(Array" in str(args[0])), None)
        if not m:
            continue
        nmatch += 1
        arr, cnt = m.group(1), int(m.group(2))
        if not re.fullmatch(r"from_u32\(self\.name_match\.0\.0\)\.unwrap\(\),\s*from_u32\(self\.name_match\.0\.1\)\.unwrap\(\)", arr.replace("char::", "")):
            bad = bad or "the characters of the reference are %s, not the table entry's two code points in order" % arr[:90]
        second_zero = gv(pc, r"self\.name_match\.0\.1 matches 0")
        if second_zero is None or cnt != (1 if second_zero else 2):
            bad = bad or "the number of characters is %d where the entry's second code point is %s" % (cnt, {True: "0", False: "not 0", None: "not tested"}[second_zero])
        backs = [[str(x) for x in args] for a, args in pc["actions"] if a in ("input.push_front", "tokenizer.unconsume")]
        flat = " ".join(x for b in backs for x in b)
        if len(backs) != 1 or "self.name_buf()[self.name_len..]" not in flat.replace(" ", ""):
            bad = bad or "what is handed back after the match is %s, not name_buf[name_len..]" % (flat[:90] or "nothing")
    ctx.ob(rule, "charref-finish-named-decodes/" + which, bad is None and nmatch >= 2, bad or "%d decoding paths: name_buf[name_len..] handed back, (c1, c2) from the table entry, one character iff c2 = 0" % nmatch, "%s char_ref finish_named" % which)
    # unconsume_name hands back the whole name buffer
    un = CR.get("unconsume_name") or []
    ok = bool(un) and all(any(a in ("input.push_front", "tokenizer.unconsume") and any("self.name_buf_opt.take()" in str(x) for x in args) for a, args in pc["actions"]) for pc in un)
    ctx.ob(rule, "charref-unconsume-name/" + which, ok, "the whole name buffer goes back to the front of the input", "%s char_ref unconsume_name" % which)
    return total
