"""C06 — a parsed document always has the canonical html/head/body skeleton (DESIGN 4.C06)."""
import re

from lib import machine as mc
from lib.mir import AnchorMissing
from . import nf_common, nfq
from .guardlib import gval, comparisons, lt_true, ge_true

MANIFEST = {
    "text": "Who-may-append and dispatch rules: only comments, the doctype and the root element created by create_root are ever appended to the document node, and no text; create_root is called only where the BeforeHtml mode is left (and for fragments); in the modes whose current node can be html (or nothing) text is inserted only for whitespace tokens; BeforeHead / AfterHead 'anything else' insert head / body; the frameset replacement detaches body first under frameset_ok; empty character tokens never reach the rules (the LF strip precedes the emptiness test, SplitWhitespace never enqueues an empty remainder) and the whitespace classification is ASCII everywhere; RcDom merges adjacent text. Plus the reviewed normal forms of the tree builder. In a frameset document no formatting element may be reconstructed under html (R06.7: violated as the standard prescribes, recorded as known finding K1); the sets bounding 'clear the stack back to a ... context' contain html and template (R06.8).",
    "note": "Decides R06.1-R06.8 (necessary conditions); R06.7 reports one known finding (K1: '<b><frameset></frameset></html> ' gives html an extra element child, prescribed by WHATWG). Not decided: that no token sequence can place a second element under the document or non-whitespace text under html through foster parenting / fragment parsing. Also decided: the special category is complete for the certain names (R06.10). Round 6: reset-insertion-mode table (R06.13 = R02.10) and selectedcontent replace-all (R06.14 = R20.9) reported here too. Round 8: R06.9 also compares the end-of-file row of every non-skeleton mode; R06.15 = R05.5 (DOCTYPE only in the initial mode).",
    "technique": "who-may-append (resolved sink calls) + dispatch rules over the normal form of the tree builder's step",
}
LEVEL = "other"
EXPLANATION = """
R06.1 appends with the document as parent; R06.2 dispatch table facts per insertion mode (from the 330-path normal
form of step); R06.3 frameset replacement; R06.4 empty text never reaches the sink; R06.5 whitespace classification
agrees (ASCII) at all sites; R06.6 reviewed normal forms.
R06.7 frameset documents and reconstructed formatting elements (known finding K1); R06.8 stack-clearing context sets contain
html and template.
"""
ASSUMPTIONS = ["the sink creates nodes only when asked (RcDom checked under C20)"]
TB = "html_tree_builder"
STEP = "rules::TreeBuilder<Handle,Sink>::step"


def all_paths(ctx):
    cur = nf_common.area_current(ctx, TB)
    for key, v in sorted(cur.items()):
        if v["kind"] == "paths":
            yield key, nfq.feasible(mc.from_json({key: v["cells"]})[key])


def r06_1(ctx):
    n = 0
    for key, pcs in all_paths(ctx):
        fname = key.rsplit("::", 1)[-1]
        for pc in pcs:
            for a, args in pc["actions"]:
                if a.startswith("self.sink.append") and args and str(args[0]) == "self.doc_handle":
                    n += 1
                    child = str(args[-1])
                    ok = (fname == "append_comment_to_doc" and child.startswith("AppendNode(self.sink.create_comment(")) or \
                         (fname == "create_root" and child.startswith("AppendNode(create_element(") and "atom:html" in child)
                    ctx.ob("R06.1", "document-child/%s" % fname, ok, "appends %s to the document" % child[:60] if ok else "%s appends %s to the document node" % (fname, child[:80]), "html5ever tree_builder " + fname)
                if a == "self.sink.append_doctype_to_document":
                    pass
                if a in ("self.insert_at", "self.insert_appropriately", "self.sink.append") and args and "AppendText" in str(args[-1]) and "doc_handle" in str(args[0]):
                    ctx.ob("R06.1", "no-text-under-document/%s" % fname, False, "text is appended to the document node")
    ctx.floor("R06.1", "document-append-sites", n, 2)
    # callers of create_root
    callers = {}
    for key, pcs in all_paths(ctx):
        fname = key.rsplit("::", 1)[-1]
        for pc in pcs:
            if "self.create_root" in nfq.names(pc) or "p1.create_root" in " ".join(nfq.names(pc)) or any(a.endswith(".create_root") for a in nfq.names(pc)):
                callers.setdefault(fname, []).append(pc)
    ok = set(callers) <= {"step", "new_for_fragment"} and "step" in callers
    ctx.ob("R06.1", "create_root-callers", ok, "create_root is called from the BeforeHtml rules and new_for_fragment only" if ok else "create_root is called from %s" % sorted(callers))
    for pc in callers.get("step", []):
        g = pc["guards"]
        in_bh = bool(g.get("p1 matches BeforeHtml"))
        leaves = any(a == "set self.mode" and args == ("BeforeHead",) for a, args in pc["actions"]) or str(pc["ret"]).startswith("Reprocess(BeforeHead")
        once = nfq.names(pc).count("self.create_root") == 1
        ctx.ob("R06.1", "create_root-once-and-leaves-BeforeHtml", in_bh and leaves and once, "the root is created exactly once, in BeforeHtml, on a path that moves to BeforeHead")


def r06_2(ctx):
    key, step = nfq.cells(ctx, TB, STEP)
    step = nfq.feasible(step)
    TEXTY = ("self.append_text", "self.insert_element_for", "self.insert_phantom", "self.insert_element", "self.insert_and_pop_element_for", "self.create_formatting_element_for", "self.parse_raw_data")
    for mode in ("Initial", "BeforeHtml"):
        bad = [nfq.names(pc) for pc in step if pc["guards"].get("p1 matches " + mode) and any(a in TEXTY for a in nfq.names(pc))]
        ctx.ob("R06.2", "no-insertion-before-root/" + mode, not bad, "no rule of mode %s inserts text or elements (there is no root yet)" % mode if not bad else "mode %s inserts: %s" % (mode, bad[0]))
    for mode in ("BeforeHead", "AfterHead", "AfterBody", "AfterFrameset", "AfterAfterFrameset", "InFrameset", "InHead", "InColumnGroup"):
        cnt = 0
        bad = None
        for pc in step:
            if not pc["guards"].get("p1 matches " + mode) or "self.append_text" not in nfq.names(pc):
                continue
            cnt += 1
            ws = any(v and re.fullmatch(r"p2 matches Characters\(Whitespace,_\)", g) for g, v in pc["guards"].items())
            if not ws:
                bad = [g for g, v in pc["guards"].items() if v and g.startswith("p2")]
        if cnt:
            ctx.ob("R06.2", "only-whitespace-text/" + mode, bad is None, "append_text only for Characters(Whitespace, _) tokens" if bad is None else "mode %s appends text for %s: non-whitespace text could become a child of html/head" % (mode, bad))
    # BeforeHead anything-else inserts head and records it; AfterHead anything-else inserts body
    ok = any(pc["guards"].get("p1 matches BeforeHead") and any(a == "self.insert_phantom" and args == ("atom:head",) for a, args in pc["actions"]) and "assign self.head_elem" in nfq.names(pc)
             and str(pc["ret"]).startswith("Reprocess(InHead") for pc in step)
    ctx.ob("R06.2", "BeforeHead-anything-else-inserts-head", ok, "an implied head element is inserted, recorded in head_elem, and the token reprocessed in InHead")
    ok = any(pc["guards"].get("p1 matches AfterHead") and any(a == "self.insert_phantom" and args == ("atom:body",) for a, args in pc["actions"]) and str(pc["ret"]).startswith("Reprocess(InBody") for pc in step)
    ctx.ob("R06.2", "AfterHead-anything-else-inserts-body", ok, "an implied body element is inserted and the token reprocessed in InBody")
    # head is popped before AfterHead is entered (both ways)
    to_after = [pc for pc in step if pc["guards"].get("p1 matches InHead") and (any(a == "set self.mode" and args == ("AfterHead",) for a, args in pc["actions"]) or str(pc["ret"]).startswith("Reprocess(AfterHead"))]
    ok = bool(to_after) and all("self.pop" in nfq.names(pc) for pc in to_after)
    ctx.ob("R06.2", "head-popped-before-AfterHead", ok, "%d InHead paths enter AfterHead, all after popping head" % len(to_after))


def r06_3(ctx):
    key, step = nfq.cells(ctx, TB, STEP)
    k = 0
    for pc in nfq.feasible(step):
        if not pc["guards"].get("p1 matches InBody"):
            continue
        if not any(v and "name:atom:frameset}" in g and "StartTag" in g and g.count("Tag{") == 1 for g, v in pc["guards"].items()):
            continue
        names = nfq.names(pc)
        if "self.insert_element_for" not in names:
            continue
        k += 1
        fo = [v for g, v in pc["guards"].items() if "self.frameset_ok.get()" in g]
        order = [a for a in names if a in ("self.sink.remove_from_parent", "self.open_elems.truncate", "self.insert_element_for")]
        ok = bool(fo) and all(fo) and order == ["self.sink.remove_from_parent", "self.open_elems.truncate", "self.insert_element_for"]
        ctx.ob("R06.3", "frameset-replaces-body", ok, "under frameset_ok: body detached, stack truncated to html, then frameset inserted" if ok else "frameset insertion path: guards %s order %s" % (fo, order))
    ctx.floor("R06.3", "frameset-paths", k, 1)


def r06_4(ctx):
    key, pcs = nfq.cells(ctx, TB, "[TokenSink]::process_token")
    pcs = nfq.feasible(pcs)
    chars = [pc for pc in pcs if any(v and "CharacterTokens" in g for g, v in pc["guards"].items())]
    ctx.floor("R06.4", "character-token-paths", len(chars), 3)
    bad = None
    for pc in chars:
        g = pc["guards"]
        empties = [(k, v) for k, v in g.items() if ".is_empty()" in k]
        to_rules = "self.process_to_completion" in nfq.names(pc)
        if not empties:
            bad = "a character-token path never tests emptiness"
            continue
        if any(v for k, v in empties) and to_rules:
            bad = "an empty character token is passed on to the rules"
        # the LF strip must be decided before emptiness: a path that found the token empty without having looked at ignore_lf is suspicious
        if any(v for k, v in empties) and not any("ignore_lf" in k or "starts_with" in k for k in g):
            bad = "emptiness is tested before the leading-LF strip: a token that is exactly the ignorable LF becomes an empty Characters token"
    ctx.ob("R06.4", "empty-text-dropped-after-lf-strip", bad is None, bad or "the ignorable LF is stripped first, then empty tokens are dropped before the rules run", "html5ever tree_builder process_token")
    key, pcs = nfq.cells(ctx, TB, "::process_to_completion")
    pushes = 0
    bad = None
    for pc in nfq.feasible(pcs):
        for a, args in pc["actions"]:
            if a.endswith(".push_back") and "Characters(NotSplit" in str(args):
                pushes += 1
                nonempty = lt_true(pc["guards"], "0", "len32()") or lt_true(pc["guards"], "0", ".len()") or any((not v) and re.search(r"\.is_empty\(\)(#\d+)?$", k) for k, v in pc["guards"].items())
                if not nonempty:
                    bad = "the remainder of a split text token is enqueued without the non-empty test"
    ctx.floor("R06.4", "remainder-enqueue-paths", pushes, 1)
    ctx.ob("R06.4", "split-remainder-non-empty", bad is None, bad or "SplitWhitespace enqueues the remainder only when len32() > 0")


def r06_5(ctx):
    """all whitespace classifications used to decide 'whitespace text' are ASCII whitespace"""
    sites = []
    for crate_area in (TB,):
        cur = nf_common.area_current(ctx, crate_area)
        for key, v in cur.items():
            blob = str(v.get("cells") or v.get("text"))
            for m in re.finditer(r"(is_ascii_whitespace|is_whitespace|char::is_whitespace|is_alphanumeric\b)", blob):
                sites.append((key.rsplit("::", 1)[-1], m.group(1)))
    ws = {(f, k) for f, k in sites if "whitespace" in k}
    bad = sorted({f for f, k in ws if k != "is_ascii_whitespace"})
    ctx.floor("R06.5", "whitespace-classification-sites", len({f for f, k in ws}), 2)
    ctx.ob("R06.5", "whitespace-is-ascii-everywhere", not bad, "every whitespace test in the tree builder is is_ascii_whitespace (%s)" % sorted({f for f, k in ws}) if not bad
           else "%s classifies whitespace with a non-ASCII predicate: NBSP or U+3000 outside body would be treated as inter-element whitespace" % bad)


def r06_7(ctx):
    """a frameset document: after <frameset> replaced <body> the current node is html, so nothing may insert an element there.
    Character tokens that the frameset modes hand to the in-body rules run 'reconstruct the active formatting elements', which
    inserts elements at the current node unless the list was emptied when the body was replaced."""
    key, step = nfq.cells(ctx, TB, "rules::TreeBuilder<Handle,Sink>::step")
    step = nfq.feasible(step)
    replaced = [pc for pc in step if pc["guards"].get("p1 matches InBody") is True and any(v and "name:atom:frameset" in k and "StartTag" in k for k, v in pc["guards"].items())
                and "self.sink.remove_from_parent" in nfq.names(pc)]
    if not replaced:
        raise AnchorMissing("the in-body <frameset> path that detaches the body element was not found")
    cleared = all(any("active_formatting" in a and ("clear" in a or "truncate" in a) for a in nfq.names(pc)) for pc in replaced)
    n = 0
    for mode in ("InFrameset", "AfterFrameset", "AfterAfterFrameset"):
        deleg = [pc for pc in step if pc["guards"].get("p1 matches " + mode) is True and any(v and k.startswith("p2 matches Characters(") for k, v in pc["guards"].items())
                 and any(a == "self.step" and [str(x) for x in args] == ["InBody", "p2"] for a, args in pc["actions"])]
        if not deleg:
            continue
        n += 1
        ctx.ob("R06.7", "frameset-document-reconstructs-formatting/" + mode, cleared,
               "the list of active formatting elements is emptied when <frameset> replaces <body>" if cleared else
               "mode %s hands whitespace to the in-body rules, which reconstruct the active formatting elements; the list is not emptied when <frameset> replaces <body>, so an element left there (e.g. <b>) is re-created as a child of html after the frameset" % mode,
               "html5ever tree_builder rules.rs step (InBody <frameset>, %s characters)" % mode)
    ctx.floor("R06.7", "frameset-modes-delegating-characters", n, 1)


def r06_8(ctx):
    """'clear the stack back to a table / table body / table row context' never pops the html element or out of a template:
    every set handed to pop_until_current contains html and template (otherwise the next element is inserted as a child of html)"""
    from .C02 import tag_set_fns, resolve
    sets = tag_set_fns(ctx)
    key, step = nfq.cells(ctx, TB, "rules::TreeBuilder<Handle,Sink>::step")
    used = set()
    for pc in step:
        for a, args in pc["actions"]:
            if a == "self.pop_until_current" and args:
                used.add(str(args[0]))
    for name in sorted(used):
        mem = resolve(sets, name)
        names = {x[1] for x in mem if x[0] == "html"} if mem is not None else set()
        ok = mem is not None and {"html", "template"} <= names
        ctx.ob("R06.8", "stack-clearing-context-stops-at-html-and-template/" + name, ok, "%s = %s" % (name, sorted(names)) if ok else
               "the context set %s (%s) lacks %s: clearing the stack back to it can pop the template / body / html boundary, and the following element becomes a child of html" % (
                   name, sorted(names), sorted({"html", "template"} - names)), "html5ever tree_builder tag_sets " + name)
    ctx.floor("R06.8", "stack-clearing-contexts", len(used), 3)


SKELETON_MODES = ("Initial", "BeforeHtml", "BeforeHead", "InHead", "InHeadNoscript", "AfterHead", "AfterBody", "InFrameset", "AfterFrameset", "AfterAfterBody", "AfterAfterFrameset")


def r06_9(ctx):
    """the rows of the insertion modes that build the html / head / body-or-frameset skeleton are the standard's (shared with R02.11)"""
    from lib import rowcmp
    cur = nf_common.area_current(ctx, TB)
    ks = [k for k in cur if k.endswith("rules::TreeBuilder<Handle,Sink>::step")]
    if len(ks) != 1 or cur[ks[0]]["kind"] != "paths":
        raise AnchorMissing("TreeBuilder::step has no path normal form")
    cells = cur[ks[0]]["cells"]
    modes = set()
    for c in cells:
        for g in c["guards"]:
            if g.startswith("p1 matches "):
                modes.update(a.strip() for a in g[len("p1 matches "):].split("|"))
    n = rowcmp.compare(cells, modes, lambda k, d: ctx.ob("R06.9", k, True, d),
                       lambda k, kind, d: ctx.ob("R06.9", k + "/" + kind, False, d, "html5ever tree_builder rules.rs step vs ref/whatwg_rows.py"),
                       summaries=nf_common.crate_summaries(ctx, "html5ever"), only_modes=SKELETON_MODES, extra_tokens=("eof",))
    ctx.floor("R06.9", "skeleton-row-situations", n, 160)


def run(ctx):
    ctx.rule("R06.12", "the foreign-content end-tag rule never pops an HTML element further down the stack (body, html stay open while the mode says so)")
    from .C02 import foreign_end_tag_stops_at_html
    ctx.guard("R06.12", "foreign-end-html", lambda: foreign_end_tag_stops_at_html(ctx, "R06.12"))
    ctx.rule("R06.13", "'reset the insertion mode appropriately' selects the standard's mode (R02.10): a template closed after </head> must not fall back to 'before head' and grow a second head")
    from .C02 import r02_10
    ctx.guard("R06.13", "reset-mode", lambda: ctx.under("R06.13", lambda: r02_10(ctx)))
    ctx.rule("R06.15", "= R05.5: a DOCTYPE is appended only in the initial insertion mode, which is left on the same path (a second DOCTYPE before the root would be a second doctype child)")
    from .C05 import r05_5
    ctx.guard("R06.15", "doctype-once", lambda: ctx.under("R06.15", lambda: r05_5(ctx)))
    ctx.rule("R06.14", "mirroring an option into selectedcontent REPLACES the old children on every path (R20.9): no stale text node left beside the copy")
    from .C20 import r20_9
    ctx.guard("R06.14", "selectedcontent", lambda: ctx.under("R06.14", lambda: r20_9(ctx)))
    ctx.rule("R06.11", "the sink merges inserted text into the text node directly before the insertion point (RcDom append_before_sibling): no adjacent text siblings from foster-parented text")
    from .C20 import r20_8
    def _merge():
        # same rule, reported under this property
        class _P:
            pass
        orig = ctx.ob
        try:
            ctx.ob = lambda rule, *a, **kw: orig("R06.11", *a, **kw)
            r20_8(ctx)
        finally:
            ctx.ob = orig
    ctx.guard("R06.11", "merge-target", _merge)
    ctx.rule("R06.10", "the special category contains every HTML name that is certainly special (template, head, body, ... ): a stray end tag for an enclosing special element is ignored, not honoured")
    from .C02 import special_tag_html_rule
    ctx.guard("R06.10", "special", lambda: special_tag_html_rule(ctx, "R06.10"))
    ctx.rule("R06.9", "the rows of the eleven insertion modes that create html, head, body / frameset and leave them are the standard's (steps and conditions), and so is the end-of-file row of every other mode (end of input in a table or template mode must still reach the rules that stop parsing with a body in place)")
    ctx.guard("R06.9", "skeleton-rows", lambda: r06_9(ctx))
    ctx.rule("R06.8", "the sets that bound 'clear the stack back to a ... context' contain html and template")
    ctx.guard("R06.8", "contexts", lambda: r06_8(ctx))
    ctx.rule("R06.7", "in a frameset document no formatting element is reconstructed under html")
    ctx.guard("R06.7", "frameset-formatting", lambda: r06_7(ctx))
    ctx.rule("R06.1", "only comments and the create_root element are appended to the document; create_root once, leaving BeforeHtml")
    ctx.rule("R06.2", "Initial/BeforeHtml insert nothing; head-level modes append text only for whitespace tokens; implied head/body; head popped before AfterHead")
    ctx.rule("R06.3", "frameset replacement: frameset_ok, body detached, stack truncated, then insert")
    ctx.rule("R06.4", "empty character tokens never reach the rules: LF strip before the emptiness test; split remainder non-empty")
    ctx.rule("R06.5", "whitespace classification is ASCII at every site")
    ctx.rule("R06.6", "normal forms of the tree builder (and RcDom's append family) equal the reviewed reference")
    ctx.guard("R06.1", "doc", lambda: r06_1(ctx))
    ctx.guard("R06.2", "dispatch", lambda: r06_2(ctx))
    ctx.guard("R06.3", "frameset", lambda: r06_3(ctx))
    ctx.guard("R06.4", "empty", lambda: r06_4(ctx))
    ctx.guard("R06.5", "ws", lambda: r06_5(ctx))
    ctx.guard("R06.6", "nf", lambda: nf_common.nf_rule(ctx, "R06.6", TB, only=("rules::", "::process_token", "::process_to_completion", "::append_", "::create_root", "::insert_", "::appropriate_place")))
    ctx.guard("R06.6", "nf-rcdom", lambda: nf_common.nf_rule(ctx, "R06.6", "rcdom", only=("[TreeSink]::append", "::append_to_existing_text", "::append")))
