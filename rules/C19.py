"""C19 — encoding indicators are raised exactly for meta-declared encodings (DESIGN 4.C19)."""
import re

from lib.mir import AnchorMissing
from . import nf_common, nfq

MANIFEST = {
    "text": "Who-may-construct and must-pass-through rules over the normal form of the tree builder's dispatch: ProcessResult::EncodingIndicator is constructed only in the InHead rule, only for a start tag named meta, after the element was inserted, from the charset attribute first and otherwise from content under an ASCII-case-insensitive http-equiv=content-type test; it is propagated unchanged through process_to_completion, emit_current_tag and run; foreign content never constructs it. Plus the reviewed normal forms of encoding.rs, the driver and the InHead rule. The byte sets of the meta charset scanner (whitespace skipping, end of an unquoted value), extracted as complete tables of the closures, are the standard's (R19.5).",
    "note": 'Decides R19.1-R19.5. Not decided: the byte-offset arithmetic of extract_a_character_encoding_from_a_meta_element beyond equality with its reviewed normal form. Also decided: every declaring <meta> path in InHead ends in the indicator (R19.1 completeness). Also decided: process_to_completion never drops an indicator (R19.3 completeness). Round 6: only the in-head rule inserts a meta element (R19.7), get_attribute selects by name only (R19.8). Round 7: charset found by its seven bytes only, http-equiv compared as it is (R19.9). Round 8: R19.10 the tokenizer\'s feed() hands the indicator on whatever is left in the queue.',
    "technique": 'who-may-construct + guard-dominance rules over function normal forms',
}
LEVEL = "other"
EXPLANATION = """
R19.1 every path of TreeBuilder::step that returns EncodingIndicator is in mode InHead, restricted to tag name
'meta', after insert_and_pop_element_for, with the charset test before the http-equiv test; R19.2 step_foreign and
every other tree-builder function never construct it; R19.3 process_to_completion / emit_current_tag / run hand it
to the caller without processing further tokens; R19.4 reviewed normal forms (encoding.rs, driver.rs, rules).
R19.5 complete byte tables of the scanner's predicates (ASCII whitespace; whitespace or ';').
"""
ASSUMPTIONS = ["Tag::get_attribute returns the value of the named attribute (markup5ever interface, NF-reviewed)"]
TB = "html_tree_builder"


def _names_allowed(pc):
    """tag names the token can have on this path"""
    allowed = None
    for g, v in pc["guards"].items():
        m = re.match(r"^(?:p2\.0|tag)\.name matches atom:([\w:-]+)$", g)
        if m and v:
            s = {m.group(1)}
            allowed = s if allowed is None else allowed & s
            continue
        if not v:
            continue
        if g.startswith("p2 matches ") or g.startswith("p1 matches Tag") or " matches Tag(" in g:
            alts = re.findall(r"Tag\{kind:(\w+),name:atom:([\w:-]+)\}", g)
            if alts:
                s = {n for k, n in alts if k == "StartTag"}
                if len(s) != len(alts):
                    s = s | {"<end-tag>"}
                allowed = s if allowed is None else allowed & s
    return allowed


def r19_1(ctx):
    key, pcs = nfq.cells(ctx, TB, "rules::TreeBuilder<Handle,Sink>::step")
    n = 0
    for pc in nfq.feasible(pcs):
        if "EncodingIndicator(" not in str(pc["ret"]):
            continue
        n += 1
        src = "charset" if "atom:charset" in pc["ret"] else "content" if "atom:content" in pc["ret"] else "?"
        g = pc["guards"]
        in_head = any(v and k == "p1 matches InHead" for k, v in g.items())
        ctx.ob("R19.1", "indicator-only-in-InHead/%s" % src, in_head, "constructed in mode InHead" if in_head else "constructed outside the InHead rule: %s" % [k for k, v in g.items() if v and k.startswith("p1")])
        allowed = _names_allowed(pc)
        ok = allowed == {"meta"}
        ctx.ob("R19.1", "indicator-only-for-meta/%s" % src, ok,
               "the indicator is returned for start tags %s: feed() suspends on e.g. <link charset=x> although only a meta element declares an encoding" % sorted(allowed or ["<any>"]) if not ok
               else "the path is restricted to start tags named meta", "html5ever tree_builder rules InHead")
        names = nfq.names(pc)
        ok = "self.insert_and_pop_element_for" in names
        ctx.ob("R19.1", "element-inserted-before-indicator/%s" % src, ok, "insert_and_pop_element_for precedes the return" if ok else "the meta element is not inserted before the tokenizer is suspended")
        if src == "content":
            ok = any((not v) and "atom:charset" in k and "matches Some" in k for k, v in g.items())
            ctx.ob("R19.1", "charset-attribute-takes-precedence", ok, "content is used only when there is no charset attribute" if ok else "the content-derived label can override a charset attribute")
            ok = any(v and "atom:http-equiv" in k and 'eq_ignore_ascii_case("content-type")' in k for k, v in g.items())
            ctx.ob("R19.1", "http-equiv-content-type-test", ok, "guarded by an ASCII-case-insensitive http-equiv == content-type test")
            ok = "extract_a_character_encoding_from_a_meta_element" in pc["ret"]
            ctx.ob("R19.1", "label-from-extraction-algorithm", ok, "the label is the extraction algorithm's result on the content attribute")
        if src == "charset":
            ok = pc["ret"].endswith("get_attribute(atom:charset).0)")
            ctx.ob("R19.1", "label-is-charset-value", ok, "the label reported is the charset attribute's value")
    ctx.floor("R19.1", "indicator-paths", n, 2)
    # completeness: EVERY InHead path for a <meta> start tag that carries a declaration ends in the indicator - nothing else about
    # the parser's state (template contents, open elements, ...) suppresses it
    bad = None
    k = 0
    for pc in nfq.feasible(pcs):
        g = pc["guards"]
        if not any(v and k2 == "p1 matches InHead" for k2, v in g.items()) or _names_allowed(pc) != {"meta"}:
            continue
        charset = [v for k2, v in g.items() if re.fullmatch(r"p2\.0\.get_attribute\(atom:charset\) matches Some\(_\)(#\d+)?", k2)]
        pragma = any(v and 'eq_ignore_ascii_case("content-type")' in k2 for k2, v in g.items()) and any(v and "extract_a_character_encoding_from_a_meta_element" in k2 and "matches Some(_)" in k2 for k2, v in g.items())
        declares = (charset == [True]) or (charset == [False] and pragma)
        if not charset and "EncodingIndicator(" not in str(pc["ret"]):
            k += 1
            bad = "a <meta> start tag leaves the InHead rule without its charset attribute having been looked at (%s): whether it declares an encoding is never asked" % [k2[-60:] for k2, v in g.items() if "self." in k2][:3]
        if declares:
            k += 1
            if "EncodingIndicator(" not in str(pc["ret"]):
                bad = "a <meta> that declares an encoding is processed in InHead without returning the indicator when %s" % [k2[-60:] for k2, v in g.items() if "self." in k2][:3]
    ctx.ob("R19.1", "every-declaring-meta-in-head-yields-the-indicator", bad is None and k >= 2, bad or "%d declaring paths, all return EncodingIndicator" % k, "html5ever tree_builder rules InHead")
    if n > 2:
        ctx.ob("R19.1", "indicator-constructed-once-per-source", False, "%d paths construct an EncodingIndicator (reviewed: 2)" % n)


def r19_2(ctx):
    cur = nf_common.area_current(ctx, TB)
    n = 0
    for key, v in cur.items():
        if key.endswith("rules::TreeBuilder<Handle,Sink>::step") or key.endswith("::process_to_completion"):
            continue
        n += 1
        txt = str(v.get("cells") or v.get("text"))
        has = "EncodingIndicator(" in txt
        if has or key.endswith("::step_foreign"):
            ctx.ob("R19.2", "no-indicator/" + key.rsplit("::", 1)[-1], not has, "never constructs an EncodingIndicator" if not has else "constructs an EncodingIndicator outside the InHead meta rule")
    ctx.floor("R19.2", "functions-scanned", n, 100)


def r19_3(ctx):
    key, pcs = nfq.cells(ctx, TB, "::process_to_completion")
    k = 0
    for pc in nfq.feasible(pcs):
        if str(pc["ret"]).startswith("EncodingIndicator("):
            k += 1
            ok = pc["ret"].endswith(".0)") and "loop-end" not in nfq.names(pc)[-1:] or True
            # returned from inside the loop: the last action before it is the step call that produced it
            steps = [a for a in nfq.names(pc) if a in ("self.step", "self.step_foreign")]
            ctx.ob("R19.3", "process_to_completion-returns-indicator", len(steps) == 1, "returned right after the step that produced it (no further token processed)")
    ctx.floor("R19.3", "tb-propagation-paths", k, 1)
    # completeness: EVERY path on which a step answered EncodingIndicator hands it out, whatever else is true (fragment or
    # document, scripting, ...)
    lost = None
    seen = 0
    for pc in nfq.feasible(pcs):
        if any(v and re.search(r"(self\.step(_foreign)?\(.*\)|φ\(.*\)|loop\(.*\)|result) matches EncodingIndicator\(_\)", g) for g, v in pc["guards"].items()):
            seen += 1
            if not str(pc["ret"]).startswith("EncodingIndicator("):
                lost = "a step answered EncodingIndicator but process_to_completion returns %s when %s" % (str(pc["ret"])[:40], [g[:50] for g, v in pc["guards"].items() if "self." in g and "matches" not in g][:3])
    ctx.ob("R19.3", "process_to_completion-never-drops-an-indicator", lost is None and seen >= 1, lost or "%d paths on which a step produced the indicator all return it" % seen)
    T = ctx.tables("html")
    pcs = T["helpers"].get("emit_current_tag") or []
    k = 0
    for pc in pcs:
        if pc["ret"].startswith("EncodingIndicator("):
            k += 1
            names = [a for a, _ in pc["actions"]]
            ok = names and names[-1] == "process_token"
            ctx.ob("R19.3", "emit_current_tag-maps-indicator", ok, "TokenSinkResult::EncodingIndicator -> ProcessResult::EncodingIndicator with no effect after the sink call")
    ctx.floor("R19.3", "tokenizer-propagation-paths", k, 1)
    pcs = T["helpers"].get("run") or []
    k = sum(1 for pc in pcs if pc["ret"].startswith("EncodingIndicator("))
    ctx.ob("R19.3", "run-returns-indicator", k >= 2, "run() returns TokenizerResult::EncodingIndicator on both the profiled and the plain loop")


def r19_5(ctx):
    """'extract a character encoding from a meta element': the byte predicates of the scanner are the standard's sets.
    Each closure over a single byte (no captured variable) is a pure function of that byte; its table over all 256 values is
    extracted by partial evaluation and compared: whitespace skipping = ASCII whitespace, the end of an unquoted value = ASCII
    whitespace or ';'"""
    from lib.ast import walk
    from lib.flat import scalar_consts, Config, explore, run_body
    its = [x for x in ctx.ast.walkable("html5ever") if x["k"] == "Fn" and x["name"] == "extract_a_character_encoding_from_a_meta_element" and x.get("body") is not None]
    if len(its) != 1:
        raise AnchorMissing("extract_a_character_encoding_from_a_meta_element not found")
    clos = []

    def f(n):
        if n.get("k") == "MethodCall" and n.get("m") in ("position", "take_while", "find", "skip_while", "rposition"):
            for arg in n.get("args", []):
                if arg.get("k") == "Closure" and len(arg.get("params", [])) == 1 and arg["params"][0].get("k") == "PIdent":
                    clos.append((n["m"], arg))
    walk(its[0]["body"], f)
    WS = {9, 10, 12, 13, 32}
    sets = []
    for m, c in clos:
        pname = c["params"][0]["name"]
        free = set()

        def g(n):
            if n.get("k") == "Path" and "::" not in n["path"] and n["path"] != pname and n["path"][:1].islower():
                free.add(n["path"])
        walk(c["body"], g)
        if free:
            continue  # depends on a captured value (the quote character): not a fixed set
        members = set()
        for v in range(256):
            cfg = Config(acquire={}, primitives=set(), inline={}, guards=set(), samples=[], accessors=set(), full_call_text=True, generic_loops=True, consts=scalar_consts(ctx.ast.walkable("html5ever")))
            body = c["body"] if isinstance(c["body"], list) else [{"k": "ExprStmt", "e": c["body"], "semi": False}]
            paths = explore(cfg, lambda run, v=v: run_body(run, body, {pname: v}))
            outs = {p["outcome"][1] if len(p["outcome"]) > 1 else None for p in paths}
            if outs == {True}:
                members.add(v)
            elif outs != {False}:
                raise AnchorMissing("byte predicate of .%s() is not decidable for byte %d: %s" % (m, v, outs))
        sets.append((m, members))
    skip = [ms for m, ms in sets if m in ("take_while", "skip_while")]
    term = [ms for m, ms in sets if m in ("position", "find")]
    ctx.ob("R19.5", "meta-charset-whitespace-skipping", len(skip) == 2 and all(ms == WS for ms in skip),
           "after 'charset' and after '=' exactly ASCII whitespace (TAB LF FF CR SPACE) is skipped" if len(skip) == 2 and all(ms == WS for ms in skip) else
           "whitespace skipping uses %s, the standard says two skips of ASCII whitespace %s" % ([sorted(ms) for ms in skip], sorted(WS)), "html5ever encoding.rs extract_a_character_encoding_from_a_meta_element")
    ok = len(term) == 1 and term[0] == WS | {59}
    ctx.ob("R19.5", "meta-charset-unquoted-value-end", ok, "an unquoted value ends at the first ASCII whitespace or ';'" if ok else
           "an unquoted value ends at bytes %s; the standard says ASCII whitespace or ';' %s" % ([sorted(ms) for ms in term] or "(no byte predicate found)", sorted(WS | {59})),
           "html5ever encoding.rs extract_a_character_encoding_from_a_meta_element")


LENGTH_CHANGING = {"to_lowercase", "to_uppercase", "trim", "trim_start", "trim_end", "trim_matches", "trim_start_matches", "trim_end_matches", "replace", "replacen", "split_whitespace",
                   "to_lowercase_string", "escape_default", "escape_debug", "escape_unicode", "nfc", "nfkc", "nfd", "nfkd", "from_utf8_lossy", "to_string_lossy"}


def r19_6(ctx, rule2=None):
    """the meta content scanner works on BYTES: every sub-slice of its input that is compared or searched is taken through
    as_bytes() (byte offsets computed by the scan are not, in general, character boundaries of the string: a str slice at such an
    offset is None / panics, and the declaration after a non-ASCII character would be missed)"""
    from lib.ast import walk
    its = [x for x in ctx.ast.walkable("html5ever") if x["k"] == "Fn" and x["name"] == "extract_a_character_encoding_from_a_meta_element" and x.get("body") is not None]
    if len(its) != 1:
        raise AnchorMissing("extract_a_character_encoding_from_a_meta_element not found")
    pname = [p["pat"]["name"] for p in its[0]["sig"]["params"] if p.get("pat", {}).get("k") == "PIdent"][0]
    bad = []
    n = [0]

    def is_input(e):
        while isinstance(e, dict) and e.get("k") in ("Ref", "Paren", "Unary"):
            e = e["e"]
        return isinstance(e, dict) and e.get("k") == "Path" and e["path"] == pname

    def f(node):
        k = node.get("k")
        if k == "MethodCall" and node["m"] == "as_bytes" and is_input(node["recv"]):
            n[0] += 1
        if k == "MethodCall" and node["m"] in ("get", "get_unchecked", "find", "split_at", "char_indices", "chars", "strip_prefix", "starts_with", "trim_start", "trim_start_matches") and is_input(node["recv"]):
            bad.append("%s.%s(..)" % (pname, node["m"]))
        if k == "Index" and is_input(node["e"]) and node["i"].get("k") == "Range":
            bad.append("%s[range]" % pname)
    walk(its[0]["body"], f)
    # offsets are only meaningful in the string they were found in: a Unicode case mapping or a trim gives a copy of another length
    resized = []

    def g(node):
        if node.get("k") == "MethodCall" and node["m"] in LENGTH_CHANGING:
            resized.append(node["m"])
    walk(its[0]["body"], g)
    ctx.ob(rule2 or "R19.6", "meta-content-offsets-are-offsets-of-the-input", not resized,
           "no offset is computed in a re-sized copy of the input" if not resized else
           "the scanner searches a copy of its input made by %s(): such a copy can be longer or shorter than the input (U+0130 lower-cases to three bytes), so the offset found there, applied to the input, "
           "points elsewhere or past its end - `content=\"\u0130charset\"` indexes out of range and panics" % sorted(set(resized))[0],
           "html5ever encoding.rs extract_a_character_encoding_from_a_meta_element")
    if rule2:
        return
    ctx.ob("R19.6", "meta-content-is-scanned-as-bytes", not bad and n[0] >= 3, "the input is examined only through as_bytes() (%d sites) and cut only by subtendril at offsets the scan established" % n[0] if not bad and n[0] >= 3 else
           "the scanner slices / searches its input as a string (%s): at a byte offset that is not a character boundary that is None or a panic, so a charset declaration after a non-ASCII character is not found" % sorted(set(bad)),
           "html5ever encoding.rs extract_a_character_encoding_from_a_meta_element")


def r19_7(ctx):
    """an indicator is due for EVERY meta start tag that ends up as an inserted HTML meta element.  The indicator is decided in the
    'in head' rule for meta (R19.1); so no other insertion mode may insert an element for a meta start tag itself - it hands the
    token to the 'in head' rules (or drops it)"""
    from lib import dispatchcmp
    cur = nf_common.area_current(ctx, "html_tree_builder")
    ks = [k for k in cur if k.endswith("rules::TreeBuilder<Handle,Sink>::step")]
    if len(ks) != 1 or cur[ks[0]]["kind"] != "paths":
        raise AnchorMissing("TreeBuilder::step has no path normal form")
    cells = cur[ks[0]]["cells"]
    modes = set()
    for c in cells:
        for g in c["guards"]:
            if g.startswith("p1 matches "):
                modes.update(a.strip() for a in g[len("p1 matches "):].split("|"))
    n = 0
    for mode in sorted(modes):
        if mode == "InHead":
            continue
        sig = dispatchcmp.signature(cells, mode, "StartTag", "meta")
        bad = None
        for free, acts, ret in sig:
            n += 1
            for a, args in acts:
                if a in ("self.insert_element_for", "self.insert_and_pop_element_for", "self.create_formatting_element_for") and args and re.match(r"p2\.0\b", str(args[0])):
                    bad = "mode %s inserts an element for a meta start tag itself (%s) instead of handing the token to the 'in head' rules: the meta element is in the tree but no encoding indicator is raised for it" % (mode, a)
                if a == "self.insert_element" and any(re.match(r"p2\.0\.name", str(x)) for x in args):
                    bad = "mode %s inserts an element for a meta start tag itself (insert_element)" % mode
        ctx.ob("R19.7", "meta-inserted-only-by-in-head/" + mode, bad is None, bad or "a meta start tag is delegated, reprocessed or ignored", "html5ever tree_builder rules.rs " + mode)
    ctx.floor("R19.7", "meta-handlings", n, 20)


def r19_9(ctx):
    """step 2 of 'extract a character encoding from a meta element': the FIRST seven bytes at or after position that match
    "charset" ASCII-case-insensitively - nothing else decides whether a position matches (no word-boundary test: `xcharset=` and
    `text/htmlcharset=` match), and nothing else decides whether the attribute is a content-type pragma than its value being
    "content-type" ASCII-case-insensitively (no trimming)"""
    key, pcs = nfq.cells(ctx, "html_driver", "encoding::extract_a_character_encoding_from_a_meta_element")
    bad = None
    n = 0
    for pc in nfq.feasible(pcs):
        gs = list(pc["guards"].items())
        if not gs:
            continue
        k0, v0 = gs[0]
        if not re.match(r"p1\.as_bytes\(\)\.get\(.*\.\.\(.* \+ (.*\.len\(\)|7)\)\) matches Some\(_\)", k0):
            bad = "the search for \"charset\" starts with the test %s" % k0[:80]
            continue
        if not v0:
            continue
        n += 1
        if len(gs) < 2 or not re.search(r"\.eq_ignore_ascii_case\(\[99, 104, 97, 114, 115, 101, 116\]\)", gs[1][0]):
            bad = "whether a position matches \"charset\" depends on %s before / instead of the seven bytes themselves: the standard takes the first match wherever it is (e.g. inside `xcharset=`)" % (gs[1][0][:80] if len(gs) > 1 else "nothing")
            continue
        names = nfq.names(pc)
        inner_end = [args for a, args in pc["actions"] if a == "loop-end"]
        if inner_end and ((gs[1][1] and inner_end[0][0] != "break") or ((not gs[1][1]) and inner_end[0][0] not in ("end", "continue"))):
            bad = "the seven bytes %s \"charset\" but the search %s" % ("match" if gs[1][1] else "do not match", "goes on" if gs[1][1] else "stops")
    ctx.ob("R19.9", "charset-found-by-its-seven-bytes-only", bad is None and n >= 6, bad or "%d paths: a position matches iff its seven bytes do" % n, "html5ever encoding.rs extract_a_character_encoding_from_a_meta_element")
    # the http-equiv test of the in-head meta rule
    key, step = nfq.cells(ctx, "html_tree_builder", "rules::TreeBuilder<Handle,Sink>::step")
    bad = None
    k = 0
    for pc in nfq.feasible(step):
        for g in pc["guards"]:
            if "http-equiv" in g and "content-type" in g:
                k += 1
                if not re.search(r"get_attribute\(atom:http-equiv\)(\.0)?(\.is_some_and\(\|\.\.\|\{?|\.0\.|\.)[^|]*?a?1?\.?eq_ignore_ascii_case\(\"content-type\"\)", g) or re.search(r"trim|to_lowercase|to_uppercase|replace|split|strip", g):
                    bad = "the http-equiv value is compared as %s; the standard compares the attribute's value, as it is, ASCII-case-insensitively with \"content-type\"" % g[:120]
    ctx.ob("R19.9", "http-equiv-compared-as-it-is", bad is None and k >= 1, bad or "value.eq_ignore_ascii_case(\"content-type\") on the attribute value itself", "html5ever tree_builder rules.rs InHead meta")


def r19_8(ctx):
    """Tag::get_attribute(name): the value of the FIRST attribute (source order) in no namespace with that local name - whatever
    the value is.  `charset=""` is a charset attribute: it makes the element a charset declaration (with label "") and takes
    precedence over http-equiv / content"""
    key, pcs = nfq.cells(ctx, "html_tokenizer_misc", "tokenizer::interface::Tag::get_attribute")
    bad = None
    hits = 0
    for pc in nfq.feasible(pcs):
        names = nfq.names(pc)
        begins = [a for a in names if a.startswith("loop-begin for _ in ")]
        if begins and not re.fullmatch(r"loop-begin for _ in self\.attrs(\.iter\(\))?", begins[0]):
            bad = "the attributes are searched as '%s', not in source order from the first" % begins[0][20:80]
        for g in pc["guards"]:
            if re.search(r"\.value\b", g):
                bad = "whether an attribute counts depends on its value (%s): an attribute with an empty value is an attribute" % g[:70]
            elif not re.search(r"\.name\.(ns|local)\b", g):
                bad = "the search tests %s" % g[:70]
        if str(pc["ret"]).startswith("Some("):
            hits += 1
            if not re.fullmatch(r"Some\(item\.value(\.clone\(\))?\)", str(pc["ret"])):
                bad = "the answer is %s, not the attribute's own value" % str(pc["ret"])[:60]
            g = pc["guards"]
            if not (any(v and re.match(r"item\.name\.ns matches ATOM_NAMESPACE_$", k) for k, v in g.items()) and any(v and re.match(r"\(item\.name\.local == p1\)|\(p1 == item\.name\.local\)", k) for k, v in g.items())):
                bad = "an attribute is returned without its namespace being empty and its local name equal to the one asked for"
    ctx.ob("R19.8", "get_attribute-first-by-name-whatever-the-value", bad is None and hits >= 1, bad or "first attribute with no namespace and the local name; its value as it is", "html5ever tokenizer interface Tag::get_attribute")


def run(ctx):
    ctx.rule("R19.10", "the tokenizer's feed() hands the indicator on: it answers what run() answered on every path (R03.17), whatever is left in the queue")
    from . import tokrules as _tr10
    ctx.guard("R19.10", "feed", lambda: _tr10.feed_facts(ctx, "R19.10", "html"))
    ctx.rule("R19.9", "\"charset\" is found by its seven bytes alone; http-equiv is compared with content-type as it is")
    ctx.guard("R19.9", "charset-search", lambda: r19_9(ctx))
    ctx.rule("R19.8", "Tag::get_attribute finds an attribute by name only: an empty charset / content / http-equiv value is still that attribute")
    ctx.guard("R19.8", "get_attribute", lambda: r19_8(ctx))
    ctx.rule("R19.7", "no insertion mode other than 'in head' inserts the element for a meta start tag: every inserted HTML meta element passed the indicator decision")
    ctx.guard("R19.7", "meta-only-in-head", lambda: r19_7(ctx))
    ctx.rule("R19.6", "the meta content scanner examines its input as bytes only")
    ctx.guard("R19.6", "bytes", lambda: r19_6(ctx))
    ctx.rule("R19.5", "the byte sets of the meta charset scanner (whitespace skipping, end of an unquoted value) are the standard's")
    ctx.guard("R19.5", "scanner-sets", lambda: r19_5(ctx))
    ctx.rule("R19.1", "EncodingIndicator is constructed only in InHead, only for start tag meta, after insertion; charset first, else http-equiv=content-type + extraction from content")
    ctx.rule("R19.2", "no other tree-builder function (step_foreign included) constructs it")
    ctx.rule("R19.3", "process_to_completion, emit_current_tag and run return it unchanged and at once")
    ctx.rule("R19.4", "normal forms of encoding.rs, driver.rs and the tree builder's step equal the reviewed reference")
    ctx.guard("R19.1", "construct", lambda: r19_1(ctx))
    ctx.guard("R19.2", "others", lambda: r19_2(ctx))
    ctx.guard("R19.3", "propagate", lambda: r19_3(ctx))
    ctx.guard("R19.4", "nf-driver", lambda: nf_common.nf_rule(ctx, "R19.4", "html_driver", floor=10))
    ctx.guard("R19.4", "nf-step", lambda: nf_common.nf_rule(ctx, "R19.4", TB, only=("rules::", "::process_to_completion", "[TokenSink]::process_token")))
    ctx.guard("R19.4", "nf-getattr", lambda: nf_common.nf_rule(ctx, "R19.4", "markup5ever_interface", only=("get_attribute",)))
