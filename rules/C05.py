"""C05 — tree builders honour the documented TreeSink calling contract (DESIGN 4.C05)."""
import re

from lib.mir import AnchorMissing
from . import nf_common, nfq
from .guardlib import gval, comparisons, lt_true, ge_true

MANIFEST = {
    "text": "Typestate and guard-dominance rules over every path of every function of both tree builders (normal forms): a node passed to an append-family call is fresh (just created) or was detached by remove_from_parent earlier on the same path; get_template_contents is called only under a 'this is an HTML template element' test; a doctype is appended only on a path that leaves the initial mode/phase or tests-and-sets a once-flag; attributes reach create_element only through the de-duplicating paths; plus equality of all tree-builder functions with their reviewed normal forms.",
    "note": "Decides R05.1-R05.6 in the stated structural form. Not decided: that no node is ever inserted under one of its own descendants for arbitrary future re-parenting code (checked only as fresh-or-detached), element-kind of handles beyond the template test. Also decided: every prefixed XML attribute path runs the duplicate test (R05.6). Also decided: form association only for HTML-namespace form-associated elements (R05.8). Round 8: add_attrs_if_missing only for the html element or the element body_elem() established to be the body (R05.10).",
    "technique": "typestate / guard-dominance rules over function normal forms (all sink call sites)",
}
LEVEL = "other"
EXPLANATION = """
R05.1 get_template_contents only under html_elem_named(_, template); R05.2 appended nodes are Fresh or Detached on
the same path (HTML 20+ sites incl. adoption agency 13.9/14, XML 6 sites); R05.5 doctype appended at most once and
before any element (HTML Initial -> BeforeHtml; XML Start phase needs a once-flag); R05.6 attribute lists handed to
the sink come from the de-duplicating paths; R05.7 reviewed normal forms of both tree builders and of
markup5ever::interface::tree_builder.
"""
ASSUMPTIONS = ["handles are obtained only from the sink (create_*, get_document, get_template_contents) or from the caller (context / form element)"]
FRESH_HEADS = {"create_element", "create_comment", "create_pi", "create_element_with_flags", "insert_phantom", "insert_element", "insert_foreign_element",
               "insert_element_for", "create_formatting_element_for"}
FRESH = ("create_element", "create_comment", "create_pi", "create_element_with_flags", "self.insert_phantom", "self.insert_element", "self.insert_foreign_element")
APPENDERS = ("self.sink.append", "self.sink.append_before_sibling", "self.sink.append_based_on_parent_node", "self.insert_at", "self.insert_appropriately")


def _append_nodes(pc):
    """(index, appended-node text) for every append-family action of the path"""
    out = []
    for i, (a, args) in enumerate(pc["actions"]):
        if a in APPENDERS:
            for x in args:
                m = re.match(r"^AppendNode\((.*)\)$", str(x))
                if m:
                    out.append((i, a, m.group(1)))
    return out


def r05_2(ctx):
    sites = 0
    for area, crate in (("html_tree_builder", "html5ever"), ("xml_tree_builder", "xml5ever")):
        cur = nf_common.area_current(ctx, area)
        for key in sorted(cur):
            v = cur[key]
            if v["kind"] != "paths":
                continue
            from lib import machine as mc

            pcs = mc.from_json({key: v["cells"]})[key]
            fname = key.rsplit("::", 1)[-1]
            bad = None
            cnt = 0
            for pc in nfq.feasible(pcs):
                for i, a, node in _append_nodes(pc):
                    cnt += 1
                    node_c = re.sub(r"\.clone\(\)$", "", node)
                    if re.fullmatch(r"p\d+(\.\d+)*", node_c):
                        continue  # forwarded parameter: checked at the callers
                    head = node_c.split("(", 1)[0].rsplit(".", 1)[-1].rsplit("::", 1)[-1]
                    fresh = head in FRESH_HEADS
                    if fresh:
                        continue
                    detached = any(b == "self.sink.remove_from_parent" and args and str(args[0]) == node_c for b, args in pc["actions"][:i])
                    if not detached:
                        bad = (a, node_c, [g for g, val in pc["guards"].items() if val][:4])
            if cnt:
                sites += 1
                ctx.ob("R05.2", "appended-node-fresh-or-detached/%s::%s" % (crate, fname), bad is None,
                       "%s is handed %s, which is neither created on this path nor detached by remove_from_parent before the call: the sink may receive a node that still has a parent (guards %s)" % (bad[0], bad[1][:120], bad[2])
                       if bad else "every appended node is fresh or was detached earlier on the path", "%s tree_builder %s" % (crate, fname))
    ctx.floor("R05.2", "functions-with-append-sites", sites, 14)


def r05_1(ctx):
    n = 0
    cur = nf_common.area_current(ctx, "html_tree_builder")
    from lib import machine as mc

    for key, v in sorted(cur.items()):
        if v["kind"] != "paths":
            continue
        pcs = mc.from_json({key: v["cells"]})[key]
        fname = key.rsplit("::", 1)[-1]
        bad = None
        cnt = 0
        for pc in nfq.feasible(pcs):
            for a, args in pc["actions"]:
                if a == "self.sink.get_template_contents":
                    cnt += 1
                    x = str(args[0])
                    ok = any(val and g.startswith("self.html_elem_named(%s,atom:template)" % x) for g, val in pc["guards"].items())
                    if not ok:
                        bad = x
        if cnt:
            n += 1
            ctx.ob("R05.1", "template-contents-only-of-template/%s" % fname, bad is None,
                   "get_template_contents(%s) is not guarded by html_elem_named(%s, template)" % (bad, bad) if bad else "guarded by html_elem_named(_, template) on the same handle")
    ctx.floor("R05.1", "functions-calling-get_template_contents", n, 1)


def r05_5(ctx):
    from lib import machine as mc

    # HTML: TreeBuilder::process_token
    key, pcs = nfq.cells(ctx, "html_tree_builder", "[TokenSink]::process_token")
    n = 0
    for pc in nfq.feasible(pcs):
        names = nfq.names(pc)
        if "self.sink.append_doctype_to_document" not in names:
            continue
        n += 1
        in_initial = any(val and "self.mode.get() matches Initial" in g for g, val in pc["guards"].items())
        leaves = any(a == "set self.mode" and args and args[0] != "Initial" for a, args in pc["actions"])
        ctx.ob("R05.5", "doctype-once/html", in_initial and leaves,
               "appended only in mode Initial, and the path leaves Initial" if in_initial and leaves else "doctype append is not confined to a mode that is left on the same path")
    ctx.floor("R05.5", "html-doctype-paths", n, 1)
    # nobody sets the mode back to Initial
    cur = nf_common.area_current(ctx, "html_tree_builder")
    back = [k for k, v in cur.items() if v["kind"] == "paths" and any(a == "set self.mode" and args and args[0] == "Initial" for row in v["cells"] for a, args in row["actions"])]
    back += [k for k, v in cur.items() if "Reprocess(Initial" in str(v.get("cells"))]
    ctx.ob("R05.5", "initial-mode-never-re-entered/html", not back, "no function sets the insertion mode back to Initial" if not back else "mode Initial is re-entered by %s" % back)
    # XML: every path that reaches append_doctype_to_document
    key, pcs = nfq.cells(ctx, "xml_tree_builder", "XmlTreeBuilder<Handle,Sink>::step")
    n = 0
    for pc in nfq.feasible(pcs):
        names = nfq.names(pc)
        if "self.append_doctype_to_doc" not in names and "self.sink.append_doctype_to_document" not in names:
            continue
        n += 1
        start = any(val and g == "p1 matches Start" for g, val in pc["guards"].items())
        leaves = any(a == "set self.phase" and args and args[0] != "Start" for a, args in pc["actions"])
        flag = None
        for g, val in pc["guards"].items():
            m = re.match(r"^(self\.[a-z_]+)", g)
            if m and any(a in ("set " + m.group(1), "assign " + m.group(1)) or (a.startswith(m.group(1) + ".") and a.endswith((".replace", ".set"))) for a, _ in pc["actions"]):
                flag = m.group(1)
        ok = start and (leaves or flag is not None)
        ctx.ob("R05.5", "doctype-once/xml", ok,
               "the Start-phase DOCTYPE arm appends a doctype and stays in Start without recording that it did: <!DOCTYPE a><!DOCTYPE b><r/> appends two doctypes" if not ok
               else "appended only in phase Start, at most once (%s)" % ("phase left" if leaves else "once-flag " + flag), "xml5ever tree_builder step")
    ctx.floor("R05.5", "xml-doctype-paths", n, 1)
    cur = nf_common.area_current(ctx, "xml_tree_builder")
    back = [k for k, v in cur.items() if v["kind"] == "paths" and any(a == "set self.phase" and args and args[0] == "Start" for row in v["cells"] for a, args in row["actions"])]
    back += [k for k, v in cur.items() if "Reprocess(Start" in str(v.get("cells"))]
    ctx.ob("R05.5", "start-phase-never-re-entered/xml", not back, "no function returns to phase Start")


def r05_6(ctx):
    # XML: the attribute is kept only when bind_attr_qname answered true; check_duplicate_attr keys on (ns, local) after binding
    key, pcs = nfq.cells(ctx, "xml_tree_builder", "::process_namespaces")
    n = 0
    for pc in nfq.feasible(pcs):
        for i, (a, args) in enumerate(pc["actions"]):
            if a.endswith(".push") and "namespace_stack" not in a and args and "item" in str(args[-1]):
                n += 1
                ok = any(val and g.startswith("self.bind_attr_qname(") for g, val in pc["guards"].items())
                ctx.ob("R05.6", "xml-attr-kept-only-if-not-duplicate", ok, "push into the new attribute list is guarded by bind_attr_qname(..) == true")
    ctx.floor("R05.6", "xml-attr-push-sites", n, 1)
    key, pcs = nfq.cells(ctx, "xml_tree_builder", "::bind_attr_qname")
    ok = False
    for pc in nfq.feasible(pcs):
        if any(val and "prefix matches Some(_)" in g for g, val in pc["guards"].items()):
            names = nfq.names(pc)
            ok = "self.bind_qname" in names and any(a.endswith("check_duplicate_attr") for a in names) and names.index("self.bind_qname") < [i for i, a in enumerate(names) if a.endswith("check_duplicate_attr")][0]
    ctx.ob("R05.6", "xml-duplicate-test-after-binding", ok, "a prefixed attribute is bound first and then checked against the (ns, local) set, unconditionally")
    # ... on EVERY path on which the name may have a prefix, whatever the prefix or the namespace it resolves to
    bad = None
    k = 0
    for pc in nfq.feasible(pcs):
        pref = [v for g, v in pc["guards"].items() if re.fullmatch(r"p2\.prefix matches Some\(_\)(#\d+)?", g)]
        if pref and not any(pref):
            continue  # no prefix: the tokenizer's own duplicate test covers names without a namespace
        k += 1
        names = nfq.names(pc)
        if not any(a.endswith("check_duplicate_attr") for a in names):
            bad = "a path on which the attribute has a prefix (%s) skips the duplicate test: two attributes with the same expanded name reach the sink" % [g for g in pc["guards"]][:3]
    ctx.ob("R05.6", "xml-duplicate-test-on-every-prefixed-path", bad is None and k >= 1, bad or "%d path(s) with a prefix, each runs check_duplicate_attr" % k)
    key, pcs = nfq.cells(ctx, "xml_tree_builder", "::check_duplicate_attr")
    # the membership test is made with the pair (ns, local): either `contains(key)` before `insert(key)` or the answer of `insert(key)` itself
    keyed = any("(p2.ns,p2.local)" in str(pc["actions"]) + str(list(pc["guards"])) + str(pc["ret"]) for pc in pcs)
    ok = keyed and (any("contains" in g for pc in pcs for g in pc["guards"]) or any(".insert((p2.ns,p2.local))" in str(pc["ret"]) + " ".join(pc["guards"]) for pc in pcs))
    ctx.ob("R05.6", "xml-duplicate-key-is-expanded-name", ok, "the key is (name.ns, name.local)")
    # HTML: tokenizer de-duplication by local name (normal form of finish_attribute)
    T = ctx.tables("html")
    fa = T["helpers"].get("finish_attribute") or []
    pushes = [pc for pc in fa if any(a.endswith("current_tag_attrs.push") for a, _ in pc["actions"])]
    ok = bool(pushes) and all(any((not v) and "any(" in g and "name.local ==" in g for g, v in pc["guards"].items()) for pc in pushes)
    ctx.ob("R05.6", "html-attr-pushed-only-if-no-equal-local-name", ok, "finish_attribute pushes only when no existing attribute has the same local name")


FORM_ASSOCIATED = {"button", "fieldset", "input", "object", "output", "select", "textarea", "img"}


def r05_8(ctx):
    """associate_with_form receives an HTML form-associated element: the call is made only on paths that established that the new
    element's expanded name is (HTML namespace, one of button fieldset input object output select textarea img) - a test of the
    local name alone would hand SVG / MathML elements called `input`, `select`, ... to the sink"""
    key, pcs = nfq.cells(ctx, "html_tree_builder", "TreeBuilder<Handle,Sink>::insert_element")
    names = set()
    bad = None
    k = 0
    for pc in nfq.feasible(pcs):
        if not any(a == "self.sink.associate_with_form" for a, _ in pc["actions"]):
            continue
        k += 1
        pos = [g for g, v in pc["guards"].items() if v and re.search(r"matches (ExpandedName\{ns:atom:http://www\.w3\.org/1999/xhtml,local:atom:[\w-]+\}\|?)+(#\d+)?$", g)]
        if not pos:
            bad = "associate_with_form is reached without a test of the element's expanded name against HTML-namespace names (guards: %s)" % [g[:70] for g, v in pc["guards"].items() if v][:3]
            continue
        for g in pos:
            names |= set(re.findall(r"local:atom:([\w-]+)", g))
        if not any(v and "self.form_elem matches Some(_)" in g for g, v in pc["guards"].items()):
            bad = "associate_with_form is reached without the form element pointer being set"
    if bad is None and k and not names <= FORM_ASSOCIATED:
        bad = "elements %s are associated with the form owner; the form-associated elements the parser associates are %s" % (sorted(names - FORM_ASSOCIATED), sorted(FORM_ASSOCIATED))
    ctx.ob("R05.8", "form-association-only-for-html-form-associated-elements", bad is None and k >= 1, bad or "%d associating paths, all under an (HTML namespace, form-associated name) test: %s" % (k, sorted(names)),
           "html5ever tree_builder insert_element")


def r05_9(ctx):
    """(a) mark_script_already_started receives a script element: every call is on a path that established that its argument -
    the current node - is named script, or passes the element just created for a <script> start tag;
    (b) XML: every Start-phase arm that appends the root element to the document leaves the Start phase (so that nothing that
    belongs before the root - a doctype - can be appended after it)"""
    key, pcs = nfq.cells(ctx, "html_tree_builder", "rules::TreeBuilder<Handle,Sink>::step")
    k = 0
    bad = None
    for pc in nfq.feasible(pcs):
        for a, args in pc["actions"]:
            if a == "self.sink.mark_script_already_started":
                k += 1
                arg = str(args[0]) if args else ""
                named = any(v and re.fullmatch(r"self\.current_node_named\(atom:script\)(#\d+)?", g) for g, v in pc["guards"].items())
                created = "create_element" in arg or any(v and re.search(r"name:atom:script", g) and "StartTag" in g for g, v in pc["guards"].items())
                if not (named or created):
                    bad = "mark_script_already_started(%s) is called without the node having been established to be a script element (%s)" % (arg[:40], [g[:50] for g, v in pc["guards"].items() if v][:3])
    ctx.ob("R05.9", "script-marking-only-for-script-elements", bad is None and k >= 1, bad or "%d calls, each for a node known to be a script element" % k, "html5ever tree_builder rules")
    key, pcs = nfq.cells(ctx, "xml_tree_builder", "XmlTreeBuilder<Handle,Sink>::step")
    k = 0
    bad = None
    for pc in nfq.feasible(pcs):
        if not pc["guards"].get("p1 matches Start"):
            continue
        names = nfq.names(pc)
        if "self.append_tag_to_doc" in names:
            k += 1
            leaves = any(a == "set self.phase" and args and str(args[0]) in ("Main", "End") for a, args in pc["actions"])
            if not leaves:
                bad = "a Start-phase arm appends the root element and stays in the Start phase (%s): a later <!DOCTYPE> is appended to the document after the element" % [g[-50:] for g, v in pc["guards"].items() if v and "p2" in g][:1]
    ctx.ob("R05.9", "xml-root-append-leaves-start-phase", bad is None and k >= 2, bad or "%d root-appending arms, all leave the Start phase" % k, "xml5ever tree_builder step")


def run(ctx):
    ctx.rule("R05.10", "add_attrs_if_missing only for the html element or the element body_elem() established to be the body")
    ctx.guard("R05.10", "add-attrs-target", lambda: r05_10(ctx))
    ctx.rule("R05.9", "script marking only for script elements; the XML root's arms leave the Start phase")
    ctx.guard("R05.9", "kinds", lambda: r05_9(ctx))
    ctx.rule("R05.8", "associate_with_form is called only for HTML-namespace form-associated elements, with the form pointer set")
    ctx.guard("R05.8", "form-association", lambda: r05_8(ctx))
    ctx.rule("R05.1", "get_template_contents(x) only under html_elem_named(x, template)")
    ctx.rule("R05.2", "every node handed to an append-family call is fresh or was detached (remove_from_parent) earlier on the same path")
    ctx.rule("R05.5", "a doctype is appended only in the initial mode/phase, on a path that leaves it or tests-and-sets a once-flag; the initial mode/phase is never re-entered")
    ctx.rule("R05.6", "attribute lists are de-duplicated before they reach the sink (HTML: by local name in the tokenizer; XML: by expanded name after binding)")
    ctx.rule("R05.7", "normal forms of both tree builders and of markup5ever::interface::tree_builder equal the reviewed reference")
    ctx.guard("R05.1", "template", lambda: r05_1(ctx))
    ctx.guard("R05.2", "typestate", lambda: r05_2(ctx))
    ctx.guard("R05.5", "doctype", lambda: r05_5(ctx))
    ctx.guard("R05.6", "attrs", lambda: r05_6(ctx))
    from .C02 import r02_2
    ctx.guard("R05.6", "adjust-injective", lambda: r02_2(ctx, "R05.6"))
    ctx.guard("R05.7", "nf-html", lambda: nf_common.nf_rule(ctx, "R05.7", "html_tree_builder", floor=100))
    ctx.guard("R05.7", "nf-xml", lambda: nf_common.nf_rule(ctx, "R05.7", "xml_tree_builder", floor=45))
    ctx.guard("R05.7", "nf-iface", lambda: nf_common.nf_rule(ctx, "R05.7", "markup5ever_interface", only=("tree_builder",)))


def r05_10(ctx):
    """add_attrs_if_missing is called only for the root html element (the first node of the stack, `html_elem`) or for the node
    that `body_elem()` established to be the body element (second node AND an HTML body) - never for 'whatever is second on
    the stack' (in a fragment that is an arbitrary element)"""
    cur = nf_common.area_current(ctx, "html_tree_builder")
    n = 0
    bad = None
    for key, ent in cur.items():
        if ent.get("kind") != "paths":
            continue
        for pc in ent["cells"]:
            for a, args in pc["actions"]:
                if not str(a).endswith("sink.add_attrs_if_missing"):
                    continue
                n += 1
                tgt = str(args[0]) if args else ""
                ok = tgt.startswith("html_elem(self.open_elems)") or tgt.startswith("self.html_elem()") or ("self.body_elem()" in tgt and any(
                    v is True and "self.body_elem()" in k and "matches Some(_)" in k for k, v in pc["guards"].items()))
                if not ok:
                    bad = bad or "%s: add_attrs_if_missing(%s, ..) - the target is not the html element nor the element body_elem() found to be the body" % (key.split("::")[-1], tgt[:70])
    ctx.ob("R05.10", "add-attrs-only-to-html-or-body", bad is None and n >= 2, bad or "%d call paths, targets: the html element / the established body element" % n, "html5ever tree_builder")
