"""Reviewed-normal-form rule: the normal form of every function of an area equals ref/nf_<area>.json."""
import json
import os

from lib import nf

DERIVED = ("eq", "ne", "assert_fields_are_eq", "clone", "fmt", "hash", "partial_cmp", "cmp")
AREAS = {
    # area -> (crate, module filters or None, excluded function names)
    "html_tree_builder": ("html5ever", ["tree_builder"], ("dump_state", "debug_step")),
    "html_serialize": ("html5ever", ["serialize"], ()),
    "html_driver": ("html5ever", ["driver", "encoding", "util"], ()),
    "xml_tree_builder": ("xml5ever", ["tree_builder"], ("dump_state", "debug_step")),
    "xml_serialize": ("xml5ever", ["serialize"], ()),
    "xml_driver": ("xml5ever", ["driver", "tokenizer::qname"], ()),
    "markup5ever_util": ("markup5ever", ["util"], ()),
    "markup5ever_interface": ("markup5ever", ["interface", "serialize"], ()),
    "tendril_core": ("tendril", ["tendril", "buf32", "fmt", "util"], ()),
    "tendril_decode": ("tendril", ["stream", "utf8_decode", "futf"], ()),
    "rcdom": ("markup5ever_rcdom", None, ()),
    # token types, state enums, option defaults and the free helper functions of the tokenizers
    # (the Tokenizer / CharRefTokenizer methods themselves are covered by the tokenizer tables)
    "html_tokenizer_misc": ("html5ever", ["tokenizer"], DERIVED, ("Tokenizer", "CharRefTokenizer")),
    "xml_tokenizer_misc": ("xml5ever", ["tokenizer"], DERIVED + ("run", "step", "incr", "do_before_name", "do_in_name", "do_after_colon"), ("XmlTokenizer", "CharRefTokenizer", "QualNameTokenizer")),
    # the SIMD fast path of the data state and its dispatcher (not part of the tokenizer tables)
    "html_tokenizer_simd": ("html5ever", ["tokenizer"], (), (), ("data_state_simd_fast_path", "data_state_sse2_fast_path", "data_state_neon_fast_path", "is_supported_simd_feature_detected")),
}
# differences that are structural facts, not "the text of a function changed": a new method in a trait impl can override a
# default method or be entered implicitly (Drop) without any caller changing; a public function that disappeared is an API fact
STRUCTURAL = ("function-new", "function-missing")
_cache = {}


_summ = {}


def crate_summaries(ctx, crate):
    """effect summaries of the crate's methods (lib/effects.py), per configuration"""
    from lib import effects
    k = (ctx.config, crate)
    if k not in _summ:
        _summ[k] = effects.summaries(ctx.ast.crates[crate])
    return _summ[k]


def area_current(ctx, area):
    ck = (ctx.config, area)
    if ck in _cache:
        return _cache[ck]
    if True:
        crate, mods, excl = AREAS[area][:3]
        skip_types = AREAS[area][3] if len(AREAS[area]) > 3 else ()
        try:
            known = set(area_ref(area, ctx))
        except (OSError, ValueError, KeyError):
            known = None
        only = AREAS[area][4] if len(AREAS[area]) > 4 else ()
        _cache[ck] = nf.area_nf(ctx.ast, crate, mods, excl, skip_types, None if only else known, only)
        note = _cache[ck].pop("_inlined_new", None)
        if note:
            ctx.notes.append("%s: private functions not in the reviewed reference were inlined into their callers: %s" % (area, ", ".join(note["names"])))
    return _cache[ck]


def area_ref(area, ctx=None):
    base = os.path.join(os.path.dirname(os.path.dirname(os.path.abspath(__file__))), "ref")
    if ctx is not None and ctx.config and os.path.exists(os.path.join(base, ctx.config, "nf_%s.json" % area)):
        return json.load(open(os.path.join(base, ctx.config, "nf_%s.json" % area)))["functions"]
    return json.load(open(os.path.join(base, "nf_%s.json" % area)))["functions"]


def nf_rule(ctx, rule, area, only=None, floor=None):
    """one obligation per function of the area; `only` restricts to function keys containing one of the substrings"""
    cur = area_current(ctx, area)
    ref = area_ref(area, ctx)
    full_cur, full_ref = cur, ref
    if only is not None:
        sel = lambda k: any(s in k for s in only)
        cur = {k: v for k, v in cur.items() if sel(k)}
        ref = {k: v for k, v in ref.items() if sel(k)}
    n = nf.compare_area(
        ref, cur,
        lambda key, msg: ctx.ob(rule, "nf/%s/%s" % (area, key), True, msg),
        lambda key, kind, msg: (ctx.ob if kind in STRUCTURAL else ctx.advise)(rule, "nf/%s/%s/%s" % (area, key, kind), *((False,) if kind in STRUCTURAL else ()), msg, "%s %s" % (AREAS[area][0], key)),
        crate_summaries(ctx, AREAS[area][0]), full_ref, full_cur)
    if floor is not None:
        ctx.floor(rule, "functions/" + area, len(cur), floor)
    ctx.analysed["nf_functions_" + area] = len(cur)
    return n
