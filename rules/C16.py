"""C16 — XML namespaces resolve by lexical scope and lose no attribute (DESIGN 4.C16)."""
import itertools
import re

from lib import machine as mc
from lib.mir import AnchorMissing
from . import nf_common, nfq
from .guardlib import gval, comparisons, lt_true, ge_true

MANIFEST = {
    "text": "Finite-domain and ordering rules on the XML tree builder's namespace machinery: over phase x tag kind x is-script the predicate under which process_namespaces pushes a scope equals the predicate under which the same step arm pushes an open element, and pop() removes one scope and one element together and is the only remover; find_uri searches innermost-first and stops at the first binding (un-binding included); declarations are processed before any name of the tag is bound; the tokenizer drops an attribute only when an earlier one has the same qualified name and the tree builder only on equal expanded names after binding. Plus reviewed normal forms of the tree builder, qname.rs and the tokenizer's attribute functions.",
    "note": "Decides R16.1-R16.5. Not decided: which element an end tag closes in error recovery (balanced by R16.1, dynamic otherwise). Also decided: current_namespace is emptied on every path of process_namespaces (R16.3); the tokenizer never permutes a tag's attribute list (R16.4). Round 6: finish_attribute empties the value buffer (R16.7), attributes dropped only as duplicates (R16.8). Round 8: which attributes are namespace declarations, as truth tables of both filter predicates of process_namespaces over (prefix, local), complements (F28, R16.10); the fixed prefixes xml / xmlns are never stored (R16.11); no attribute value without a name (F30, R16.12). R16.13: duplicate key = expanded name; bind_qname writes only the namespace.",
    "technique": "finite-domain predicate equality + ordering rules over function normal forms",
}
LEVEL = "other"
EXPLANATION = """
R16.1 scope push/pop balance evaluated exhaustively over phase x {Start,Empty,End,Short} x is_script; R16.2 find_uri
order / NamespaceMap::default / insert_ns arms (normal forms); R16.3 three phases of process_namespaces in order;
R16.4 attribute de-duplication keys (qualified name in the tokenizer, expanded name in the tree builder);
R16.5 reviewed normal forms.
"""
ASSUMPTIONS = ["BTreeMap / HashSet semantics"]
TB = "xml_tree_builder"
KINDS = ("StartTag", "EmptyTag", "EndTag", "ShortTag")


def _consistent(guards, facts):
    """facts: dict label-substring -> bool; a path is selected when no guard contradicts"""
    for g, v in guards.items():
        for sub, want in facts:
            if sub(g) is not None and sub(g) != v:
                return False
    return True


def ns_push_predicate(ctx):
    key, pcs = nfq.cells(ctx, TB, "::process_namespaces")
    res = {}
    for kind in KINDS:
        for script in (True, False):
            def sub(g, kind=kind, script=script):
                m = re.fullmatch(r"p1\.kind matches (\w+)", g)
                if m:
                    return m.group(1) == kind
                if g == "p1.name.local matches atom:script":
                    return script
                return None
            sel = [pc for pc in nfq.feasible(pcs) if all(sub(g) is None or sub(g) == v for g, v in pc["guards"].items())]
            if not sel:
                raise AnchorMissing("process_namespaces: no path for kind=%s script=%s" % (kind, script))
            pushes = {any(a == "self.namespace_stack.push" for a, _ in pc["actions"]) for pc in sel}
            if len(pushes) != 1:
                raise AnchorMissing("process_namespaces: push depends on more than kind and script")
            res[(kind, script)] = pushes.pop()
    return res


def r16_1(ctx):
    P = ns_push_predicate(ctx)
    key, pcs = nfq.cells(ctx, TB, "XmlTreeBuilder<Handle,Sink>::step")
    n = 0
    for phase in ("Start", "Main"):
        for kind in KINDS:
            for script in (True, False):
                def sub(g, phase=phase, kind=kind, script=script):
                    m = re.fullmatch(r"p1 matches (\w+)", g)
                    if m:
                        return m.group(1) == phase
                    m = re.fullmatch(r"p2 matches Tag\(Tag\{kind:(\w+)(?:,[^}]*)?\}\)", g)
                    if m:
                        return m.group(1) == kind
                    if re.fullmatch(r"p2 matches (Comment|Pi|Characters|Eof|Doctype|NullCharacter|Eof\|NullCharacter).*", g):
                        return False
                    if "name.local matches atom:script" in g:
                        return script
                    return None
                sel = [pc for pc in nfq.feasible(pcs) if all(sub(g) is None or sub(g) == v for g, v in pc["guards"].items())]
                sel = [pc for pc in sel if any(sub(g) is True and "Tag(" in g for g in pc["guards"])]
                if not sel:
                    continue
                for pc in sel:
                    names = nfq.names(pc)
                    n += 1
                    calls_ns = "self.process_namespaces" in names
                    ns = P[(kind, script)] if calls_ns else False
                    el = sum(1 for a in names if a in ("self.insert_tag", "self.add_to_open_elems"))
                    to_end = any(a == "set self.phase" and args == ("End",) for a, args in pc["actions"]) and phase == "Start"
                    # an arm that moves to the End phase is exempt: no name is ever bound again there (checked below)
                    ok = (1 if ns else 0) == el or (to_end and el == 0)
                    ctx.ob("R16.1", "scope-push-equals-element-push/%s/%s/%s" % (phase, kind, "script" if script else "other"), ok,
                           "process_namespaces pushes a scope: %s; the arm pushes %d open element(s)" % (ns, el) if ok else
                           "scope push (%s) and open-element push (%d) disagree: the namespace stack drifts from the element stack and later names resolve in the wrong scope" % (ns, el), "xml5ever tree_builder step")
    ctx.floor("R16.1", "phase-kind-script-cells", n, 10)
    end_binds = [pc for pc in nfq.feasible(pcs) if pc["guards"].get("p1 matches End") and "self.process_namespaces" in nfq.names(pc)]
    ctx.ob("R16.1", "end-phase-binds-no-name", not end_binds, "no End-phase arm calls process_namespaces (so a scope left over by the root's arm is never consulted)")
    # pop(): one scope and one element together; the only remover
    key, pcs = nfq.cells(ctx, TB, "XmlTreeBuilder<Handle,Sink>::pop")
    ok = all(nfq.names(pc).count("self.namespace_stack.pop") == 1 and nfq.names(pc).count("self.open_elems.pop") == 1 for pc in nfq.feasible(pcs) if "panic!" not in nfq.names(pc))
    ctx.ob("R16.1", "pop-removes-scope-and-element-together", ok, "pop() removes exactly one namespace scope and one open element")
    cur = nf_common.area_current(ctx, TB)
    others = []
    for k, v in cur.items():
        fn = k.rsplit("::", 1)[-1]
        if v["kind"] != "paths" or fn in ("pop",) or "NamespaceMapStack" in k:
            continue
        for row in v["cells"]:
            for a, args in row["actions"]:
                if a in ("self.namespace_stack.pop", "self.open_elems.pop", "self.open_elems.truncate", "self.open_elems.remove"):
                    others.append("%s: %s" % (fn, a))
    ctx.ob("R16.1", "pop-is-the-only-remover", not others, "only pop() removes scopes / open elements (end() drains the element stack at EOF)" if not others else "scopes or elements are removed outside pop(): %s" % sorted(set(others)))


def r16_2_3(ctx):
    key, pcs = nfq.cells(ctx, TB, "XmlTreeBuilder<Handle,Sink>::find_uri")
    blob = " ".join(" ".join(nfq.texts(pc)) for pc in pcs)
    ok = ".chain(" in blob and ".rev()" in blob
    ctx.ob("R16.2", "find_uri-innermost-first", ok, "iterates ancestors' maps then the current map, reversed (innermost first)")
    ok = any(any(a == "loop-end" and args == ("break",) for a, args in pc["actions"]) and any(v and "matches Some(_)" in g for g, v in pc["guards"].items()) for pc in pcs)
    ctx.ob("R16.2", "find_uri-stops-at-first-binding", ok, "the first map that has an entry for the prefix decides (an un-binding entry included)")
    key, pcs = nfq.cells(ctx, TB, "::bind_attr_qname")
    ok = all(("self.bind_qname" in nfq.names(pc)) == (gval(pc["guards"], "p2.prefix matches Some(_)") is True) for pc in nfq.feasible(pcs))
    ctx.ob("R16.2", "unprefixed-attributes-have-no-namespace", ok, "attributes are resolved only when they have a prefix")
    key, pcs = nfq.cells(ctx, TB, "::process_namespaces")
    bad = None
    seen = set()
    for pc in nfq.feasible(pcs):
        names = nfq.names(pc)
        d = [i for i, x in enumerate(names) if x == "self.declare_ns"]
        a = [i for i, x in enumerate(names) if x == "self.bind_attr_qname"]
        q = [i for i, x in enumerate(names) if x == "self.bind_qname"]
        seen |= {x for x in names if x in ("self.declare_ns", "self.bind_attr_qname")}
        if len(q) != 1:
            bad = "the tag's own name is not bound exactly once on a path"
            continue
        if any(i > j for i in d for j in a + q) or any(i > q[0] for i in a):
            bad = "order is %s" % [x for x in names if x in ("self.declare_ns", "self.bind_attr_qname", "self.bind_qname")]
    if bad is None and seen != {"self.declare_ns", "self.bind_attr_qname"}:
        bad = "declare_ns / bind_attr_qname are never reached"
    # the declarations collected for this tag are taken out of current_namespace on EVERY path (pushed as the element's scope
    # or dropped): left in place they would still be in force for whatever follows an empty-element tag
    resets = None
    for pc in nfq.feasible(pcs):
        k = sum(1 for a, _ in pc["actions"] if a in ("replace self.current_namespace", "take self.current_namespace"))
        q = [i for i, x in enumerate(nfq.names(pc)) if x == "self.bind_qname"]
        r = [i for i, x in enumerate(nfq.names(pc)) if x in ("replace self.current_namespace", "take self.current_namespace")]
        if k != 1 or not q or r[0] < q[0]:
            resets = "a path of process_namespaces %s: the tag's declarations stay in current_namespace and are still in force for the following content" % (
                "does not empty current_namespace" if k == 0 else "empties current_namespace %d times or before the tag's own name is bound" % k)
    ctx.ob("R16.3", "current-namespace-emptied-on-every-path", resets is None, resets or "current_namespace is replaced by an empty map exactly once on every path, after the tag's name is bound")
    ctx.ob("R16.3", "declarations-before-binding", bad is None, bad or "declarations are processed first, then attribute names are bound, then the tag's own name")


def r16_4(ctx):
    T = ctx.tables("xml")
    fa = T["helpers"].get("finish_attribute")
    if not fa:
        raise AnchorMissing("xml finish_attribute not tabulated")
    labels = [g for pc in fa for g in pc["guards"] if ".any(" in g and "current_tag_attrs" in g]
    if not labels:
        raise AnchorMissing("xml finish_attribute: duplicate test not found")
    g = labels[0]
    ok = (".name.prefix" in g and ".name.local" in g) or re.search(r"a1\.name ==", g) is not None
    ctx.ob("R16.4", "tokenizer-dedup-compares-qualified-names", ok,
           "the tokenizer's duplicate test is `%s`: the raw (possibly prefixed) name of the new attribute is compared with the *local* part of earlier ones, so <e m:x='1' x='2'/> drops the unprefixed x although the expanded names differ" % g[g.index(".any("):][:90]
           if not ok else "an attribute is dropped by the tokenizer only when prefix and local name both equal an earlier attribute's", "xml5ever tokenizer finish_attribute")
    drops = [pc for pc in fa if any(v and ".any(" in g2 for g2, v in pc["guards"].items())]
    ok = all(not any(a.endswith("current_tag_attrs.push") or a.endswith("current_tag_attrs.insert") for a, _ in pc["actions"]) for pc in drops)
    ctx.ob("R16.4", "duplicate-path-does-not-store", ok, "the duplicate path stores nothing")


def r16_6(ctx):
    """NamespaceMap::insert_ns: every declaration that is accepted (answer Ok) and is not the reserved xml prefix is RECORDED in the
    element's own scope: a non-empty value as the binding Some(ns), an empty value as the un-binding entry None (which find_uri
    treats as 'this scope decides: not bound') - never by removing an entry, which would let an ancestor's binding show through"""
    key, pcs = nfq.cells(ctx, TB, "NamespaceMap::insert_ns")
    bad = None
    k = 0
    for pc in nfq.feasible(pcs):
        if not str(pc["ret"]).startswith("Ok("):
            continue
        g = pc["guards"]
        if any(v and 'matches "xml"' in x for x, v in g.items()):
            continue  # the reserved xml prefix: accepted, nothing to record
        k += 1
        empty = gval(g, "p1.value.is_empty()")
        ins = [args for a, args in pc["actions"] if a == "self.scope.insert"]
        other = [a for a, _ in pc["actions"] if a.startswith("self.scope.") and a not in ("self.scope.insert", "self.scope.contains_key", "self.scope.get")]
        if other or len(ins) != 1:
            bad = "an accepted declaration is not recorded by exactly one insert into the scope (%s): an empty declaration that only removes an entry does not un-bind what an ancestor bound" % (other or "no insert")
        elif empty is True and str(ins[0][1]) != "None":
            bad = "an empty declaration records %s, not the un-binding entry None" % ins[0][1]
        elif empty is False and not str(ins[0][1]).startswith("Some("):
            bad = "a non-empty declaration records %s, not a binding Some(ns)" % ins[0][1]
    ctx.ob("R16.6", "declarations-are-recorded-in-the-own-scope", bad is None and k >= 5, bad or "%d accepted declarations, each one insert: Some(ns) or the un-binding None" % k, "xml5ever tree_builder NamespaceMap::insert_ns")


def r16_9(ctx):
    """the element stack of the XML tree builder, which carries the namespace scopes (R16.1): an end tag closes only if an element
    with the same EXPANDED name (namespace and local name) is open - then everything above it and the element itself go, nothing
    more; a start tag's element is created from the bound name, appended to the current node and pushed; an empty-element tag's
    element is appended and NOT pushed (its scope ends at once)"""
    key, pcs = nfq.cells(ctx, TB, "::close_tag")
    bad = None
    seen = set()
    for pc in nfq.feasible(pcs):
        acts = [(a, tuple(str(x) for x in args)) for a, args in pc["actions"]]
        names = [a for a, _ in acts]
        opn = [v for g, v in pc["guards"].items() if g.startswith("self.tag_in_open_elems(p1)")]
        pops = [(a, args) for a, args in acts if a in ("self.pop_until", "self.pop", "self.open_elems.pop", "self.open_elems.truncate")]
        if not opn:
            bad = "the end tag is handled without asking whether a matching element is open"
        elif opn[0]:
            seen.add("open")
            if [a for a, _ in pops] != ["self.pop_until", "self.pop"] or not re.fullmatch(r"\|\.\.\|\{?\((a1 == p1\.name\.expanded\(\)|p1\.name\.expanded\(\) == a1)\)\}?", pops[0][1][0]):
                bad = "a matching open element: pops are %s; everything above the element with the tag's expanded name goes, then that element - the namespace scopes follow the element stack, so one pop too many or too few shifts every later prefix lookup" % (pops,)
        else:
            seen.add("not-open")
            if pops:
                bad = "no matching element is open but %s is popped" % [a for a, _ in pops]
    key, pcs = nfq.cells(ctx, TB, "::tag_in_open_elems")
    for pc in nfq.feasible(pcs):
        for g in pc["guards"]:
            if "self.open_elems" in g and not re.search(r"elem_name\(a1\)\.expanded\(\) == p1\.name\.expanded\(\)|p1\.name\.expanded\(\) == self\.sink\.elem_name\(a1\)\.expanded\(\)", g):
                bad = "tag_in_open_elems compares %s, not the expanded names (namespace and local name)" % g[-80:]
    ctx.ob("R16.9", "end-tag-closes-by-expanded-name", bad is None and seen == {"open", "not-open"}, bad or "matching expanded name open -> pop until it, then pop it; otherwise nothing", "xml5ever tree_builder close_tag")
    bad = None
    for fn, tail in (("::insert_tag", "self.add_to_open_elems"), ("::append_tag", "self.sink.pop")):
        key, pcs = nfq.cells(ctx, TB, fn)
        for pc in nfq.feasible(pcs):
            acts = [(a, tuple(str(x) for x in args)) for a, args in pc["actions"]]
            el = "create_element(self.sink,p1.name,p1.attrs)"
            want = [("call create_element", ("self.sink", "p1.name", "p1.attrs")), ("self.insert_appropriately", ("AppendNode(%s)" % el,)), (tail, (el,))]
            if acts != want:
                bad = "%s does %s; expected: create the element from the tag's (bound) name and attributes, append it to the current node, then %s" % (
                    fn[2:], [a for a, _ in acts], "push it on the stack of open elements" if fn == "::insert_tag" else "tell the sink it is complete - without pushing it")
    key, pcs = nfq.cells(ctx, TB, "::insert_appropriately")
    for pc in nfq.feasible(pcs):
        ap = [tuple(str(x) for x in args) for a, args in pc["actions"] if a == "self.sink.append"]
        if len(ap) != 1 or ap[0][1] != "p1" or not re.search(r"current_node\(", ap[0][0]):
            bad = "insert_appropriately appends %s" % (ap,)
    ctx.ob("R16.9", "start-and-empty-tags", bad is None, bad or "start tag: created, appended to the current node, pushed; empty tag: created, appended, completed, not pushed", "xml5ever tree_builder insert_tag / append_tag")


def r16_8(ctx):
    """bind_attr_qname answers 'drop this attribute' (false) only when check_duplicate_attr found an earlier attribute with the
    same expanded name; in particular an attribute whose prefix is not bound is reported and KEPT"""
    key, pcs = nfq.cells(ctx, TB, "::bind_attr_qname")
    bad = None
    drops = 0
    for pc in nfq.feasible(pcs):
        ret = str(pc["ret"])
        dup = [v for g, v in pc["guards"].items() if "check_duplicate_attr(" in g]
        if ret == "false":
            drops += 1
            if not dup or dup[-1] is not False:
                why = [g[:60] for g, v in pc["guards"].items() if not v][:2]
                bad = "the attribute is dropped on a path where check_duplicate_attr did not answer 'duplicate' (%s): an attribute is lost for another reason than an earlier attribute with the same expanded name (e.g. an unbound prefix)" % why
        elif ret == "true":
            if dup and dup[-1] is False:
                bad = "a duplicate found by check_duplicate_attr is kept"
        elif "check_duplicate_attr" not in ret:
            bad = "bind_attr_qname answers %s" % ret[:60]
    ctx.ob("R16.8", "attribute-dropped-only-as-duplicate", bad is None and drops >= 1, bad or "false only where check_duplicate_attr answered false", "xml5ever tree_builder bind_attr_qname")


def run(ctx):
    ctx.rule("R16.13", "the duplicate test keys on (ns, local) in test and insert alike; bind_qname writes only name.ns, from find_uri(name.prefix)")
    ctx.guard("R16.13", "keys-and-binding", lambda: r16_13(ctx))
    ctx.rule("R16.12", "no attribute value without a name: a value collected with no attribute started never reaches the next tag's (xmlns) attribute")
    from . import tokrules as _tr12
    ctx.guard("R16.12", "value-without-name", lambda: _tr12.no_value_without_name(ctx, "R16.12", "xml"))
    ctx.rule("R16.11", "the prefixes xml and xmlns are fixed: insert_ns never stores a binding for them")
    ctx.guard("R16.11", "fixed-prefixes", lambda: r16_11(ctx))
    ctx.rule("R16.10", "an attribute is a namespace declaration iff its prefix is xmlns or it is the unprefixed attribute xmlns (all six (prefix, local) points of both filter predicates of process_namespaces, read from the syntax tree); the declaring and the binding pass are complements")
    from . import nsdecl
    ctx.guard("R16.10", "declaration-predicates", lambda: nsdecl.declaration_predicates(ctx, "R16.10"))
    ctx.rule("R16.9", "the element stack that carries the namespace scopes: end tags close by expanded name, start tags push, empty tags do not")
    ctx.guard("R16.9", "element-stack", lambda: r16_9(ctx))
    ctx.rule("R16.8", "an attribute is dropped only as a duplicate by expanded name - never because its prefix is unbound")
    ctx.guard("R16.8", "drop-only-duplicates", lambda: r16_8(ctx))
    ctx.rule("R16.7", "the tokenizer's finish_attribute empties the value buffer on every path: a dropped duplicate's value never leaks into the next (possibly xmlns) attribute")
    from . import tokrules as _tr7
    ctx.guard("R16.7", "attr-buffers/xml", lambda: _tr7.attr_buffers_emptied(ctx, "R16.7", "xml"))
    ctx.rule("R16.6", "insert_ns records every accepted declaration in the element's own scope (Some(ns), or None for an empty value)")
    ctx.guard("R16.6", "insert_ns", lambda: r16_6(ctx))
    ctx.rule("R16.1", "over phase x kind x is_script: scope push == open-element push; pop() removes both together and is the only remover")
    ctx.rule("R16.2", "find_uri innermost-first, first binding decides; only prefixed attributes are resolved")
    ctx.rule("R16.3", "process_namespaces: declarations, then attribute names, then the tag name")
    ctx.rule("R16.4", "de-duplication keys: qualified name in the tokenizer, expanded name after binding in the tree builder")
    ctx.rule("R16.5", "normal forms of the XML tree builder, qname.rs and the tokenizer's attribute functions equal the reviewed reference")
    ctx.guard("R16.1", "balance", lambda: r16_1(ctx))
    ctx.guard("R16.2", "lookup", lambda: r16_2_3(ctx))
    ctx.guard("R16.4", "dedup", lambda: r16_4(ctx))

    def attr_order():
        """the tokenizer extends a tag's attribute list only by push (ordinary attribute) or insert(0, _) (namespace declaration):
        the attributes that are not declarations keep their source order, and nothing permutes the list"""
        T = ctx.tables("xml")
        pcs = T["helpers"].get("finish_attribute")
        if not pcs:
            raise AnchorMissing("xml tokenizer finish_attribute not tabulated")
        bad = None
        k = 0
        for pc in pcs:
            for a, args in pc["actions"]:
                if a.startswith("self.current_tag_attrs."):
                    k += 1
                    m = a.rsplit(".", 1)[-1]
                    decl = any(v and ("matches atom:xmlns" in g or "matches Some(atom:xmlns)" in g) for g, v in pc["guards"].items())
                    if m == "push" and not decl:
                        continue
                    if m == "insert" and decl and args and str(args[0]) == "0":
                        continue
                    bad = "finish_attribute does `current_tag_attrs.%s(%s)` on a %s path: the relative order of the tag's attributes is not preserved" % (m, ",".join(str(x)[:30] for x in args), "declaration" if decl else "non-declaration")
        ctx.ob("R16.4", "attribute-list-order-preserved", bad is None and k >= 3, bad or "%d writes: push for attributes, insert(0, _) for namespace declarations, nothing else" % k, "xml5ever tokenizer finish_attribute")

    ctx.guard("R16.4", "attr-order", attr_order)
    ctx.guard("R16.5", "nf-tb", lambda: nf_common.nf_rule(ctx, "R16.5", TB, floor=45))
    ctx.guard("R16.5", "nf-tok-misc", lambda: nf_common.nf_rule(ctx, "R16.5", "xml_tokenizer_misc", only=("process_qname", "equiv_modulo_attr_order")))
    ctx.guard("R16.5", "nf-qname", lambda: nf_common.nf_rule(ctx, "R16.5", "xml_driver", only=("qname",)))

    def tok():
        from . import tok_common

        T = ctx.tables("xml")
        R = ctx.ref("xml_tokenizer.json")
        h = mc.from_json(R["helpers"])
        for fn in ("finish_attribute", "create_attribute", "emit_current_tag", "create_tag"):
            diffs = []
            mc.compare_projected({fn: h.get(fn)}, {fn: T["helpers"].get(fn)}, lambda k, st, d: diffs.append((k, d)))
            if diffs:
                ctx.advise("R16.5", "tokenizer/fn=%s/%s" % (fn, diffs[0][0]), diffs[0][1][:500])
            else:
                ctx.ob("R16.5", "tokenizer/fn=%s" % fn, True, "equals the reference")

    ctx.guard("R16.5", "nf-tokenizer", tok)


def r16_11(ctx):
    """the prefixes xml and xmlns are fixed: no path of insert_ns records a binding for the key Some(local) unless, for an
    xmlns:-prefixed declaration, it has found the local name to be neither "xml" nor "xmlns" (xmlns:xml="other" and
    xmlns:xml="" are refused, never stored; xmlns:xml="<the XML namespace>" is accepted and stores nothing)"""
    key, pcs = nfq.cells(ctx, TB, "::insert_ns")
    bad = None
    n = 0
    for pc in nfq.feasible(pcs):
        ins = [args for a, args in pc["actions"] if str(a).endswith("scope.insert") and args and str(args[0]).startswith("Some(")]
        if not ins:
            continue
        g = pc["guards"]
        if not any(v is True and re.fullmatch(r"p1\.name\.prefix matches Some\(atom:xmlns\)(#\d+)?", k) for k, v in g.items()):
            continue  # infeasible combination for a prefixed key, or an unprefixed xmlns (key None)
        n += 1
        for nm in ("xml", "xmlns"):
            vals = [v for k, v in g.items() if re.fullmatch(r'p1\.name\.local matches "%s"(#\d+)?' % nm, k)]
            if not vals or any(vals):
                bad = bad or 'a binding is stored for an xmlns:-prefixed declaration without having excluded the local name "%s": xmlns:%s="urn:other" re-binds a fixed prefix' % (nm, nm)
    ctx.ob("R16.11", "fixed-prefixes-never-stored", bad is None and n >= 2, bad or "%d storing paths for xmlns:-prefixed declarations, each after excluding xml and xmlns" % n, "xml5ever tree_builder NamespaceMap::insert_ns")


def r16_13(ctx):
    """(a) the duplicate test of bound attributes keys on the expanded name (name.ns, name.local), with the SAME key in the
    membership test and in the insert; (b) bind_qname writes nothing but name.ns, and what it writes is find_uri(name.prefix)'s
    answer (the empty namespace for an un-binding) - prefix and local name are kept as read"""
    key, pcs = nfq.cells(ctx, TB, "::check_duplicate_attr")
    bad = None
    n = 0
    for pc in nfq.feasible(pcs):
        n += 1
        keys = re.findall(r"p1\.(?:contains|insert|get|replace)\(\(?(\(.*?\))\)?\)", " ".join(list(pc["guards"]) + nfq.texts(pc) + [str(pc["ret"])]))
        for k in keys:
            if k.replace(" ", "") != "(p2.ns,p2.local)":
                bad = "the set of attributes already present is keyed with %s, not with the expanded name (ns, local)" % k
        if not keys:
            bad = bad or "no membership test / insert on the set of present attributes"
    ctx.ob("R16.13", "duplicate-key-is-the-expanded-name", bad is None and n >= 2, bad or "contains / insert both use (name.ns, name.local)", "xml5ever tree_builder check_duplicate_attr")
    key, pcs = nfq.cells(ctx, TB, "::bind_qname")
    bad = None
    n = 0
    for pc in nfq.feasible(pcs):
        n += 1
        assigns = [(a, [str(x) for x in args]) for a, args in pc["actions"] if a.startswith("assign ") or a.startswith("set ") or a.startswith("replace ") or a.startswith("take ")]
        for a, args in assigns:
            if a != "assign p1.ns":
                bad = bad or "bind_qname writes %s: binding a name must only fill in its namespace" % a
            elif not (args and (args[0].startswith("self.find_uri(p1.prefix)") or args[0].startswith("ATOM_NAMESPACE_"))):
                bad = bad or "the namespace written is %s, not the answer of find_uri(name.prefix)" % (args[:1],)
        ok_g = pc["guards"].get("self.find_uri(p1.prefix) matches Ok(_)")
        if ok_g is True and not assigns:
            bad = bad or "a prefix that is bound leaves the name without its namespace"
    ctx.ob("R16.13", "bind_qname-writes-only-the-namespace", bad is None and n >= 3, bad or "ns := find_uri(prefix) (or the empty namespace); prefix and local untouched", "xml5ever tree_builder bind_qname")
