"""C08 — diagnostic and housekeeping options never change what is parsed (DESIGN 4.C08)."""
import re

from lib import machine as mc
from lib.ast import walk, recv_path
from lib.flat import show
from lib.mir import AnchorMissing
from . import tokrules as tr
from . import nf_common

MANIFEST = {
    "text": "Every read of exact_errors / profile / drop_doctype / discard_bom in both tokenizers and both tree builders is classified from the code: message-only (selects the wording or presence of a parse error), timing-only, or path-select; path-select sites are proved equivalent by table rules (fast-path sets complete, SIMD masks == scalar set, all fast/slow/SIMD variants of a state tabulate identically). discard_bom is read only in feed() and cleared after the first character; drop_doctype guards exactly the append_doctype call.",
    "note": "Decides R08.1-R08.3. Not decided: the SIMD newline-count arithmetic beyond the mask sets; cfg(for_c) configuration. Trusted: flattening engine. Also decided: split-before-whitespace-decision in every whitespace-sensitive insertion mode (R08.4). Round 8: R08.6 = input stream preprocessing transcription for both tokenizers (exact_errors only adds the report), R08.7 feed() drops at most one BOM character and answers what run() answered.",
    "technique": "syntactic-context classification of option reads (who-may-read) + table equivalence of path-select variants",
}
LEVEL = "other"
EXPLANATION = """
R08.1 fast-path sets complete (HTML 10 sites, XML 4): slow path == fast path.  R08.2 the SSE2 masks, the NEON masks
(read cfg-blind), the scalar tail, the first-character pre-test and the small_char_set of the Data arm denote the
same stop set {<,&,CR,NUL} with LF counted and passed through.  R08.3 every option read is message-only, timing-only
or path-select; all path-select variants of every state agree pointwise.
"""
ASSUMPTIONS = ["cfg(for_c) is false in every cargo build"]


# ------------------------------------------------------------------ R08.2
def _lets(body):
    out = {}

    def f(n):
        if n.get("k") == "Let" and n["pat"].get("k") == "PIdent" and n.get("init") is not None:
            out.setdefault(n["pat"]["name"], n["init"])

    walk(body, f)
    return out


def _char_of(e):
    if e["k"] == "Cast":
        return _char_of(e["e"])
    if e["k"] == "Lit" and e["t"] == "char":
        return e["v"]
    if e["k"] == "Lit" and e["t"] == "byte":
        return chr(e["v"])
    return None


def _chars_of(e, lets, depth=0):
    if depth > 12:
        return None
    k = e["k"]
    if k == "Path" and e["path"] in lets:
        return _chars_of(lets[e["path"]], lets, depth + 1)
    if k == "Call":
        fn = show(e["f"])
        args = e["args"]
        if fn in ("_mm_set1_epi8", "vdupq_n_u8") and len(args) == 1:
            c = _char_of(args[0])
            return None if c is None else {c}
        if fn in ("_mm_cmpeq_epi8", "vceqq_u8") and len(args) == 2:
            return _chars_of(args[1], lets, depth + 1)
        if fn in ("_mm_or_si128", "vorrq_u8") and len(args) == 2:
            a, b = _chars_of(args[0], lets, depth + 1), _chars_of(args[1], lets, depth + 1)
            return None if a is None or b is None else a | b
        if fn in ("_mm_movemask_epi8", "vmaxvq_u8") and len(args) == 1:
            return _chars_of(args[0], lets, depth + 1)
    return None


def _macro_bytes(tokens):
    return {bytes(m, "utf-8").decode("unicode_escape") for m in re.findall(r"b'((?:\\.|[^'\\])+)'", tokens)}


def r08_2(ctx):
    items = ctx.ast.raw("html5ever/src/tokenizer/mod.rs")
    fns = {it["name"]: it for it in items if it["k"] == "Fn" and it.get("body") is not None}
    STOP = {"<", "&", "\r", "\0"}
    n = 0
    for name in ("data_state_sse2_fast_path", "data_state_neon_fast_path"):
        if name not in fns:
            raise AnchorMissing("raw fn %s not found" % name)
        lets = _lets(fns[name]["body"])
        got = _chars_of({"k": "Path", "path": "bitmask"}, lets)
        nl = _chars_of({"k": "Path", "path": "newline_mask"}, lets) if "newlines" not in lets else _chars_of({"k": "Path", "path": "newlines"}, lets)
        n += 1
        ctx.ob("R08.2", "simd-stop-set/%s" % name, got == STOP, "mask set is %s, scalar stop set is %s" % (sorted(got or []), sorted(STOP)), "html5ever/src/tokenizer/mod.rs " + name)
        ctx.ob("R08.2", "simd-newline-mask/%s" % name, nl == {"\n"}, "newline mask compares against %s" % sorted(nl or []))
        # position / counting macros inside (NEON uses matches! for the position)
        for m in [x for x in _all_macros(fns[name]["body"]) if x["path"] == "matches"]:
            b = _macro_bytes(m["tokens"])
            n += 1
            ctx.ob("R08.2", "simd-position-test/%s" % name, b == STOP, "position test uses %s" % sorted(b))
    tail = fns.get("data_state_simd_fast_path")
    if not tail:
        raise AnchorMissing("data_state_simd_fast_path")
    # the scalar tail after the SIMD blocks: the bytes on which its loop stops, and the byte it counts as a line break, read from the
    # normal form (whatever shape the loop has: matches!, a match with arms, an if chain)
    from . import nfq as _nfq
    key, pcs = _nfq.cells(ctx, "html_tokenizer_simd", "::data_state_simd_fast_path")
    tested = set()
    for pc in _nfq.feasible(pcs):
        for g in pc["guards"]:
            m = re.fullmatch(r"(.*\.as_bytes\(\)\.get\(.*\)\.0|item) matches ([0-9|]+)(#\d+)?", g)
            if m and m.group(1) == "item" and not any(x.startswith("loop-begin for _ in") and ".as_bytes()" in x for x in _nfq.texts(pc)):
                m = None
            if m:
                tested |= {int(x) for x in m.group(2).split("|")}
    if not tested:
        # the tail written with iterator adaptors: `.position(stop predicate)` and `.filter(line feed predicate).count()`
        from . import predtable as pt
        its = [it for it in ctx.ast.walkable("html5ever") if it["k"] == "Fn" and it["name"] == "data_state_simd_fast_path" and it.get("body") is not None]
        for it in its:
            for m, chain, clo in pt.closures_in(it, ("position", "find", "take_while", "filter", "any")):
                try:
                    ts = pt.truth_set(ctx, "html5ever", clo, False)
                except AnchorMissing:
                    ts = None
                if ts is None:
                    continue
                if m == "take_while":
                    ts = set(range(256)) - ts
                tested |= ts
    stop_bytes = {ord(c) for c in STOP}
    ctx.ob("R08.2", "scalar-tail-stop-set", tested - {10} == stop_bytes, "scalar tail stops on %s" % sorted(chr(b) for b in tested - {10}))
    n += 1
    ctx.ob("R08.2", "scalar-tail-counts-newline", 10 in tested, "the tail tests for the line feed it counts")
    # Data arm: first-char pre-test and small_char_set both = STOP + LF (expanded view)
    T = ctx.tables("html")
    pre = None
    dataset = None
    for c in T["raw"]["step"]["Data"]:
        for k, l, ch in c["choices"]:
            if k == "guard" and l.startswith("front_buffer.chars()") and " matches " in l:
                pre = set(eval("[" + l.split(" matches ")[1].replace("|", ",") + "]"))
            if k == "acq" and l.startswith("pop_except_from{") and "simd" not in l:
                dataset = tr._set_of_label(l)
    ctx.ob("R08.2", "data-arm-pretest-set", pre == STOP | {"\n"}, "pre-test set %s" % sorted(pre or []))
    ctx.ob("R08.2", "data-arm-small_char_set", dataset == STOP | {"\n"}, "small_char_set %s" % sorted(dataset or []))
    ctx.floor("R08.2", "mask-sites", n, 4)


def _all_macros(body):
    out = []

    def f(n):
        if n.get("k") == "Macro":
            out.append(n)

    walk(body, f)
    return out


def show_body(body):
    import json

    return json.dumps(body)


# ------------------------------------------------------------------ R08.3 tree builders
OPTS = ("exact_errors", "profile", "drop_doctype", "discard_bom")


def _walk_p(node, parents, fn):
    if isinstance(node, dict):
        if "k" in node:
            fn(node, parents)
            parents = parents + [node]
        for key, v in node.items():
            if isinstance(v, (dict, list)):
                _walk_p(v, parents, fn)
    elif isinstance(node, list):
        for v in node:
            _walk_p(v, parents, fn)


def _is_message_expr(e):
    """Cow::from(..) / Borrowed(..) / Owned(..) / format! results / string literals"""
    k = e.get("k")
    if k == "Lit":
        return e["t"] == "str"
    if k == "Call":
        f = show(e["f"])
        if f.split("::")[-1] in ("from", "Borrowed", "Owned", "must_use", "format", "to_escaped_string"):
            return all(_is_message_arg(a) for a in e["args"])
    if k == "Macro" and e["path"] in ("format_args", "format"):
        return True
    if k == "Block" and len(e["body"]) == 1 and e["body"][0]["k"] == "ExprStmt":
        return _is_message_expr(e["body"][0]["e"])
    return False


def _is_message_arg(a):
    if _is_message_expr(a):
        return True
    if a.get("k") in ("Lit", "Macro", "Path", "Ref", "Field", "MethodCall"):
        return True
    return False


def _single_expr(block):
    stmts = [s for s in block if not (s["k"] == "ExprStmt" and s["e"].get("k") == "Block" and _is_log(s["e"]))]
    if len(stmts) == 1 and stmts[0]["k"] == "ExprStmt":
        return stmts[0]["e"]
    return None


def _is_log(e):
    from lib.ast import is_log_block

    return is_log_block(e)


def r08_3_builders(ctx):
    sites = 0
    for crate, mods in (("html5ever", ("tree_builder",)), ("xml5ever", ("tree_builder",)), ("html5ever", ("driver",)), ("xml5ever", ("driver",))):
        for it in ctx.ast.walkable(crate):
            if it["k"] != "Fn" or it.get("body") is None or not any(m in it["mod"] for m in mods):
                continue
            if it["name"] in ("default",):
                continue

            def visit(n, parents, it=it, crate=crate):
                nonlocal sites
                if n.get("k") != "Field" or n["name"] not in OPTS:
                    return
                rp = recv_path(n)
                if rp is None or ".opts." not in "." + rp:
                    return
                sites += 1
                opt = n["name"]
                # find the enclosing If whose condition is (a negation of) this read
                ifn = None
                for p in reversed(parents):
                    if p.get("k") == "If":
                        c = p["cond"]
                        while c.get("k") == "Unary" and c["op"] == "!":
                            c = c["e"]
                        if c is n:
                            ifn = p
                        break
                    if p.get("k") in ("Unary",):
                        continue
                    break
                key = "option-read/%s/%s::%s/%s" % (opt, crate, it["name"], opt)
                where = "%s %s::%s" % (crate, it["mod"], it["name"])
                if ifn is None:
                    ctx.ob("R08.3", key, False, "option is read outside a plain `if opts.%s` test: cannot be classified as message-only" % opt, where)
                    return
                if opt == "exact_errors":
                    t = _single_expr(ifn["then"])
                    e = ifn.get("else")
                    e = _single_expr(e["body"]) if e and e.get("k") == "Block" else None
                    ok = t is not None and e is not None and _is_message_expr(t) and _is_message_expr(e)
                    ctx.ob("R08.3", key, ok, "selects the wording of a parse error only" if ok else "branches of `if exact_errors` are not message expressions: parsing may depend on the option", where)
                elif opt == "drop_doctype":
                    body = [s for s in ifn["then"]]
                    ok = ifn.get("else") is None and len(body) == 1 and body[0]["k"] == "ExprStmt" and body[0]["e"].get("k") == "MethodCall" and body[0]["e"]["m"] == "append_doctype_to_document"
                    ctx.ob("R08.3", key, ok, "guards exactly the append_doctype_to_document call" if ok else "`if !drop_doctype` guards more than the doctype append (e.g. the quirks-mode decision)", where)
                else:
                    ctx.ob("R08.3", key, False, "unexpected option read in a tree builder / driver", where)

            _walk_p(it["body"], [], visit)
    ctx.floor("R08.3", "builder-option-reads", sites, 7)


def split_before_whitespace_decision(ctx, rule):
    """how the tokenizer cuts text into character tokens depends on its options and on the chunking; a mode of the tree builder that
    treats whitespace differently from other text therefore first has an unsplit token split (ProcessResult::SplitWhitespace) and
    decides on the pieces - it never lets the whitespace-ness of a whole unsplit token decide"""
    from . import nfq
    key, pcs = nfq.cells(ctx, "html_tree_builder", "rules::TreeBuilder<Handle,Sink>::step")
    fe = nfq.feasible(pcs)
    modes = {}
    for pc in fe:
        for g, v in pc["guards"].items():
            m = re.fullmatch(r"p1 matches (\w+)", g)
            if m and v:
                modes.setdefault(m.group(1), []).append(pc)
    n = 0
    for mode, cells in sorted(modes.items()):
        distinguishes = any(re.search(r"p2 matches Characters\((Whitespace|NotWhitespace)", g) for pc in cells for g in pc["guards"])
        whole = [pc for pc in cells if any(g.startswith("any_not_whitespace(p2.1)") for g in pc["guards"])
                 and not any(v and re.search(r"p2 matches Characters\((Whitespace|NotWhitespace)", g) for g, v in pc["guards"].items())
                 and not any((not v) and re.search(r"p2 matches Characters\(NotSplit", g) for g, v in pc["guards"].items())]
        # ... except where the only thing the test decides is the frameset-ok flag going to false: "some piece is not whitespace"
        # is the same however the text is cut
        def rest(pc):
            return {g: v for g, v in pc["guards"].items() if not g.startswith("any_not_whitespace(p2.1)")}

        def wsval(pc):
            return [v for g, v in pc["guards"].items() if g.startswith("any_not_whitespace(p2.1)")][0]

        def outcome(pc):
            return (tuple(a for a in nfq.names(pc) if a not in ("set self.frameset_ok", "call any_not_whitespace")), str(pc["ret"]))
        from lib import machine as _mc
        decisive = []
        for x in whole:
            for y in whole:
                if wsval(x) and not wsval(y) and not _mc._guard_conflict(rest(x), rest(y)) and outcome(x) != outcome(y):
                    decisive.append(x)
                    break
        whole = decisive
        if not distinguishes and not whole:
            continue
        n += 1
        splits = [pc for pc in cells if any(v and re.search(r"p2 matches Characters\(NotSplit,_\)", g) for g, v in pc["guards"].items())]
        ok = bool(splits) and all(str(pc["ret"]).startswith("SplitWhitespace(") and not [a for a in nfq.names(pc) if a != "self.debug_step"] for pc in splits) and not whole
        ctx.ob(rule, "split-before-whitespace-decision/" + mode, ok, "an unsplit character token is split first; the rules then see whitespace and non-whitespace pieces" if ok else
               "mode %s treats whitespace specially but %s: what the tree looks like then depends on how the tokenizer happened to cut the text (chunking, exact_errors)" % (
                   mode, "lets the whitespace-ness of a whole unsplit token decide" if whole else "has no arm that splits an unsplit character token"), "html5ever tree_builder rules " + mode)
    ctx.floor(rule, "whitespace-sensitive-modes", n, 8)


def run(ctx):
    ctx.rule("R08.7", "feed(): discard_bom drops at most the first character of the stream (no loop); feed answers what run() answered")
    from . import tokrules as _tr7
    for _w in ("html", "xml"):
        ctx.guard("R08.7", "feed/" + _w, lambda _w=_w: _tr7.feed_facts(ctx, "R08.7", _w))
    ctx.rule("R08.6", "= R03.16 / R15.11: with exact_errors on and off, input stream preprocessing does the same thing to every character - the error report is the only difference (an early return for reported characters would skip the pending-CR handling)")
    from . import tokrules as _tr6
    for _w in ("html", "xml"):
        ctx.guard("R08.6", "preprocessing/" + _w, lambda _w=_w: _tr6.preprocess_transcription(ctx, "R08.6", _w))
    ctx.rule("R08.5", "the SIMD scan (taken only when exact_errors is off) counts exactly the line breaks it consumes (shared with R09.6): line numbers do not depend on the option")
    def simd():
        import rules.C09 as c9
        obs_before = len(ctx.obs)
        c9.r09_6(ctx)
        for o in ctx.obs[obs_before:]:
            if o["rule"] == "R09.6":
                o["rule"] = "R08.5"
        for k in [k for k in ctx.floors if k.startswith("R09.6.")]:
            ctx.floors["R08.5." + k[len("R09.6."):]] = ctx.floors.pop(k)
    ctx.guard("R08.5", "simd", simd)
    ctx.rule("R08.4", "every insertion mode that treats whitespace specially splits an unsplit character token first (SplitWhitespace)")
    ctx.guard("R08.4", "split", lambda: split_before_whitespace_decision(ctx, "R08.4"))
    ctx.rule("R08.1", "for every pop_except_from site S contains the arm's special characters and everything get_preprocessed_char rewrites: slow path == fast path (HTML and XML)")
    ctx.rule("R08.2", "SSE2 masks, NEON masks, scalar tail, first-char pre-test and small_char_set of the Data arm denote the same stop set")
    ctx.rule("R08.3", "every read of exact_errors/profile/drop_doctype/discard_bom is message-only, timing-only or path-select; path-select variants agree; discard_bom read only in feed and cleared")
    ctx.guard("R08.1", "sets/html", lambda: tr.fastpath_sets(ctx, "R08.1", "html", 10))
    ctx.guard("R08.1", "sets/xml", lambda: tr.fastpath_sets(ctx, "R08.1", "xml", 4))
    ctx.guard("R08.2", "simd", lambda: r08_2(ctx))
    ctx.guard("R08.2", "nf-simd", lambda: nf_common.nf_rule(ctx, "R08.2", "html_tokenizer_simd", floor=3))
    for w in ("html", "xml"):
        ctx.guard("R08.3", "options/" + w, lambda w=w: tr.option_invariance(ctx, "R08.3", w, exempt={"pop_except_from": "selects the character-by-character path; equivalence is R08.1"}))
        ctx.guard("R08.3", "bom/" + w, lambda w=w: tr.bom_rule(ctx, "R08.3", w))
    ctx.guard("R08.3", "builders", lambda: r08_3_builders(ctx))
    for w in ("html", "xml"):
        ctx.guard("R08.1", "wrapper-gate/" + w, lambda w=w: tr.wrapper_fast_path_gate(ctx, "R08.1", w))
    ctx.guard("R08.3", "raw-path-gate", lambda: ctx.floor("R08.3", "raw-path-sites", tr.raw_path_gate(ctx, "R08.3", "html"), 1))
