"""C14 — every character reference resolves to its WHATWG value (DESIGN 4.C14)."""
import html.entities
import os
import re

from lib import machine as mc
from lib.flat import Config, showv, scalar_consts
from lib.mir import AnchorMissing
from lib.ast import walk
from . import tok_common
from .guardlib import gval, comparisons, lt_true, ge_true

MANIFEST = {
    "text": "Translation validation of tables against independent oracles: 2231 named references vs CPython's html.entities.html5, generated PHF key/value set vs names+prefix closure, C1 table vs cp1252, numeric value function of both tokenizers vs the WHATWG numeric table over an exact integer partition; longest-match bookkeeping compared in normal form with a reviewed reference. A matched name ending in ';' is always decoded and the legacy attribute exception is tested only afterwards, on the character following the match in name_buf (R14.6); the in-attribute flag is true in all three attribute value states and only there (R14.7).",
    "note": "Decides R14.1-R14.7. Trusted: CPython's entity table and codec, phf lookup, review of the char-ref normal forms. Not decided: run-time behaviour of StrTendril slicing inside finish_named. Also decided: split references wait for input; end() un-consumes into the queue it runs (R14.9). Round 6: end of input per char-ref state (R14.10), hex marker given back as read (R14.11), R14.6 also for xml5ever. Round 8: R14.12 the character-reference sub-tokenizer state by state against a transcription of the WHATWG character reference states (HTML; xml5ever's twin for all states but Begin), finish_named's decoding path, unconsume_name; R14.4 C1 range exact (cp1252 decides which table path is feasible).",
    "technique": 'table equality against independent oracles + decision-tree flattening over an integer partition',
}
LEVEL = "translation_validation"
EXPLANATION = """
The named-reference table of web_atoms (source table and the generated PHF map with its prefix closure), the C1
replacement table and the numeric-reference value function of both tokenizers are compared entry by entry /
interval by interval with independent oracles (CPython's html.entities.html5, the cp1252 codec, the WHATWG numeric
table restated in the rule); longest-match bookkeeping of the character-reference sub-tokenizers is compared in
normal form with the reviewed reference.  The PHF lookup itself (phf crate) is trusted.
R14.6 semicolon before legacy exception, characters taken from name_buf; R14.7 in-attribute flag over all AttributeValue states.
"""
ASSUMPTIONS = ["CPython html.entities.html5 is a faithful transcription of WHATWG entities.json", "phf::Map lookup is correct", "ref/*_tokenizer.json char-ref normal forms were reviewed"]
_st = {"n": 0, "programs": 0}


def _static_array(items, name):
    for it in items:
        if it["k"] == "Static" and it["name"] == name:
            return it
    raise AnchorMissing("static %s not found" % name)


def entities_source(ctx):
    items = ctx.ast.raw("web_atoms/entities.rs")
    st = _static_array(items, "NAMED_ENTITIES")
    out = []
    for el in st["init"]["elems"]:
        n, a, b = el["elems"]
        out.append((n["v"], int(a["v"]), int(b["v"])))
    return out


def r14_1(ctx):
    ents = entities_source(ctx)
    ctx.floor("R14.1", "entries", len(ents), 2231)
    oracle = {}
    for k, v in html.entities.html5.items():
        cps = [ord(c) for c in v]
        oracle["&" + k] = (cps[0], cps[1] if len(cps) > 1 else 0)
    seen = {}
    bad = 0
    for name, a, b in ents:
        if name in seen:
            ctx.ob("R14.1", "entity/%s/duplicate" % name, False, "entity listed twice")
            bad += 1
        seen[name] = (a, b)
        exp = oracle.get(name)
        if exp != (a, b):
            bad += 1
            ctx.ob("R14.1", "entity/%s" % name, False, "web_atoms has %s, WHATWG (CPython table) has %s" % ((a, b), exp), "web_atoms/entities.rs")
    for name in oracle:
        if name not in seen:
            bad += 1
            ctx.ob("R14.1", "entity/%s/missing" % name, False, "WHATWG entity absent from web_atoms/entities.rs")
    ctx.ob("R14.1", "entities-table", bad == 0, "%d entries equal the oracle in both directions" % len(ents))
    _st["n"] += len(ents) + len(oracle)
    return seen


def r14_2(ctx, table):
    p = os.path.join(ctx.facts_dir, "generated", "named_entities.rs")
    if not os.path.exists(p):
        raise AnchorMissing("generated named_entities.rs not found in the build's OUT_DIR")
    txt = open(p).read()
    i = txt.index("entries:")
    ent = re.findall(r'\("((?:[^"\\]|\\.)*)",\s*\((\d+),\s*(\d+)\)\)', txt[i:])
    gen = {k: (int(a), int(b)) for k, a, b in ent}
    exp = {}
    for name, v in table.items():
        key = name[1:]
        for n in range(1, len(key)):
            exp.setdefault(key[:n], (0, 0))
    for name, v in table.items():
        exp[name[1:]] = v
    exp.setdefault("", (0, 0))
    bad = 0
    for k in sorted(set(exp) | set(gen)):
        if exp.get(k) != gen.get(k):
            bad += 1
            if bad <= 20:
                ctx.ob("R14.2", "phf-entry/%s" % k, False, "generated map has %s, expected %s (names + proper prefixes -> (0,0))" % (gen.get(k), exp.get(k)), "web_atoms OUT_DIR/named_entities.rs")
    ctx.ob("R14.2", "phf-map", bad == 0, "%d keys = names, all proper prefixes and the empty key" % len(gen))
    ctx.floor("R14.2", "keys", len(gen), 8000)
    _st["n"] += len(gen)
    # build.rs contains the prefix-closing loop (structure, cfg-blind raw view)
    items = ctx.ast.raw("web_atoms/build.rs")
    fn = [it for it in items if it["k"] == "Fn" and it["name"] == "named_entities_to_phf"]
    if not fn:
        raise AnchorMissing("web_atoms/build.rs: named_entities_to_phf not found")
    loops = []

    def f(n):
        if n.get("k") == "For" and n["iter"].get("k") == "Range":
            r = n["iter"]
            loops.append((r.get("lo") or {}).get("v"), ) if False else loops.append(n)

    walk(fn[0]["body"], f)
    ok = False
    for lp in loops:
        r = lp["iter"]
        lo = (r.get("lo") or {}).get("v")
        hi = r.get("hi") or {}
        if lo == 1 and not r.get("closed") and hi.get("k") == "MethodCall" and hi.get("m") == "len":
            ok = True
    ctx.ob("R14.2", "build.rs/prefix-loop 1..key.len()", ok, "the prefix closure inserts key[..n] for n in 1..len (or_insert)")


def r14_3(ctx):
    items = ctx.ast.walkable("web_atoms")
    st = _static_array(items, "C1_REPLACEMENTS")
    vals = []
    for el in st["init"]["elems"]:
        if el["k"] == "Call":
            vals.append(el["args"][0]["v"])
        else:
            vals.append(None)
    ctx.floor("R14.3", "entries", len(vals), 32)
    for i, v in enumerate(vals):
        try:
            exp = bytes([0x80 + i]).decode("cp1252")
        except UnicodeDecodeError:
            exp = None
        ctx.ob("R14.3", "c1/0x%02X" % (0x80 + i), v == exp, "table has %r, cp1252 has %r" % (v, exp), "web_atoms/lib.rs C1_REPLACEMENTS")
    _st["n"] += 32
    return vals


def c1_char(n):
    try:
        return bytes([n]).decode("cp1252")
    except UnicodeDecodeError:
        return None


def spec_numeric(n, too_big, table_says=None):
    """table_says: the path's assumption about C1_REPLACEMENTS[n - 0x80] (True = Some, False = None, None = the table was not
    consulted).  R14.3 has established that the table is cp1252, so a path that assumes the opposite is infeasible (None)."""
    if too_big or n > 0x10FFFF:
        return {repr(chr(0xFFFD))}
    if n == 0 or 0xD800 <= n <= 0xDFFF:
        return {repr(chr(0xFFFD))}
    if 0x80 <= n <= 0x9F:
        c = c1_char(n)
        if table_says is not None and table_says != (c is not None):
            return None
        if c is not None:
            return {"C1[%d]" % (n - 0x80), repr(c)}  # read from the table, or written out
        return {repr(chr(n))}
    return {repr(chr(n))}


def r14_4(ctx, which, rule="R14.4"):
    """value function of finish_numeric over an exact integer partition"""
    crate = "html5ever" if which == "html" else "xml5ever"
    items = ctx.ast.walkable(crate)
    meths = {it["name"]: it for it in items if it["k"] == "Fn" and (it.get("self_ty") or "").replace(" ", "").split("<")[0] == "CharRefTokenizer" and it.get("body") is not None}
    if "finish_numeric" not in meths:
        raise AnchorMissing("%s CharRefTokenizer::finish_numeric" % crate)
    it = meths["finish_numeric"]
    cuts = {0, 1, 0x80, 0xA0, 0xD800, 0xE000, 0x10FFFF, 0x110000, 0xFFFFFFFF}
    ints = set()

    def g(n):
        if n.get("k") == "Lit" and n.get("t") == "int":
            ints.add(int(n["v"]))

    walk(it["body"], g)
    consts = scalar_consts(items)
    for cinit in consts.values():
        walk(cinit, g)  # a bound written as a named constant is a cut point like a literal one
    for v in ints:
        cuts.update((v, v + 1))
    pts = sorted(c for c in cuts if 0 <= c <= 0xFFFFFFFF)
    samples = set()
    for a, b in zip(pts, pts[1:] + [0x100000000]):
        samples.update((a, b - 1, (a + b - 1) // 2))
    for plane in range(17):
        samples.update((plane * 0x10000 + 0xFFFE, plane * 0x10000 + 0xFFFF))
    samples = sorted(samples)
    inline = {k: v for k, v in meths.items() if k in ("finish_one",)}
    cfg = Config(acquire={}, primitives=set(), inline=inline, guards={"self.num_too_big", "tokenizer.opts.exact_errors"}, int_fields={"self.num": samples},
                 accessors=set(), consts=consts)
    from lib.flat import explore, run_body

    def runner(run):
        env = {"self": ("obj", "self"), "tokenizer": ("obj", "tokenizer")}
        return run_body(run, it["body"], env)

    paths = explore(cfg, runner)
    checked = 0
    badkeys = set()
    for p in paths:
        n = None
        too_big = None
        table_says = None
        for kind, label, chosen in p["choices"]:
            if label == "field self.num":
                n = int(chosen[1:])
            if label == "self.num_too_big":
                too_big = chosen == "true"
            if n is not None and re.fullmatch(r"C1_REPLACEMENTS\[%d\] matches Some\(_\)" % (n - 0x80), label.split("::")[-1]):
                table_says = chosen == "true"
        if n is None:
            continue
        out = p["outcome"]
        val = out[1] if len(out) > 1 else None
        txt = showv(val) if val is not None else ""
        for a, args in p["actions"]:
            if a == "assign self.result" and args:
                txt = showv(args[0])  # XML stores the result in the sub-tokenizer
        # expected shape: [Done(|Some(]CharRef(Array(<c>,'\x00'),1))
        m = re.match(r"^(?:Done|Some)\(CharRef\(Array\((.*),'\\x00'\),1\)\)$", txt)
        got = m.group(1) if m else txt
        got = re.sub(r"^C1_REPLACEMENTS\[(\d+)\]\.0$", lambda mm: "C1[%s]" % mm.group(1), got.split("::")[-1])
        for tb in ([too_big] if too_big is not None else [False, True]):
            exp = spec_numeric(n, tb, table_says)
            if exp is None:
                continue
            checked += 1
            ok = got in exp or (got.startswith("C1[") and got in exp)
            if not ok:
                cls = "too_big" if tb else ("0x%X" % n)
                key = "numeric/%s/%s" % (which, "overflow" if tb else _interval_name(n))
                if key not in badkeys:
                    badkeys.add(key)
                    ctx.ob(rule, key, False, "n=0x%X too_big=%s yields %s, WHATWG prescribes %s" % (n, tb, got, "/".join(sorted(exp))), "%s char_ref finish_numeric" % crate)
    ctx.ob(rule, "numeric-value-function/" + which, not badkeys, "%d (value, overflow) sample points over %d integer classes agree with the WHATWG table" % (checked, len(samples)))
    _st["n"] += checked
    return checked


def _interval_name(n):
    if n == 0:
        return "zero"
    if 0xD800 <= n <= 0xDFFF:
        return "surrogates"
    if 0x80 <= n <= 0x9F:
        return "c1"
    if n > 0x10FFFF:
        return "out-of-range"
    return "scalar"


def r14_4b(ctx, which, rule="R14.4"):
    """num_too_big is sticky and set before the wrapping add (from the normal form of do_numeric)"""
    T = ctx.tables(which)
    cells = T["charref"].get("do_numeric")
    if not cells:
        raise AnchorMissing("do_numeric not tabulated")
    n = 0
    for pc in cells:
        names = [a for a, _ in pc["actions"]]
        if "assign self.num" not in names:
            continue
        n += 1
        over = [g for a, op, b, v, g in comparisons(pc["guards"]) if op == "<" and a == "1114111"]  # 0x10FFFF < num
        sets_flag = [(a, args) for a, args in pc["actions"] if a == "assign self.num_too_big"]
        g_over = any(pc["guards"][g] for g in over)
        ok = True
        detail = "digit path"
        if g_over:
            ok = sets_flag == [("assign self.num_too_big", ("true",))]
            detail = "overflowing digit path sets num_too_big := true"
            if ok:
                # after the multiplication, before the (wrapping) addition of the digit
                i_flag = names.index("assign self.num_too_big")
                writes = [i for i, a in enumerate(names) if a == "assign self.num"]
                ok = len(writes) == 2 and writes[0] < i_flag < writes[1]
        else:
            ok = not sets_flag
            detail = "non-overflowing digit path leaves num_too_big untouched (sticky)"
        ctx.ob(rule, "sticky-overflow/%s/%s" % (which, "over" if g_over else "in-range"), ok, detail, "%s char_ref do_numeric" % which)
    ctx.floor(rule, "do_numeric-digit-paths/" + which, n, 2)


def semicolon_rule(ctx, rule, which="html"):
    """finish_named (HTML): a matched name whose last character is ';' is always a reference; the legacy exceptions (inside an
    attribute value, followed by '=' or an alphanumeric) leave the characters alone only after that test failed; the last matched
    character is name_buf[name_len - 1] and the character after the match is the first of name_buf[name_len..]"""
    T = ctx.tables(which)
    cells = mc.to_json({"finish_named": T["charref"]["finish_named"]})["finish_named"]
    LAST = "self.name_buf()[(self.name_len - 1)..]"
    NEXT = "self.name_buf()[self.name_len..]"
    n = 0
    nsemi = 0
    bad = None
    for c in cells:
        g = c["guards"]
        if mc._guard_conflict(g, g):
            continue
        names = [a[0] for a in c["actions"]]
        if "panic!" in names:
            continue
        matched = any(v and "self.name_match matches Some" in k for k, v in g.items()) and gval(g, "(self.name_len > 0)") is True
        if not matched:
            continue
        n += 1
        semi = [(k, v) for k, v in g.items() if re.search(r" matches ';'(#\d+)?$", k) or re.search(r" matches Some\(';'\)(#\d+)?$", k)]
        for k, v in semi:
            if not k.startswith(LAST):
                bad = "the ';' test is made on %s, not on the last matched character name_buf[name_len - 1]" % k[:80]
        if semi:
            nsemi += 1
        unconsume = "unconsume_name" in names
        if unconsume:
            if not semi or any(v for k, v in semi):
                bad = "the characters of a matched name are left alone (unconsume_name) %s: e.g. &amp;= inside an attribute value stays undecoded" % (
                    "on a path where the name ends in ';'" if semi else "without first testing that the match does not end in ';'")
                continue
            in_attr = gval(g, "self.is_consumed_in_attribute") if which == "html" else gval(g, "self.addnl_allowed matches Some(_)")
            if in_attr is None and which != "html":
                in_attr = True if g.get("self.addnl_allowed matches None") is False else None
            nxt = [(k, v) for k, v in g.items() if v and (re.search(r" matches (Some\()?'='\)?(#\d+)?$", k) or k.split("#")[0].endswith(".is_ascii_alphanumeric()"))]
            if in_attr is not True:
                bad = "the legacy exception is applied outside an attribute value"
            elif not nxt:
                bad = "the legacy exception is applied without '=' or an alphanumeric following the match"
            for k, v in nxt:
                if not k.startswith(NEXT) and not k.startswith("Some(" + NEXT):
                    bad = "the character after the match is not taken from name_buf[name_len..]: " + k[:120]
    if bad is None and nsemi < 2:
        bad = "the decision between 'reference' and 'leave the characters' no longer tests the last matched character against ';': it has to be re-reviewed"
    ctx.ob(rule, "named-reference-semicolon-before-legacy-exception" + ("" if which == "html" else "/" + which), bad is None and n >= 6, bad or "%d matched paths: ';' decides first; '=' / alphanumeric exceptions only in attributes and only after it; both characters come from name_buf around name_len" % n,
           "%s tokenizer char_ref finish_named" % which)


def in_attribute_flag_rule(ctx, rule):
    """the 'consumed as part of an attribute' flag handed to the char-ref sub-tokenizer is true exactly in the three attribute value states"""
    T = ctx.tables("html")
    pcs = T["helpers"].get("start_consuming_character_reference")
    if not pcs:
        raise AnchorMissing("start_consuming_character_reference not tabulated")
    n = 0
    bad = None
    for pc in pcs:
        news = [str(args[0]) for a, args in pc["actions"] if a == "assign self.char_ref_tokenizer" and args]
        if not news:
            continue
        n += 1
        gl = [(k, v) for k, v in pc["guards"].items() if "AttributeValue" in k]
        m = re.fullmatch(r"self\.state(\.get\(\))? matches AttributeValue\((.*)\)", gl[0][0]) if len(gl) == 1 else None
        kinds = {v["name"] for v in T["machine"].enums.get("AttrValueKind", {}).get("variants", [])}
        alts = set(a.strip() for a in m.group(2).split("|")) if m else set()
        if m is None or not (alts == {"_"} or (kinds and alts == kinds)):
            bad = "the flag depends on %s, not on 'state is any AttributeValue(_)' (double-quoted, single-quoted and unquoted values alike)" % [k for k, _ in gl]
            continue
        want = "Some(new(%s))" % ("true" if gl[0][1] else "false")
        if news[0] != want:
            bad = "in %s the sub-tokenizer is created as %s" % ("an attribute value state" if gl[0][1] else "a non-attribute state", news[0])
    ctx.ob(rule, "char-ref-in-attribute-flag", bad is None and n == 2, bad or "CharRefTokenizer::new(true) exactly when the state is AttributeValue(_), new(false) otherwise", "html5ever tokenizer start_consuming_character_reference")


def charref_start_states_rule(ctx, rule):
    """a character reference is started only while the tokenizer's state is Data, RCDATA or one of the attribute value states
    (the state at the moment of the call decides the in-attribute flag, R14.7)"""
    T = ctx.tables("html")
    n = 0
    for st, cells in sorted(T["step"].items()):
        for c in cells or []:
            acts = [(a, [str(x) for x in args]) for a, args in c["actions"]]
            for i, (a, args) in enumerate(acts):
                if a != "start_consuming_character_reference":
                    continue
                n += 1
                cur = st
                for b, bargs in acts[:i]:
                    if b == "set self.state" and bargs:
                        cur = bargs[0]
                ok = cur in ("Data", "RawData(Rcdata)") or cur.startswith("AttributeValue(")
                ctx.ob(rule, "charref-started-in/%s" % st + ("" if ok else "/as-" + cur), ok, "started with the state %s" % cur if ok else
                       "state %s starts a character reference while the tokenizer's state is %s: the in-attribute flag (and the return state) are those of the wrong state" % (st, cur),
                       "html5ever tokenizer step, state " + st)
    ctx.floor(rule, "charref-start-sites", n, 5)


def run(ctx):
    ctx.rule("R14.12", "the character-reference sub-tokenizer, state by state and per class of the peeked character, performs the abstract steps of the WHATWG character reference states as transcribed in rules/charrefspec.py (consume or not, next state, what is remembered, how the step answers); the decoding path of finish_named hands back name_buf[name_len..] and yields the table entry's code points (HTML; xml5ever's twin for all states but Begin)")
    from . import charrefspec as _crs
    for _w in ("html", "xml"):
        _k = ctx.guard("R14.12", "charref-machine/" + _w, lambda _w=_w: _crs.charref_machine(ctx, "R14.12", _w))
        ctx.floor("R14.12", "charref-rows/" + _w, _k or 0, 60 if _w == "html" else 50)
    ctx.guard("R14.6", "semicolon/xml", lambda: semicolon_rule(ctx, "R14.6", "xml"))
    ctx.rule("R14.11", "a digit-less '&#x' / '&#X' is handed back with the marker character as it was read")
    from . import tokrules as _tr11
    for _w in ("html", "xml"):
        ctx.guard("R14.11", "hex-marker/" + _w, lambda _w=_w: _tr11.hex_marker_conserved(ctx, "R14.11", _w))
    ctx.rule("R14.10", "end of input inside a character reference resolves every state as the standard does (a name being matched is looked up, not handed back)")
    from . import tokrules as _tr10
    for _w in ("html", "xml"):
        ctx.guard("R14.10", "charref-eof/" + _w, lambda _w=_w: _tr10.charref_eof_resolution(ctx, "R14.10", _w))
    ctx.rule("R14.8", "character references are started only in the Data, RCDATA and attribute value states, with that state current")
    ctx.guard("R14.8", "start-states", lambda: charref_start_states_rule(ctx, "R14.8"))
    ctx.rule("R14.7", "the legacy attribute exception is enabled in all three attribute value states and nowhere else")
    ctx.guard("R14.7", "in-attribute", lambda: in_attribute_flag_rule(ctx, "R14.7"))
    ctx.rule("R14.6", "a matched named reference ending in ';' is always decoded; the legacy attribute exception is tested only after that, on the character that follows the match in name_buf")
    ctx.guard("R14.6", "semicolon", lambda: semicolon_rule(ctx, "R14.6"))
    ctx.rule("R14.1", "web_atoms/entities.rs equals CPython html.entities.html5 (name -> code points), both directions")
    ctx.rule("R14.2", "generated PHF map = names + all proper prefixes (->(0,0)) + empty key; build.rs has the prefix loop")
    ctx.rule("R14.3", "C1_REPLACEMENTS equals cp1252 on 0x80..0x9F")
    ctx.rule("R14.4", "finish_numeric value function equals the WHATWG numeric table over an exact integer partition; overflow flag sticky and set before the wrapping add (HTML and XML)")
    ctx.rule("R14.5", "char-ref sub-tokenizer bookkeeping (longest match, legacy attribute exception, unconsume) in normal form equals the reviewed reference")
    table = ctx.guard("R14.1", "entities", lambda: r14_1(ctx))
    if table:
        ctx.guard("R14.2", "phf", lambda: r14_2(ctx, table))
    ctx.guard("R14.3", "c1", lambda: r14_3(ctx))
    ctx.rule("R14.9", "a reference split across chunks waits for its next character (empty input = Stuck); what is un-consumed at end of input goes into the queue that is then processed")
    from . import tokrules as _tr
    for which in ("html", "xml"):
        ctx.guard("R14.9", "stuck/" + which, lambda which=which: _tr.charref_needs_more_input_means_stuck(ctx, "R14.9", which))
        ctx.guard("R14.9", "end-queue/" + which, lambda which=which: _tr.end_uses_one_queue(ctx, "R14.9", which))
    for which in ("html", "xml"):
        ctx.guard("R14.4", "numeric/" + which, lambda: r14_4(ctx, which))
        ctx.guard("R14.4", "sticky/" + which, lambda: r14_4b(ctx, which))
    for which in ("html", "xml"):
        def cmp(which=which):
            T = ctx.tables(which)
            R = ctx.ref(which + "_tokenizer.json")
            _st["n"] += tok_common.compare_section(ctx, "R14.5", which, "charref", T, R, "fn")
            # the state that decides "consumed as part of an attribute" lives in the tokenizer
            h = mc.from_json(R["helpers"])
            for fn in ("start_consuming_character_reference", "process_char_ref", "step_char_ref_tokenizer", "consume_char_ref"):
                if fn in T["helpers"] or fn in h:
                    diffs = []
                    mc.compare_projected({fn: h.get(fn)}, {fn: T["helpers"].get(fn)}, lambda k, st, d: diffs.append((k, d)))
                    if diffs:
                        ctx.advise("R14.5", "helpers/fn=%s/%s" % (fn, diffs[0][0]), diffs[0][1][:500])
                    else:
                        ctx.ob("R14.5", "helpers/fn=%s" % fn, True, "equals the reference")
            _st["programs"] += len(T["charref"])
        ctx.guard("R14.5", "charref/" + which, cmp)
    _st["programs"] += 4


def coverage_extra(ctx):
    return {"programs": max(_st["programs"], 1), "disagreements_checked": _st["n"]}
