"""C07 — HTML serializer output re-parses to the same tree; inner equals outer (DESIGN 4.C07)."""
import html.entities
import re

from lib import machine as mc
from lib.ast import walk, decode_atom
from lib.flat import show
from lib.mir import AnchorMissing
from . import nf_common, nfq

MANIFEST = {
    "text": 'Table and pairing rules on the serializer: the escape table is sound and reversible (every needle has a replacement that the parser\'s own entity table maps back; \'&\',\'<\' in text and \'&\',\'"\' in attributes are needles), no byte is dropped by the escape loop, attribute values are written through the attribute escaper between the quote bytes, text is raw only under the raw-text element set and that set equals the parser\'s, \'this is an HTML element\' is decided by namespace everywhere, start/end pairs push/pop once; plus equality of every serializer function with its reviewed normal form. The serializer skips children for exactly the standard\'s 18 void-like elements (R07.7); the parser decodes every reference ending in \';\' also in attribute values, so the serializer\'s replacements map back (R07.8).',
    "note": "Decides R07.1-R07.8 (necessary conditions of 'no text or attribute escapes its context' and 'inner == outer'). Not decided: the re-parse itself, RcDom traversal order (C20). Also decided: serialize() hands the caller's options to the serializer unchanged (R07.9). Round 6: end of input inside a character reference (R07.12), rcdom Serialize walks node.children for root and inner element alike (R07.13). Round 7: is_marker_or_open + formatting end tags run the adoption agency (R07.14). Round 8: R07.15 = R14.12 (a name still being matched waits for more input when a chunk ends). R07.16: escape loop advances by what it accounted for, noscript raw iff scripting, start tag layout.",
    "technique": "table equality against the parser's own tables + path rules over function normal forms",
}
LEVEL = "other"
EXPLANATION = """
R07.1 escape table (needles, replacements, reversibility through web_atoms' entity table), R07.1b byte
conservation in the escape loop, R07.2 attribute values escaped between quotes, R07.3 raw-text set equals the
tree builder's, R07.4 html_name is Some only under an HTML-namespace test (start_elem and new agree), R07.5 one
push per start_elem and one pop per end_elem, R07.6 reviewed normal forms of html5ever::serialize and
markup5ever::serialize.
R07.7 void-like elements = the standard's 18; R07.8 references ending in ';' are decoded in attributes whatever follows.
"""
ASSUMPTIONS = ["memchr2/memchr3 return the first position of any needle", "io::Write::write_all writes the whole slice"]
AREA = "html_serialize"
XHTML = "http://www.w3.org/1999/xhtml"


def _fn(ctx, name):
    its = [it for it in ctx.ast.walkable("html5ever") if it["k"] == "Fn" and it["mod"].endswith("serialize") and it["name"] == name and it.get("body") is not None]
    if len(its) != 1:
        raise AnchorMissing("html5ever::serialize::%s matches %d" % (name, len(its)))
    return its[0]


def r07_1(ctx):
    it = _fn(ctx, "write_escaped")
    # needles: byte arguments of memchr2 / memchr3
    calls = []

    def f(n):
        if n.get("k") == "Call" and show(n["f"]) in ("memchr2", "memchr3", "memchr"):
            calls.append(n)

    walk(it["body"], f)
    if not calls:
        raise AnchorMissing("write_escaped: no memchr call")
    lets = {}

    def g(n):
        if n.get("k") == "Let" and n["pat"].get("k") == "PIdent" and n.get("init") is not None:
            lets[n["pat"]["name"]] = n["init"]

    walk(it["body"], g)

    def byte_vals(e):
        if e["k"] == "Lit" and e["t"] in ("byte", "int"):
            return {"both": {int(e["v"])}}
        if e["k"] == "Path" and e["path"] in lets:
            i = lets[e["path"]]
            if i["k"] == "If" and show(i["cond"]) == "attr_mode":
                t = i["then"][0]["e"]
                el = i["else"]["body"][0]["e"]
                return {"attr": {int(t["v"])}, "text": {int(el["v"])}}
        return None

    needles = {"attr": set(), "text": set()}
    for c in calls:
        for a in c["args"][:-1]:
            bv = byte_vals(a)
            if bv is None:
                raise AnchorMissing("write_escaped: memchr needle is not a byte constant: " + show(a))
            for mode in ("attr", "text"):
                needles[mode] |= bv.get(mode, set()) | bv.get("both", set())
    ctx.ob("R07.1", "needles/text", {ord("&"), ord("<")} <= needles["text"], "text needles %s must contain & and <" % sorted(map(chr, needles["text"] - {0xC2})))
    ctx.ob("R07.1", "needles/attr", {ord("&"), ord('"')} <= needles["attr"], "attribute needles %s must contain & and \"" % sorted(map(chr, needles["attr"] - {0xC2})))
    # replacement arms
    arms = []

    def h(n):
        if n.get("k") == "Match" and "next_special" in show(n["e"]) and n["e"].get("k") == "Index":
            arms.extend(n["arms"])

    walk(it["body"], h)
    if not arms:
        raise AnchorMissing("write_escaped: match on the needle byte not found")
    repl = {}
    for a in arms:
        p = a["pat"]
        vals = []
        if p["k"] == "PLit":
            vals = [int(p["lit"]["v"])]
        elif p["k"] == "POr":
            vals = [int(c["lit"]["v"]) for c in p["cases"] if c["k"] == "PLit"]
        body = a["body"]
        s = None
        if body["k"] == "Lit" and body["t"] == "str":
            s = body["v"]
        elif body["k"] == "Block":
            last = body["body"][-1] if body["body"] else None
            if last and last["k"] == "ExprStmt" and not last.get("semi") and last["e"].get("k") == "Lit":
                s = last["e"]["v"]
        for v in vals:
            repl[v] = (s, a.get("guard"))
    ents = {k: v for k, v in html.entities.html5.items()}
    for mode in ("attr", "text"):
        for nd in sorted(needles[mode]):
            if nd == 0xC2:
                continue
            r = repl.get(nd)
            ok = r is not None and r[0] is not None and r[0].startswith("&") and r[0].endswith(";") and ents.get(r[0][1:]) == chr(nd)
            ctx.ob("R07.1", "replacement/%s/%r" % (mode, chr(nd)), ok, "needle %r is replaced by %r, which the parser's entity table maps back to it" % (chr(nd), r[0] if r else None))
    r = repl.get(0xC2)
    ok = r is not None and r[0] == "&nbsp;" and r[1] is not None and "160" in show(r[1]) and ents.get("nbsp;") == "\xa0"
    ctx.ob("R07.1", "replacement/nbsp", ok, "0xC2 is replaced (by &nbsp;) only when followed by 0xA0")
    # cross-check with web_atoms' own table
    tbl = {}
    for itx in ctx.ast.raw("web_atoms/entities.rs"):
        if itx["k"] == "Static" and itx["name"] == "NAMED_ENTITIES":
            for el in itx["init"]["elems"]:
                tbl[el["elems"][0]["v"]] = (int(el["elems"][1]["v"]), int(el["elems"][2]["v"]))
    for name, cp in (("&amp;", 38), ("&quot;", 34), ("&lt;", 60), ("&gt;", 62), ("&nbsp;", 160)):
        ctx.ob("R07.1", "web_atoms-maps-back/" + name, tbl.get(name) == (cp, 0), "web_atoms: %s -> %s" % (name, tbl.get(name)))


def r07_1b(ctx):
    key, pcs = nfq.cells(ctx, AREA, "::write_escaped")
    n = 0
    bad = []
    for pc in nfq.feasible(pcs):
        acts = pc["actions"]
        names = [a for a, _ in acts]
        if not any(a.startswith("loop-begin") for a in names):
            continue
        ends = [args for a, args in acts if a == "loop-end"]
        if not ends:
            continue  # an io error returned from inside the iteration
        n += 1
        how = ends[0][0]
        writes = sum(1 for a in names if a == "self.writer.write_all")
        if how != "break" and writes < 2:
            bad.append(pc)
    ctx.floor("R07.1b", "iteration-paths", n, 6)
    ctx.ob("R07.1b", "escape-loop-conserves-bytes", not bad,
           "an iteration that skips past the needle (search_start := next_special + 1) continues without writing anything for it: the 0xC2 lead byte of U+0080..U+00BF (other than NBSP) is dropped, e.g. '\\u00a9' is serialized as the lone byte A9"
           if bad else "every iteration that advances past a needle writes the prefix and something for the needle", "html5ever serialize write_escaped")


def r07_2(ctx):
    key, pcs = nfq.cells(ctx, AREA, "[Serializer]::start_elem")
    n = 0
    for pc in nfq.feasible(pcs):
        t = nfq.texts(pc)
        for i, x in enumerate(t):
            if x.startswith("self.write_escaped("):
                n += 1
                ok = x.endswith(",true)") and i > 0 and t[i - 1] == "self.writer.write_all([61, 34])"
                nxt = t[i + 1] if i + 1 < len(t) else ""
                # the closing quote follows unless the write failed (path returns the error)
                ok = ok and (nxt == "self.writer.write_all([34])" or nxt == "" or (nxt == "loop-end(break)" and t[-1] == nxt))
                if not ok:
                    ctx.ob("R07.2", "attr-value-escaped-between-quotes", False, "attribute value written as %s after %s" % (x, t[i - 1] if i else None))
                    return
    ctx.floor("R07.2", "attr-write-paths", n, 1)
    ctx.ob("R07.2", "attr-value-escaped-between-quotes", True, "every attribute value goes through write_escaped(_, true) between '=\"' and '\"'")
    key, pcs = nfq.cells(ctx, AREA, "[Serializer]::write_text")
    raw = set()
    for pc in nfq.feasible(pcs):
        names = nfq.names(pc)
        if "self.writer.write_all" in names and "self.write_escaped" not in names:
            pos = [g for g, v in pc["guards"].items() if v and "html_name matches" in g]
            if not pos:
                ctx.ob("R07.2", "raw-text-guarded", False, "text is written unescaped on a path that did not test the parent's name: %s" % pc["guards"])
                return set()
            for g in pos:
                raw |= set(re.findall(r"Some\(atom:([a-z]+)\)", g))
        elif "self.write_escaped" in names:
            if not any(x.endswith(",false)") for x in nfq.texts(pc) if x.startswith("self.write_escaped(")):
                ctx.ob("R07.2", "text-escaper-mode", False, "text is escaped with the attribute flag set")
    ctx.ob("R07.2", "raw-text-guarded", True, "text is written raw only under a parent-name test; set = %s" % sorted(raw))
    return raw


def parser_rawtext_sets(ctx):
    """element -> tokenizer state requested by the tree builder (arms returning ToRawData / ToPlaintext) and by
    tokenizer_state_for_context_elem"""
    key, pcs = nfq.cells(ctx, "html_tree_builder", "::tokenizer_state_for_context_elem")
    ctxmap = set()
    for pc in nfq.feasible(pcs):
        if pc["ret"] in ("Data",):
            continue
        for g, v in pc["guards"].items():
            if v and " matches " in g and "atom:" in g and "xhtml" not in g:
                ctxmap |= set(re.findall(r"atom:([a-z]+)", g.split(" matches ", 1)[1]))
    return ctxmap


def r07_3(ctx, raw):
    ctxmap = parser_rawtext_sets(ctx)
    rcdata = {"title", "textarea"}
    want = ctxmap - rcdata
    ctx.ob("R07.3", "raw-text-set == parser's", raw == want, "serializer leaves %s unescaped; tokenizer_state_for_context_elem switches to a raw state for %s (RCDATA elements %s are escaped, as required)" % (sorted(raw), sorted(want), sorted(rcdata & ctxmap)))
    # void elements: serializer's ignore_children list = tree builder's NoPush+AckSelfClosing HTML arms
    void = set()
    key, pcs = nfq.cells(ctx, AREA, "[Serializer]::start_elem")
    for pc in nfq.feasible(pcs):
        for g, v in pc["guards"].items():
            # the test of the element's local name against the void list (read from the normal form, so that it is found
            # wherever the test lives: in start_elem itself or in a helper written out at the call)
            if v and ".local matches atom:" in g and "atom:br" in g:
                void |= set(re.findall(r"atom:([\w-]+)", g.split(" matches ", 1)[1]))
    ctx.floor("R07.3", "void-elements", len(void), 18)
    return void


def _atoms(p):
    out = []

    def f(n):
        if n.get("k") in ("PPath",):
            a = decode_atom(n["path"])
            if a:
                out.append(a[1])

    walk(p, f)
    return out


def r07_4(ctx):
    n = 0
    for fnkey in ("HtmlSerializer<Wr>::new", "[Serializer]::start_elem"):
        key, pcs = nfq.cells(ctx, AREA, fnkey)
        bad = None
        cnt = 0
        for pc in nfq.feasible(pcs):
            txt = " ".join(nfq.texts(pc)) + " " + str(pc["ret"])
            if "ElemInfo(Some(" not in txt:
                continue
            cnt += 1
            ok = any(v and XHTML in g and ("matches" in g or "==" in g) for g, v in pc["guards"].items())
            if not ok:
                bad = pc
        n += cnt
        ctx.ob("R07.4", "html_name-only-for-html-namespace/%s" % fnkey, bad is None and cnt > 0,
               "ElemInfo.html_name is set from the local name without testing the namespace: children of a foreign element named like an HTML raw-text element (e.g. SVG <style>) are unescaped when serialized as inner HTML but escaped as part of the outer element"
               if bad is not None else "html_name is Some only under an HTML-namespace test", "html5ever serialize " + fnkey)
    ctx.floor("R07.4", "eleminfo-some-constructions", n, 2)


def r07_5(ctx):
    key, pcs = nfq.cells(ctx, AREA, "[Serializer]::start_elem")
    bad = 0
    n = 0
    for pc in nfq.feasible(pcs):
        if not str(pc["ret"]).startswith("Ok("):
            continue
        n += 1
        if nfq.names(pc).count("self.stack.push") != 1:
            bad += 1
    ctx.ob("R07.5", "start_elem-pushes-once", bad == 0 and n > 0, "%d successful paths each push exactly one ElemInfo" % n)
    key, pcs = nfq.cells(ctx, AREA, "[Serializer]::end_elem")
    ok = all(nfq.names(pc).count("self.stack.pop") == 1 for pc in nfq.feasible(pcs))
    ctx.ob("R07.5", "end_elem-pops-once", ok, "every path pops exactly one ElemInfo")
    supp = [pc for pc in nfq.feasible(pcs) if "self.writer.write_all" not in nfq.names(pc) and str(pc["ret"]).startswith("Ok(")]
    ok = all(any(v and "ignore_children" in g for g, v in pc["guards"].items()) for pc in supp) and bool(supp)
    ctx.ob("R07.5", "end-tag-suppressed-iff-ignore_children", ok, "the end tag is omitted exactly on the ignore_children path")


def r07_7(ctx):
    """the elements whose children (and end tag) the serializer skips are the standard's 18 void-like elements, in the HTML namespace only"""
    import json as _json, os as _os
    spec = set(_json.load(open(_os.path.join(_os.path.dirname(_os.path.dirname(_os.path.abspath(__file__))), "ref", "spec_sets.json")))["serializer_void_elements"])
    key, pcs = nfq.cells(ctx, AREA, "[Serializer]::start_elem")
    got = None
    under_html = True
    n = 0
    for pc in nfq.feasible(pcs):
        for a, args in pc["actions"]:
            if a != "self.stack.push":
                continue
            txt = " ".join(str(x) for x in args)
            m = re.search(r"ElemInfo\([^,]*(?:\([^)]*\))?[^,]*,\s*(true|false|[^)]*)\)\s*$", txt)
        pos = [g for g, v in pc["guards"].items() if v and ".local matches atom:" in g and "atom:br" in g]
        for g in pos:
            n += 1
            names = set(re.findall(r"atom:([\w-]+)", g.split(" matches ", 1)[1]))
            got = names if got is None else (got | names)
            if not any(v and "ns" in k and "xhtml" in k for k, v in pc["guards"].items()):
                under_html = False
    if got is None:
        raise AnchorMissing("start_elem: the void-element test was not found")
    ok = got == spec
    ctx.ob("R07.7", "void-elements" + ("" if ok else "/" + ",".join(sorted(got ^ spec))), ok, "children skipped exactly for %s" % sorted(spec) if ok else "missing: %s; extra: %s" % (sorted(spec - got), sorted(got - spec)), "html5ever serialize start_elem")
    ctx.ob("R07.7", "void-elements-html-namespace-only", under_html, "the void-element test is made under an HTML-namespace test")
    ctx.floor("R07.7", "void-test-paths", n, 1)


def r07_9(ctx):
    """serialize(writer, node, opts): the serializer is built from the caller's options as they are, and the traversal scope handed to
    the node is that of the same options (the context element name of ChildrenOnly(Some(name)) reaches HtmlSerializer::new, where it
    decides whether the first text child is raw text)"""
    key, pcs = nfq.cells(ctx, AREA, "serialize::serialize")
    fe = nfq.feasible(pcs)
    ok = len(fe) == 1 and not fe[0]["guards"]
    detail = "serialize() is one unconditional call"
    if ok:
        t = nfq.texts(fe[0])
        m = re.fullmatch(r"p2\.serialize\(new\(p1,(.*?)\),(.*)\)", t[-1]) if t else None
        ok = m is not None and len(t) == 1 and m.group(1) == "p3" and m.group(2) == "p3.traversal_scope"
        detail = "node.serialize(HtmlSerializer::new(writer, opts), opts.traversal_scope)" if ok else \
            "the serializer is built from %s and the scope passed is %s (actions %s): the options the serializer sees are not the caller's (e.g. the context element of ChildrenOnly(Some(name)) is lost)" % (
                m.group(1) if m else "?", m.group(2) if m else "?", t[:3])
    ctx.ob("R07.9", "serialize-passes-the-callers-options", ok, detail, "html5ever serialize::serialize")


def formatting_end_tags(ctx):
    """in body, the end tags of exactly the formatting elements (a b big code em font i nobr s small strike strong tt u) run the
    adoption agency algorithm - an end tag handled as 'any other end tag' pops the element but leaves its entry on the list of
    active formatting elements, and the next text is wrapped in a reconstructed copy"""
    import json, os
    from . import nfq
    spec = json.load(open(os.path.join(os.path.dirname(os.path.dirname(os.path.abspath(__file__))), "ref", "spec_sets.json")))
    want = set(spec["formatting_start_tags"])
    key, step = nfq.cells(ctx, "html_tree_builder", "rules::TreeBuilder<Handle,Sink>::step")
    adopt = set()
    for pc in nfq.feasible(step):
        if not pc["guards"].get("p1 matches InBody"):
            continue
        names = nfq.names(pc)
        if "self.adoption_agency" in names and "self.create_formatting_element_for" not in names and "self.handle_misnested_a_tags" not in names:
            s = None
            for g, v in pc["guards"].items():
                if v and g.startswith("p2 matches Tag("):
                    t = {nm for k, nm in re.findall(r"Tag\{kind:(\w+),name:atom:([\w:-]+)\}", g) if k == "EndTag"}
                    s = t if s is None else s & t
            adopt |= (s or set())
    ok = adopt == want
    ctx.ob("R07.14", "adoption-agency-end-tags", ok, "end tags of the %d formatting elements run the adoption agency" % len(want) if ok else
           "end tags that run the adoption agency: missing %s, extra %s" % (sorted(want - adopt), sorted(adopt - want)), "html5ever tree_builder rules.rs InBody")


def r07_13(ctx):
    """rcdom's Serialize: 'inner equals outer' needs the nodes written between an element's start and end tag to be the very
    nodes written for that element as the ChildrenOnly root: both are the node's `children`, in order"""
    from . import nfq
    key, pcs = nfq.cells(ctx, "rcdom", "::SerializableHandle[Serialize]::serialize")
    bad = None
    roots, inner = set(), set()
    for pc in nfq.feasible(pcs):
        acts = [(a, tuple(str(x) for x in args)) for a, args in pc["actions"]]
        names = [a for a, _ in acts]
        se = [args for a, args in acts if a.endswith(".start_elem")]
        loops = [a[len("loop-begin for _ in "):] for a in names if a.startswith("loop-begin for _ in ")]
        if pc["guards"].get("p2 matches IncludeNode") is False:
            if not loops:
                bad = "ChildrenOnly does not walk the children of the root"
                continue
            roots.add(re.sub(r"\.rev\(\)$", "", re.sub(r"^self\.0", "N", loops[0])))
            loops = loops[1:]
        if se and any(a.endswith(".push_front") or a.endswith(".push_back") or a.endswith(".push") for a in names[names.index([a for a in names if a.endswith(".start_elem")][0]):]):
            m = re.match(r"(.*)\.data\.name$", se[0][0])
            if not m:
                bad = "start_elem is not given the node's own name (%s)" % se[0][0][:60]
                continue
            node = m.group(1)
            own = [l for l in loops if l.startswith(node)]
            other = [l for l in loops if not l.startswith(node)]
            if len(own) != 1 or other:
                bad = "after the start tag of an element the nodes queued are %s, not the element's own children" % (loops[:2],)
                continue
            inner.add(re.sub(r"\.rev\(\)$", "", "N" + own[0][len(node):]))
    ok = bad is None and roots == {"N.children.iter()"} and inner == {"N.children.iter()"}  # the order of the work list is R20's business
    if bad is None and not ok:
        bad = "the ChildrenOnly root contributes %s, an element inside the tree contributes %s: the same element serializes different children as root and as inner node" % (sorted(roots), sorted(inner))
    ctx.ob("R07.13", "inner-and-outer-walk-the-same-children", ok, bad or "both the root's and an inner element's contribution are node.children, in order", "rcdom SerializableHandle::serialize")


def run(ctx):
    ctx.rule("R07.16", "the escape loop advances by exactly what it accounted for (prefix, needle replacement, X + needle length); noscript text is raw exactly when scripting is enabled; the start tag's layout ('<' name, then ' ' [prefix] local '=\"' value '\"' per attribute)")
    ctx.guard("R07.16", "serializer-transcription", lambda: r07_16(ctx))
    ctx.rule("R07.15", "= R14.12: the character reference states as transcribed - in particular a name still being matched waits for more input (Stuck) when the chunk ends, so `&amp` | `;` read from the serializer's output in two chunks is one reference")
    from . import charrefspec as _crs
    ctx.guard("R07.15", "charref-machine", lambda: _crs.charref_machine(ctx, "R07.15", "html"))
    ctx.rule("R07.14", "the re-parse does not restructure what was serialized: 'is this formatting entry still open' searches the whole stack (R02.15), and the end tags of all formatting elements run the adoption agency (R02.1)")
    from . import tbhelpers as _tbh
    ctx.guard("R07.14", "marker-or-open", lambda: ctx.under("R07.14", lambda: _tbh.marker_or_open(ctx)))
    ctx.guard("R07.14", "formatting-end-tags", lambda: ctx.under("R07.14", lambda: formatting_end_tags(ctx)))
    ctx.rule("R07.13", "rcdom Serialize: the root's children (ChildrenOnly) and an inner element's children (between its tags) are the same list, node.children")
    ctx.guard("R07.13", "rcdom-serialize", lambda: r07_13(ctx))
    ctx.rule("R07.12", "what the serializer escapes is decoded again at the very end of a fragment too: end of input inside a character reference looks up the name matched so far (R14.10)")
    from . import tokrules as _tr12
    ctx.guard("R07.12", "charref-eof/html", lambda: _tr12.charref_eof_resolution(ctx, "R07.12", "html"))
    ctx.rule("R07.11", "the tokenizer takes attribute value characters verbatim (no folding of line breaks or other characters inside a value)")
    from . import tokrules as _trv
    for _w in ('html',):
        ctx.guard("R07.11", "attr-verbatim/" + _w, lambda _w=_w: _trv.attr_values_kept_verbatim(ctx, "R07.11", _w))
    ctx.rule("R07.10", "the tokenizer's run scanner (SmallCharSet::nonmember_prefix_len) examines every byte: no '&', '<' or quote the serializer relies on can be skipped")
    from .C13 import prefix_scan_rule
    ctx.guard("R07.10", "scan", lambda: prefix_scan_rule(ctx, "R07.10"))
    ctx.rule("R07.9", "serialize() builds the serializer from the caller's options unchanged and passes their traversal scope")
    ctx.guard("R07.9", "entry", lambda: r07_9(ctx))
    ctx.rule("R07.8", "the parser maps the serializer's replacements back: a named reference ending in ';' is decoded in text and in attribute values whatever follows it (shared with R14.6)")
    from .C14 import semicolon_rule
    ctx.guard("R07.8", "semicolon", lambda: semicolon_rule(ctx, "R07.8"))
    ctx.rule("R07.7", "the serializer treats exactly the standard's void-like elements (HTML namespace) as childless")
    ctx.guard("R07.7", "void", lambda: r07_7(ctx))
    ctx.rule("R07.1", "escape table sound and reversible: needles >= {&,<} (text) / {&,\"} (attr); every needle has a replacement the parser maps back")
    ctx.rule("R07.1b", "the escape loop writes something for every needle it advances past (byte conservation)")
    ctx.rule("R07.2", "attribute values go through write_escaped(_, true) between '=\"' and '\"'; text is raw only under a parent-name test")
    ctx.rule("R07.3", "serializer's raw-text set equals the set for which the tree builder switches the tokenizer to a raw state")
    ctx.rule("R07.4", "ElemInfo.html_name is Some only under an HTML-namespace test (new and start_elem agree)")
    ctx.rule("R07.5", "one push per start_elem, one pop per end_elem, end tag suppressed iff ignore_children")
    ctx.rule("R07.6", "normal forms of html5ever::serialize and markup5ever::serialize equal the reviewed reference")
    ctx.guard("R07.1", "table", lambda: r07_1(ctx))
    ctx.guard("R07.1b", "loop", lambda: r07_1b(ctx))
    raw = ctx.guard("R07.2", "attr", lambda: r07_2(ctx))
    if raw is not None:
        ctx.guard("R07.3", "sets", lambda: r07_3(ctx, raw))
    ctx.guard("R07.4", "html_name", lambda: r07_4(ctx))
    ctx.guard("R07.5", "pairing", lambda: r07_5(ctx))
    ctx.guard("R07.6", "nf", lambda: nf_common.nf_rule(ctx, "R07.6", AREA, floor=12))
    ctx.guard("R07.6", "nf-m5e", lambda: nf_common.nf_rule(ctx, "R07.6", "markup5ever_interface", only=("serialize",)))
    ctx.guard("R07.6", "nf-rcdom", lambda: nf_common.nf_rule(ctx, "R07.6", "rcdom", only=("[Serialize]",)))


def r07_16(ctx):
    """byte conservation of the escape loop, exactly: every iteration writes text[start..X] where X is the position of the next
    needle, then accounts for the needle - one replacement for one byte (& < > "), `&nbsp;` for the two bytes C2 A0, or the
    byte text[X..X+1] itself for a C2 that is not NBSP - and goes on at X + (bytes accounted for).  Going on at X + 2 after a
    one-byte needle loses the character behind it.  Read from a precise normal form (index expressions kept)."""
    from lib import nf, flat, machine as mc
    crate, mods, excl = nf_common.AREAS[AREA][:3]
    flat.DISTINCT_PHI = True
    try:
        try:
            known = set(nf_common.area_ref(AREA, ctx))
        except (OSError, ValueError, KeyError):
            known = None
        r = nf.area_nf(ctx.ast, crate, mods, excl, (), known, ("write_escaped",))
    finally:
        flat.DISTINCT_PHI = False
    ks = [k for k in r if k.endswith("::write_escaped") and isinstance(r[k], dict) and r[k].get("kind") == "paths"]
    if len(ks) != 1:
        raise AnchorMissing("write_escaped has no path normal form")
    cells = mc.from_json({ks[0]: r[ks[0]]["cells"]})[ks[0]]
    bad = None
    n = 0
    for pc in cells:
        acts = [(a, [str(x) for x in args]) for a, args in pc["actions"]]
        ends = [args for a, args in acts if a == "loop-end"]
        if not ends or ends[0][0] != "end" or len(ends[0]) < 2:
            continue
        writes = [args[0] for a, args in acts if a == "self.writer.write_all"]
        if not writes:
            bad = bad or "an iteration goes round without writing anything"
            continue
        m = re.fullmatch(r"p1\.as_bytes\(\)\[(φ\d+\(0\))\.\.(.*)\]", writes[0])
        if not m:
            bad = bad or "the first write of an iteration is %s, not the text up to the next needle" % writes[0][:80]
            continue
        n += 1
        X = m.group(2)
        nxt = ends[0][-1]
        rest = writes[1:]
        if len(rest) != 1:
            bad = bad or "an iteration that goes round writes %d things after the prefix" % len(rest)
            continue
        w = rest[0]
        if w == '"&nbsp;".as_bytes()':
            want = "((%s + 1) + 1)" % X
        elif re.fullmatch(r'"&(amp|lt|gt|quot);"\.as_bytes\(\)', w):
            want = "(%s + 1)" % X
        elif w == "p1.as_bytes()[%s..(%s + 1)]" % (X, X):
            want = "(%s + 1)" % X
        else:
            bad = bad or "after the prefix the iteration writes %s" % w[:80]
            continue
        if nxt != want:
            bad = bad or "after writing %s for the needle at X the search goes on at %s, expected %s: a character is skipped or written twice" % (w[:24], nxt[-40:], want[-40:])
    ctx.ob("R07.16", "escape-loop-advances-by-what-it-accounted-for", bad is None and n >= 10, bad or "%d iteration paths: prefix, then the needle's replacement, then X + its length" % n, "html5ever serialize write_escaped")
    # noscript: raw exactly when scripting is enabled (the parser then reads it as raw text)
    key, pcs = nfq.cells(ctx, AREA, "[Serializer]::write_text")
    bad = None
    n = 0
    for pc in nfq.feasible(pcs):
        g = pc["guards"]
        ns = [v for k, v in g.items() if "noscript" in k]
        se = [v for k, v in g.items() if "scripting_enabled" in k]
        if not (ns and any(ns)) or not se:
            continue
        n += 1
        raw = not any(a == "self.write_escaped" for a, _ in pc["actions"])
        if raw != bool(se[0]):
            bad = "under noscript with scripting %s the text is written %s" % ("enabled" if se[0] else "disabled", "raw" if raw else "escaped")
    ctx.ob("R07.16", "noscript-raw-iff-scripting", bad is None and n >= 2, bad or "noscript text is raw exactly when scripting is enabled", "html5ever serialize write_text")
    # start tag layout: '<' name, then per attribute ' ' [prefix] local '="' value '"', then '>'
    key, pcs = nfq.cells(ctx, AREA, "[Serializer]::start_elem")
    bad = None
    n = 0
    for pc in nfq.feasible(pcs):
        t = nfq.texts(pc)
        if not any(x.startswith("self.write_escaped(") for x in t):
            continue
        n += 1
        i0 = next(i for i, x in enumerate(t) if x.startswith("loop-begin"))
        inner = [x for x in t[i0 + 1:] if x.startswith("self.writer.write_all(") or x.startswith("self.write_escaped(")]
        if not inner or inner[0] != "self.writer.write_all([32])":
            bad = bad or "an attribute is not preceded by a space (first write of the attribute loop: %s)" % (inner[:1],)
        pre = [x for x in t[:i0] if x.startswith("self.writer.write_all(")]
        if pre[:1] != ["self.writer.write_all([60])"] or len(pre) < 2:
            bad = bad or "the start tag does not begin with '<' and the tag name (%s)" % pre[:2]
        k = next((j for j, x in enumerate(inner) if x.startswith("self.write_escaped(")), None)
        if k is not None and (k < 2 or "name.local" not in inner[k - 2] and "local" not in inner[k - 2]):
            bad = bad or "the attribute's local name is not written right before '=\"' (%s)" % inner[max(0, k - 2):k]
    ctx.ob("R07.16", "start-tag-layout", bad is None and n >= 1, bad or "%d attribute-writing paths: '<' name, then ' ' [prefix] local '=\"' value '\"' per attribute" % n, "html5ever serialize start_elem")
