"""R02.15 - the tree builder's helper algorithms, as facts over their normal forms.

The rows of the insertion modes (R02.11) say *which* helper a row calls; these rules say what the helpers themselves do, for the
ones whose definition in the standard is short enough to state as a handful of path facts: "has an element in scope", "generate
implied end tags", "pop until", "the appropriate place for inserting a node" (foster parenting), "any other end tag" of the in-body
rules, "clear the list of active formatting elements up to the last marker", "reconstruct the active formatting elements" and the
bail-out steps of the adoption agency algorithm.  Every fact is read from the guards and actions of the function's paths, never from
its text; a function the flattener cannot tabulate fails closed (ANCHOR-MISSING)."""
import re

from lib.mir import AnchorMissing
from . import nfq

TB = "html_tree_builder"
RULE = "R02.15"


def _acts(pc):
    return [(a, tuple(str(x) for x in args)) for a, args in pc["actions"]]


def _g(pc, pred):
    """truth values of the guards whose label satisfies pred"""
    return [v for k, v in pc["guards"].items() if pred(re.sub(r"#\d+$", "", k))]


def _loop_exit(pc):
    """kind of the last loop-end on the path: 'break' / 'end' / None"""
    for a, args in reversed(_acts(pc)):
        if a == "loop-end":
            return args[0] if args else None
    return None


def in_scope(ctx):
    """has an element in scope: walk the stack from the current node downwards; the node that satisfies the target test answers
    true; otherwise a node of the scope set answers false; the target test comes first (a node can be both - `<table>` in table
    scope); an exhausted stack answers false"""
    key, pcs = nfq.cells(ctx, TB, "TreeBuilder<Handle,Sink>::in_scope")
    bad = None
    n = 0
    seen = set()
    for pc in nfq.feasible(pcs):
        acts = _acts(pc)
        names = [a for a, _ in acts]
        n += 1
        begin = [a for a in names if a.startswith("loop-begin")]
        if len(begin) != 1 or not re.search(r"self\.open_elems(\.iter\(\))?\.rev\(\)|self\.open_elems\.iter\(\)\.rev\(\)", begin[0]):
            bad = "the walk is '%s', not the stack of open elements from the current node downwards" % (begin[0][:80] if begin else "missing")
            continue
        tgt = _g(pc, lambda k: re.match(r"p2\(", k))
        scp = _g(pc, lambda k: re.match(r"p1\(", k))
        ret = str(pc["ret"])
        if "call p1" in names and ("call p2" not in names or names.index("call p2") > names.index("call p1")):
            bad = "a node is tested against the scope set before it is tested for being the target: an element that is both (e.g. `table` in table scope) is reported as not in scope"
        if tgt and tgt[-1] is True:
            seen.add("found")
            if ret != "true":
                bad = "the target was found but the answer is %s" % ret
        elif scp and scp[-1] is True:
            seen.add("barrier")
            if ret != "false" or _loop_exit(pc) != "break":
                bad = "a scope-set element was met before the target but the walk goes on / the answer is %s" % ret
        else:
            if _loop_exit(pc) == "end":
                seen.add("next")
            elif ret != "false":
                bad = "an exhausted stack answers %s" % ret
            else:
                seen.add("exhausted")
    ctx.ob(RULE, "in_scope", bad is None and {"found", "barrier", "next"} <= seen, bad or "%d paths: target test first -> true; scope element -> false; else next node down the stack" % n,
           "html5ever tree_builder in_scope")


def implied_end_tags(ctx):
    """generate implied end tags: while the current node is in the set, pop it; stop at the first node that is not"""
    key, pcs = nfq.cells(ctx, TB, "TreeBuilder<Handle,Sink>::generate_implied_end_tags")
    bad = None
    seen = set()
    for pc in nfq.feasible(pcs):
        acts = _acts(pc)
        names = [a for a, _ in acts]
        member = _g(pc, lambda k: re.match(r"p1\(", k))
        pops = [a for a in names if a in ("self.pop", "self.open_elems.pop")]
        tested = [args for a, args in acts if a == "call p1"]
        if tested and not re.search(r"self\.open_elems\.last\(\)|self\.current_node\(\)", tested[0][0]):
            bad = "the set is asked about %s, not about the current node" % tested[0][0][:80]
        if member and member[-1] is True:
            seen.add("pop")
            if len(pops) != 1 or _loop_exit(pc) != "end":
                bad = "current node in the set: %d pops, loop %s" % (len(pops), _loop_exit(pc))
        else:
            seen.add("stop")
            if pops or _loop_exit(pc) != "break":
                bad = "current node not in the set (or no node): %d pops, loop %s" % (len(pops), _loop_exit(pc))
    ctx.ob(RULE, "generate_implied_end_tags", bad is None and seen == {"pop", "stop"}, bad or "pops exactly while the current node is in the set", "html5ever tree_builder generate_implied_end_tags")


def pop_until(ctx):
    """pop elements until one satisfying the predicate has been popped (inclusive)"""
    key, pcs = nfq.cells(ctx, TB, "TreeBuilder<Handle,Sink>::pop_until")
    bad = None
    seen = set()
    for pc in nfq.feasible(pcs):
        acts = _acts(pc)
        names = [a for a, _ in acts]
        pops = [a for a in names if a in ("self.pop", "self.open_elems.pop")]
        hit = _g(pc, lambda k: re.match(r"p1\(", k))
        tested = [args for a, args in acts if a == "call p1"]
        if len(pops) != 1:
            bad = "an iteration pops %d elements" % len(pops)
        if tested and "pop()" not in tested[0][0]:
            bad = "the predicate is asked about %s, not about the element just popped" % tested[0][0][:80]
        if hit and hit[-1] is True:
            seen.add("hit")
            if _loop_exit(pc) != "break":
                bad = "the loop goes on after the wanted element was popped"
        elif hit:
            seen.add("miss")
            if _loop_exit(pc) != "end":
                bad = "the loop stops although the popped element is not the wanted one"
        else:
            seen.add("empty")
            if _loop_exit(pc) != "break":
                bad = "the loop goes on with an empty stack"
    ctx.ob(RULE, "pop_until", bad is None and {"hit", "miss"} <= seen, bad or "one pop per iteration, stops right after the wanted element (or on an empty stack)", "html5ever tree_builder pop_until")


def appropriate_place(ctx):
    """the appropriate place for inserting a node.  target = override or current node.  Foster parenting applies only when the flag
    is set AND the target is table/tbody/tfoot/thead/tr; then, walking the stack from the top: a template met first -> inside its
    contents; a table met first -> foster-parent relative to that table, with the element directly below it in the stack as the
    fallback parent; neither -> last child of the html element.  Otherwise: inside the target (its contents if it is a template)"""
    key, pcs = nfq.cells(ctx, TB, "TreeBuilder<Handle,Sink>::appropriate_place_for_insertion")
    bad = None
    seen = set()
    for pc in nfq.feasible(pcs):
        acts = _acts(pc)
        names = [a for a, _ in acts]
        ret = str(pc["ret"])
        g = pc["guards"]
        flag = _g(pc, lambda k: k == "self.foster_parenting.get()")
        intarget = _g(pc, lambda k: re.match(r"self\.elem_in\((.*),foster_target\)$", k))
        tm = [m.group(1) for k in g for m in [re.match(r"self\.elem_in\((.*),foster_target\)$", re.sub(r"#\d+$", "", k))] if m]
        override = g.get("p1 matches Some(_)")
        target = "p1.0" if override else "self.current_node()"
        if tm and tm[0] != target:
            bad = "the foster-parenting test looks at %s; the target is %s" % (tm[0][:60], target)
        foster = bool(flag and flag[0] and intarget and intarget[0])
        if not foster:
            t = g.get("self.html_elem_named(%s,atom:template)" % target)
            want = "LastChild(self.sink.get_template_contents(%s))" % target if t else "LastChild(%s)" % target
            seen.add("plain-template" if t else "plain")
            if ret != want or any(a.startswith("loop-begin") for a in names):
                bad = "without foster parenting (flag %s, target in table set %s) the place is %s; the standard says %s" % (flag[:1], intarget[:1], ret[:80], want)
            continue
        begin = [a for a in names if a.startswith("loop-begin")]
        if not begin:
            bad = "foster parenting does not walk the stack"
            continue
        walk = [k for k in g if ".rev()" in k and "self.open_elems" in k]
        if not walk and not any(".rev()" in b for b in begin):
            bad = "foster parenting walks the stack from the bottom: the FIRST table / template instead of the last one decides"
        tmpl = [(m.group(1), v) for k, v in g.items() for m in [re.match(r"self\.html_elem_named\((.*),atom:template\)$", re.sub(r"#\d+$", "", k))] if m and m.group(1) != target]
        tabl = [(m.group(1), v) for k, v in g.items() for m in [re.match(r"self\.html_elem_named\((.*),atom:table\)$", re.sub(r"#\d+$", "", k))] if m and m.group(1) != target]
        if tmpl and tmpl[-1][1]:
            seen.add("foster-template")
            if ret != "LastChild(self.sink.get_template_contents(%s))" % tmpl[-1][0]:
                bad = "a template above the last table: the place is %s, not inside the template's contents" % ret[:80]
            if tabl and tabl[-1][0] == tmpl[-1][0]:
                bad = "the node is tested for `table` before `template`"
        elif tabl and tabl[-1][1]:
            seen.add("foster-table")
            node = tabl[-1][0]
            m = re.fullmatch(r"TableFosterParenting\((.*)\)", ret)
            body = m.group(1) if m else ""
            if not m or not body.startswith(node + ","):
                bad = "the last table on the stack was found but the place is %s" % ret[:100]
            else:
                prev = body[len(node) + 1:]
                it = node.rsplit(".next()", 1)[0] if ".next()" in node else None
                ok_prev = (it is not None and prev.startswith(it + ".peek()")) or re.search(r"\[\(?.*- 1\)?\]", prev) is not None or \
                    (node.endswith(".1") and prev.startswith("self.open_elems[..%s.0].last()" % node[:-2]))
                if not ok_prev:
                    bad = "the fallback parent for a table without a parent is %s, not the element directly below the table in the stack" % prev[:80]
        elif _loop_exit(pc) == "end" and ret in ("()", ""):
            seen.add("foster-next")
        else:
            if _loop_exit(pc) == "end":
                seen.add("foster-next")  # a `for` over the stack: going on and running out are one path
            seen.add("foster-none")
            if ret != "LastChild(self.html_elem())":
                bad = "no table and no template on the stack (fragment case): the place is %s, not the html element" % ret[:80]
    want = {"plain", "plain-template", "foster-template", "foster-table", "foster-next", "foster-none"}
    ctx.ob(RULE, "appropriate_place_for_insertion", bad is None and want <= seen, bad or "foster parenting only for flag + table-ish target; last template / last table / html element; otherwise inside the target (template contents)",
           "html5ever tree_builder appropriate_place_for_insertion")


def any_other_end_tag(ctx):
    """in body, any other end tag: walk from the current node down; the first HTML element with the tag's name closes - implied end
    tags except that name, an error unless it is the current node, everything up to and including it popped; a special element
    met first stops the walk with an error and nothing popped"""
    key, pcs = nfq.cells(ctx, TB, "TreeBuilder<Handle,Sink>::process_end_tag_in_body")
    bad = None
    seen = set()
    for pc in nfq.feasible(pcs):
        acts = _acts(pc)
        names = [a for a, _ in acts]
        begin = [a for a in names if a.startswith("loop-begin")]
        if not begin or ".rev()" not in begin[0] or "self.open_elems" not in begin[0]:
            bad = "the walk is '%s', not the stack from the current node down" % (begin[0][:80] if begin else "none")
            continue
        match = [(m.group(1), v) for k, v in pc["guards"].items() for m in [re.match(r"self\.html_elem_named\((.*),p1\.name\)$", re.sub(r"#\d+$", "", k))] if m]
        special = _g(pc, lambda k: re.match(r"self\.elem_in\(.*,special_tag\)$", k))
        pops = [(a, args) for a, args in acts if a in ("self.open_elems.truncate", "self.pop", "self.pop_until", "self.open_elems.pop", "self.open_elems.drain", "self.open_elems.split_off")]
        if "self.elem_in" in names and "self.html_elem_named" in names and names.index("self.elem_in") < names.index("self.html_elem_named"):
            bad = "the node is tested for the special category before it is compared with the tag name: </p>-like end tags of special elements never match"
        if match and match[-1][1]:
            seen.add("match")
            node = match[-1][0]
            idx = re.sub(r"\.1$", ".0", node)
            gi = [a for a, args in acts if a == "self.generate_implied_end_except" and args == ("p1.name",)]
            if len(gi) != 1:
                bad = "the matching element is closed without 'generate implied end tags, except for elements with the same name'"
            if len(pops) != 1 or pops[0][0] != "self.open_elems.truncate" or pops[0][1] != (idx,):
                bad = "the matching element at stack position %s: pops are %s - everything up to AND INCLUDING it must go" % (idx, pops[:2])
            elif names.index("self.generate_implied_end_except") > names.index("self.open_elems.truncate"):
                bad = "implied end tags are generated after the pop"
            cur = [v for k, v in pc["guards"].items() if re.sub(r"#\d+$", "", k) == "(%s == (self.open_elems.len() - 1))" % idx]
            err = "self.unexpected" in names or "self.sink.parse_error" in names
            if cur and (cur[0] is True) == err:
                bad = "parse error %s although the matching element %s the current node" % ("reported" if err else "not reported", "is" if cur[0] else "is not")
        elif special and special[-1]:
            seen.add("special")
            if pops or _loop_exit(pc) != "break":
                bad = "a special element was met before a match: pops %s, loop %s - the standard stops there, ignoring the tag" % (pops[:1], _loop_exit(pc))
        elif _loop_exit(pc) == "end":
            seen.add("next")
            if pops:
                bad = "elements are popped while walking past non-matching nodes"
    ctx.ob(RULE, "any-other-end-tag", bad is None and {"match", "special", "next"} <= seen, bad or "name match first (implied end tags, error unless current, truncate at its index), special stops, else next node down",
           "html5ever tree_builder process_end_tag_in_body")


def clear_to_marker(ctx):
    """clear the list of active formatting elements up to the last marker: pop entries until a marker has been popped (or the list
    is empty)"""
    key, pcs = nfq.cells(ctx, TB, "TreeBuilder<Handle,Sink>::clear_active_formatting_to_marker")
    bad = None
    seen = set()
    ALL = {"None", "Marker", "Element"}

    def states(alt):
        alt = alt.strip()
        if alt == "None":
            return {"None"}
        if alt in ("Some(_)",):
            return {"Marker", "Element"}
        if "Marker" in alt:
            return {"Marker"}
        if "Element" in alt:
            return {"Element"}
        if alt == "_":
            return set(ALL)
        return set()
    for pc in nfq.feasible(pcs):
        names = [a for a, _ in _acts(pc)]
        pops = [a for a in names if a == "self.active_formatting.pop"]
        if len(pops) != 1:
            bad = "an iteration pops %d entries" % len(pops)
        S = set(ALL)
        looked = False
        for k, v in pc["guards"].items():
            m = re.match(r"self\.active_formatting\.pop\(\)(\.0)? matches (.*)$", re.sub(r"#\d+$", "", k))
            if not m:
                continue
            looked = True
            A = set()
            for alt in m.group(2).split("|"):
                A |= states(alt)
            if m.group(1):
                A -= {"None"}
                S -= {"None"} if True else set()
            S = S & A if v else S - A
        if not looked or not S:
            bad = "the popped entry is not examined"
        elif S <= {"None", "Marker"}:
            seen.add("stop")
            if _loop_exit(pc) != "break":
                bad = "popping goes on past the marker"
        elif S == {"Element"}:
            seen.add("go")
            if _loop_exit(pc) != "end":
                bad = "popping stops at an element entry: entries of the enclosing scope stay on the list"
        else:
            bad = "one path covers both a marker and an element entry (%s)" % sorted(S)
    ctx.ob(RULE, "clear-active-formatting-to-marker", bad is None and seen == {"stop", "go"}, bad or "pops through the last marker, inclusive", "html5ever tree_builder clear_active_formatting_to_marker")


def close_the_cell(ctx):
    """close the cell: implied end tags, pop through td/th (error unless exactly one element went), clear the list to the marker"""
    key, pcs = nfq.cells(ctx, TB, "TreeBuilder<Handle,Sink>::close_the_cell")
    bad = None
    n = 0
    for pc in nfq.feasible(pcs):
        n += 1
        acts = _acts(pc)
        seq = [(a, args) for a, args in acts if a in ("self.generate_implied_end_tags", "self.pop_until", "self.clear_active_formatting_to_marker")]
        if [a for a, _ in seq] != ["self.generate_implied_end_tags", "self.pop_until", "self.clear_active_formatting_to_marker"]:
            bad = "steps are %s" % [a for a, _ in seq]
        elif seq[0][1] != ("cursory_implied_end",) or seq[1][1] != ("td_th",):
            bad = "implied end tags over %s, pop until %s" % (seq[0][1], seq[1][1])
    ctx.ob(RULE, "close-the-cell", bad is None and n >= 1, bad or "generate implied end tags; pop until td/th; clear the list up to the last marker", "html5ever tree_builder close_the_cell")


def reconstruct(ctx):
    """reconstruct the active formatting elements: nothing for an empty list or when the last entry is a marker / open; rewind to
    the entry after the last marker-or-open entry (or the first entry); then, going forward to the END of the list, insert an
    element for each entry's token and put it in the entry's place"""
    key, pcs = nfq.cells(ctx, TB, "TreeBuilder<Handle,Sink>::reconstruct_active_formatting_elements")
    bad = None
    seen = set()
    for pc in nfq.feasible(pcs):
        acts = _acts(pc)
        names = [a for a, _ in acts]
        if "panic!" in names:
            continue
        g = pc["guards"]
        some = g.get("self.active_formatting.last() matches Some(_)")
        ins = [(a, args) for a, args in acts if a == "self.insert_element"]
        if some is False or g.get("self.active_formatting.last() matches None") is True or g.get("self.active_formatting.is_empty()") is True:
            seen.add("empty")
            if len(names) != 0 and ins:
                bad = "elements are inserted for an empty list"
            continue
        last_open = [v for k, v in g.items() if re.match(r"self\.is_marker_or_open\(self\.active_formatting(\.last\(\)\.0|\[\(self\.active_formatting\.len\(\) - 1\)\])\)", k)]
        if last_open and last_open[0]:
            seen.add("nothing-to-do")
            if ins:
                bad = "the last entry is a marker or open, but elements are inserted"
            continue
        if not ins:
            # an iteration of the rewind loop that goes on
            seen.add("rewind")
            prev = [v for k, v in g.items() if re.match(r"self\.is_marker_or_open\(self\.active_formatting\[\(.* - 1\)\]\)", k)]
            if not prev or prev[-1] is not False or _loop_exit(pc) != "end":
                bad = "the rewind loop goes on although the earlier entry is a marker or open (or stops without looking at it)"
            continue
        seen.add("create")
        a, args = ins[0]
        m = re.match(r"(self\.active_formatting\[.*\])\.1\.name$", args[2]) if len(args) >= 5 else None
        if len(ins) != 1 or not m or args[0] != "Push" or args[1] != "atom:http://www.w3.org/1999/xhtml" or args[3] != m.group(1) + ".1.attrs" or args[4] != m.group(1) + ".1.had_duplicate_attributes":
            bad = "the element inserted is not (Push, HTML namespace, the entry's own name / attributes / duplicate flag): %s" % (args,)
            continue
        entry = m.group(1)
        idx = entry[len("self.active_formatting["):-1]
        start = idx
        # where the creation starts: the entry after a marker-or-open one, or the first
        zero = [v for k, v in g.items() if re.sub(r"#\d+$", "", k) == "φ((self.active_formatting.len() - 1)) matches 0"]
        if "+ 1" in idx:
            po = [v for k, v in g.items() if re.match(r"self\.is_marker_or_open\(self\.active_formatting\[\(.* - 1\)\]\)", k)]
            if not po or po[-1] is not True:
                bad = "creation starts one entry later without the earlier entry being a marker or open"
        elif not (zero and zero[0] is True):
            pass
        po_all = [v for k, v in g.items() if re.match(r"self\.is_marker_or_open\(self\.active_formatting\[\(.* - 1\)\]\)", k)]
        if po_all and po_all[-1] is True and "+ 1" not in idx:
            bad = "the rewind stopped at an entry that is a marker or open, and creation starts AT that entry instead of after it"
        if _loop_exit(pc) == "end":
            carried = [args for a, args in acts if a == "loop-end"][-1][1:]
            if "(%s + 1)" % idx not in carried:
                bad = "the creation loop goes on with %s, not with the next entry of the list" % (carried,)
        asg = [(a2, args2) for a2, args2 in acts if a2.startswith("assign self.active_formatting[")]
        if len(asg) != 1 or not asg[0][1] or not re.match(r"Element\(self\.insert_element\(", asg[0][1][0]) or not asg[0][1][0].endswith("," + entry + ".1)"):
            bad = "the entry is not replaced by (new element, same token): %s" % (asg[:1],)
        endt = [v for k, v in g.items() if re.sub(r"#\d+$", "", k) == "(%s == (self.active_formatting.len() - 1))" % idx]
        if not endt:
            bad = "after creating an element the loop does not test whether the entry is the last of the list"
        elif endt[0] and _loop_exit(pc) != "break":
            bad = "creation goes on past the last entry"
        elif not endt[0] and _loop_exit(pc) != "end":
            bad = "creation stops before the last entry of the list"
    ctx.ob(RULE, "reconstruct-active-formatting", bad is None and {"empty", "nothing-to-do", "rewind", "create"} <= seen,
           bad or "empty / marker-or-open: nothing; rewind past entries that are neither; create forward to the end, replacing each entry",
           "html5ever tree_builder reconstruct_active_formatting_elements")


def adoption_bailouts(ctx):
    """adoption agency algorithm, the steps that end it early: (4.3) no formatting element with the subject's name between the end
    of the list and the last marker -> 'any other end tag', nothing else; (4.4) it is not on the stack -> error, entry removed
    from the list, stack untouched; (4.5) on the stack but not in scope -> error, NOTHING removed; (4.7/4.8) no furthest block ->
    the stack is popped through the formatting element, the entry removed.  The furthest block is the TOPMOST special element
    below the formatting element in the stack (first in stack order after it); the common ancestor is the element directly above
    the formatting element; the scope is the default one"""
    key, pcs = nfq.cells(ctx, TB, "TreeBuilder<Handle,Sink>::adoption_agency")
    bad = None
    seen = set()
    MUT = ("self.open_elems.truncate", "self.open_elems.remove", "self.open_elems.insert", "self.open_elems.pop", "self.pop", "self.active_formatting.remove", "self.active_formatting.insert",
           "self.remove_from_stack", "self.sink.append", "self.sink.remove_from_parent", "self.sink.reparent_children", "self.insert_appropriately")
    for pc in nfq.feasible(pcs):
        acts = _acts(pc)
        names = [a for a, _ in acts]
        g = pc["guards"]
        if "panic!" in names:
            continue
        muts = [(a, args) for a, args in acts if a in MUT or a.startswith("assign self.open_elems") or a.startswith("assign self.active_formatting")]
        scope = [(k, v) for k, v in g.items() if k.startswith("self.in_scope(")]
        onstack = [(k, v) for k, v in g.items() if re.match(r"self\.open_elems(\.iter\(\))?\.rposition\(.*\) matches Some\(_\)", k)]
        found = [(k, v) for k, v in g.items() if re.match(r"\(item\.2\.name == p1\)|\(p1 == item\.2\.name\)", re.sub(r"#\d+$", "", k))]
        for k, v in scope:
            if not k.startswith("self.in_scope(default_scope,"):
                bad = "the formatting element is looked for in scope %s; the standard says 'in scope' (the default scope)" % k[:60]
        if "self.process_end_tag_in_body" in names:
            seen.add("no-entry")
            ix = names.index("self.process_end_tag_in_body")
            args = acts[ix][1]
            if muts or not re.match(r"Tag\{.*kind:EndTag.*name:p1|Tag\(EndTag,p1,", args[0].replace(" ", "")):
                bad = "no formatting element: the steps are %s with %s - the standard acts as 'any other end tag' for the subject and does nothing else" % ([a for a, _ in muts][:2], args[0][:60])
            continue
        if onstack and onstack[-1][1] is False and found and found[-1][1]:
            seen.add("not-open")
            if [a for a, _ in muts] != ["self.active_formatting.remove"] or not ("self.sink.parse_error" in names or "self.unexpected" in names):
                bad = "formatting element not on the stack: steps are %s - the standard reports an error and removes the entry from the list, nothing else" % [a for a, _ in muts][:3]
            continue
        if scope and scope[-1][1] is False:
            seen.add("not-in-scope")
            if muts or not ("self.sink.parse_error" in names or "self.unexpected" in names):
                bad = "formatting element not in scope: steps are %s - the standard reports an error and returns with the list and the stack untouched" % [a for a, _ in muts][:3]
            continue
        special = [(k, v) for k, v in g.items() if re.match(r"self\.elem_in\(.*,special_tag\)$", re.sub(r"#\d+$", "", k))]
        fb_loops = [a for a in names if a.startswith("loop-begin") and "skip(" in a and "self.open_elems" in a]
        if fb_loops:
            lb = fb_loops[0]
            if ".rev()" in lb or not re.search(r"self\.open_elems(\.iter\(\))?\.enumerate\(\)\.skip\(self\.open_elems(\.iter\(\))?\.rposition\(", lb):
                bad = "the furthest block is searched with '%s': it must be the first special element in stack order after the formatting element's position" % lb[:120]
            i0 = names.index(lb)
            ends = [args for a, args in acts[i0 + 1:] if a == "loop-end"]
            if special and special[-1][1] and (not ends or ends[0][:1] != ("break",)):
                bad = "the search for the furthest block goes on after the first special element: the LAST special element below the formatting element is taken, the standard takes the topmost"
        if "self.open_elems.truncate" in names and "self.insert_appropriately" not in names:
            seen.add("no-furthest-block")
            tr = [args for a, args in acts if a == "self.open_elems.truncate"][0]
            if not re.match(r"self\.open_elems(\.iter\(\))?\.rposition\(.*\)\.0$", tr[0]):
                bad = "no furthest block: the stack is truncated at %s, not at the formatting element's own position (it is popped too)" % tr[0][:80]
            if [a for a, _ in muts] != ["self.open_elems.truncate", "self.active_formatting.remove"]:
                bad = "no furthest block: steps are %s - pop through the formatting element, remove its entry, nothing else" % [a for a, _ in muts][:4]
            if special and any(v for k, v in special):
                bad = "a special element below the formatting element exists but the no-furthest-block branch is taken"
            continue
        ia = [args for a, args in acts if a == "self.insert_appropriately"]
        if ia and not fb_loops:
            # the search is not written as a loop / find: it must at least be a first-match search going up the stack positions
            txt = [k for k in g if "special_tag" in k and "self.open_elems" in k]
            if not txt or any(re.search(r"\.last\(\)|\.rev\(\)|rfind\(|rposition\(\|\.\.\|\{self\.elem_in|max_by|\.nth_back", k) for k in txt) or not any(re.search(r"\.(find|position)\(", k) for k in txt):
                bad = "the furthest block is not found by a first-match search from the formatting element's position towards the current node (%s): the standard takes the topmost special element below the formatting element" % (txt[0][:140] if txt else "no search found")
        if ia:
            seen.add("step14")
            if not re.match(r"Some\(self\.open_elems\[\(self\.open_elems(\.iter\(\))?\.rposition\(.*\)\.0 - 1\)\]\)$", ia[0][1]):
                bad = "the last node is inserted with override target %s; the common ancestor is the element directly above the formatting element (stack position - 1)" % ia[0][1][:100]
            rc = [args for a, args in acts if a == "self.sink.reparent_children"]
            ap = [args for a, args in acts if a == "self.sink.append"]
            if len(rc) != 1:
                bad = "the furthest block's children are not moved to the new element exactly once"
            elif not ap or ap[-1] != (rc[0][0], "AppendNode(%s)" % rc[0][1]):
                bad = "after moving the furthest block's children to the new element, the new element is not appended to the furthest block (%s)" % (ap[-1:],)
            ins = [args for a, args in acts if a == "self.open_elems.insert"]
            if len(ins) != 1 or not re.match(r"\(self\.open_elems(\.iter\(\))?\.position\(.*\)\.expect\(_\) \+ 1\)$|\(self\.open_elems(\.iter\(\))?\.position\(.*\)(\.0)? \+ 1\)$", ins[0][0]):
                bad = "the new element is put on the stack at %s, not directly below the furthest block (its position + 1)" % (ins[0][0][:90] if ins else "nowhere")
            if "self.remove_from_stack" not in names:
                bad = "the formatting element is not removed from the stack"
    want = {"no-entry", "not-open", "not-in-scope", "no-furthest-block", "step14"}
    ctx.ob(RULE, "adoption-agency-steps", bad is None and want <= seen, bad or "bail-outs mutate exactly what the standard says; furthest block = first special after the formatting element; common ancestor = position - 1; new element below the furthest block",
           "html5ever tree_builder adoption_agency")


def marker_bounded(ctx):
    """the searches the standard limits to "between the end of the list of active formatting elements and the last marker" (an `a`
    element already open, Noah's Ark, the adoption agency's formatting element) never look past a marker: an entry of an
    enclosing table cell / caption / object / template must not be found"""
    bad = None
    n = 0
    for fn in ("TreeBuilder<Handle,Sink>::handle_misnested_a_tags", "TreeBuilder<Handle,Sink>::create_formatting_element_for", "TreeBuilder<Handle,Sink>::adoption_agency"):
        key, pcs = nfq.cells(ctx, TB, fn)
        for pc in nfq.feasible(pcs):
            acts = _acts(pc)
            for i, (a, args) in enumerate(acts):
                if not (a.startswith("loop-begin") and "active_formatting" in a):
                    continue
                n += 1
                if "active_formatting_end_to_marker()" in a:
                    continue
                stops = any(re.search(r"matches (Some\()?\(?.*Marker", k) for k in pc["guards"])
                if not stops:
                    bad = "%s searches '%s': the whole list, not only the entries after the last marker" % (fn.split("::")[-1], a[11:90])
            for k in pc["guards"]:
                if re.search(r"self\.active_formatting(\.iter\(\))?(\.rev\(\))?\.(find|position|rposition|any|find_map)\(", k) and "same_node" not in k:
                    bad = "%s searches the whole list of active formatting elements (%s), not only the entries after the last marker" % (fn.split("::")[-1], k[:90])
    key, pcs = nfq.cells(ctx, TB, "ActiveFormattingIter<'a,Handle>[Iterator]::next")
    ends = False
    for pc in nfq.feasible(pcs):
        ret = str(pc["ret"])
        for k, v in pc["guards"].items():
            m = re.search(r" matches (.*)$", re.sub(r"#\d+$", "", k))
            if m and v and "Marker" in m.group(1):
                ends = True
                if ret != "None":
                    bad = "the end-to-marker view yields %s for a marker instead of ending there" % ret[:60]
    if not ends:
        bad = bad or "the end-to-marker view does not end at a marker"
    ctx.ob(RULE, "searches-stop-at-the-last-marker", bad is None and n >= 3, bad or "%d search loops, all over the end-to-marker view, which ends at the first marker it meets" % n, "html5ever tree_builder active formatting searches")
    # an `a` start tag with an `a` entry after the last marker: error, adoption agency for "a", then the entry and the element are removed if still there
    key, pcs = nfq.cells(ctx, TB, "TreeBuilder<Handle,Sink>::handle_misnested_a_tags")
    bad = None
    k = 0
    for pc in nfq.feasible(pcs):
        names = [a for a, _ in _acts(pc)]
        found = [v for g, v in pc["guards"].items() if re.match(r"self\.html_elem_named\(.*,atom:a\)", g)]
        if not (found and found[-1]):
            if any(a in names for a in ("self.adoption_agency", "self.remove_from_stack", "self.active_formatting.remove")):
                bad = "steps are taken although no `a` entry was found"
            continue
        k += 1
        seq = [a for a in names if a in ("self.adoption_agency", "self.active_formatting.remove", "self.remove_from_stack")]
        still = [v for g, v in pc["guards"].items() if g.startswith("self.position_in_active_formatting(")]
        want = ["self.adoption_agency"] + (["self.active_formatting.remove"] if still and still[-1] else []) + ["self.remove_from_stack"]
        if seq != want or not ("self.unexpected" in names or "self.sink.parse_error" in names):
            bad = "an open `a`: steps %s; the standard: parse error, adoption agency, then remove the element from the list (if still there) and from the stack" % seq
    ctx.ob(RULE, "misnested-a", bad is None and k >= 2, bad or "error, adoption agency, entry removed if still listed, element removed from the stack", "html5ever tree_builder handle_misnested_a_tags")


def small_helpers(ctx):
    """the short helpers the rows lean on: 'close a p element', 'close a p element in button scope', expect-to-close, pop until the
    current node is in a set, foster-parent through the in-body rules, character tokens in table context, the root element"""
    def paths(fn):
        key, pcs = nfq.cells(ctx, TB, "TreeBuilder<Handle,Sink>::" + fn)
        return [pc for pc in nfq.feasible(pcs) if "panic!" not in [a for a, _ in pc["actions"]]]

    def seq(pc, keep):
        return [(a, args) for a, args in _acts(pc) if a in keep]
    facts = []
    # expect_to_close
    bad = None
    for pc in paths("expect_to_close"):
        one = [v for g, v in pc["guards"].items() if re.match(r"self\.pop_until_named\(p1\) matches 1|\(self\.pop_until_named\(p1\) == 1\)", g)]
        err = any(a in ("self.sink.parse_error", "self.unexpected") for a, _ in _acts(pc))
        if not one or one[0] == err or seq(pc, ("self.pop_until_named",)) != [("self.pop_until_named", ("p1",))]:
            bad = "expect_to_close: popped-exactly-one = %s, error reported = %s" % (one[:1], err)
    facts.append(("expect-to-close", bad, "pop until the name; error unless exactly one element was popped"))
    # close_p_element
    bad = None
    for pc in paths("close_p_element"):
        sq = seq(pc, ("self.generate_implied_end_tags", "self.generate_implied_end_except", "self.expect_to_close", "self.pop_until_named"))
        if len(sq) != 2 or sq[0][0] not in ("self.generate_implied_end_tags", "self.generate_implied_end_except") or sq[1] != ("self.expect_to_close", ("atom:p",)) or sq[0][1] in (("cursory_implied_end",), ("thorough_implied_end",)):
            bad = "close a p element does %s; the standard: generate implied end tags except for p, then pop until a p has been popped (error if it was not the current node)" % sq
    facts.append(("close-a-p-element", bad, "implied end tags except p, then expect_to_close(p)"))
    bad = None
    for pc in paths("close_p_element_in_button_scope"):
        sc = [v for g, v in pc["guards"].items() if g.startswith("self.in_scope_named(")]
        lab = [g for g in pc["guards"] if g.startswith("self.in_scope_named(")]
        closes = any(a == "self.close_p_element" for a, _ in _acts(pc))
        if not sc or sc[0] != closes or not lab[0].startswith("self.in_scope_named(button_scope,atom:p)"):
            bad = "p in button scope = %s (%s) but close_p_element called = %s" % (sc[:1], lab[:1], closes)
    facts.append(("close-p-in-button-scope", bad, "close_p_element iff a p element is in button scope"))
    # pop_until_current
    bad = None
    seen = set()
    for pc in paths("pop_until_current"):
        inn = [v for g, v in pc["guards"].items() if g.startswith("self.current_node_in(p1)")]
        pops = [a for a, _ in _acts(pc) if a in ("self.pop", "self.open_elems.pop")]
        if not inn:
            bad = "the current node is not tested"
        elif inn[0]:
            seen.add("stop")
            if pops or _loop_exit(pc) != "break":
                bad = "current node in the set: pops %s, loop %s" % (pops, _loop_exit(pc))
        else:
            seen.add("pop")
            if len(pops) != 1 or _loop_exit(pc) != "end":
                bad = "current node not in the set: pops %s, loop %s" % (pops, _loop_exit(pc))
    facts.append(("pop-until-current", bad or (None if seen == {"stop", "pop"} else "paths missing"), "pop while the current node is not in the set"))
    # foster_parent_in_body
    bad = None
    for pc in paths("foster_parent_in_body"):
        sq = seq(pc, ("set self.foster_parenting", "self.step", "self.foster_parenting.set"))
        if sq != [("set self.foster_parenting", ("true",)), ("self.step", ("InBody", "p1")), ("set self.foster_parenting", ("false",))] or str(pc["ret"]) != "self.step(InBody,p1)":
            bad = "foster_parent_in_body does %s -> %s; the standard: foster parenting on, the in-body rules for this token, foster parenting off" % (sq, str(pc["ret"])[:40])
    facts.append(("foster-parent-in-body", bad, "flag on, step(InBody, token), flag off; the step's answer returned"))
    # process_chars_in_table
    bad = None
    seen = set()
    for pc in paths("process_chars_in_table"):
        inn = [v for g, v in pc["guards"].items() if g.startswith("self.current_node_in(table_outer)")]
        names = [a for a, _ in _acts(pc)]
        if not inn:
            bad = "the current node is not tested against table / tbody / tfoot / thead / tr"
        elif inn[0]:
            seen.add("table")
            if ("set self.orig_mode", ("Some(self.mode.get())",)) not in _acts(pc) or str(pc["ret"]) != "Reprocess(InTableText,p1)" or "self.foster_parent_in_body" in names:
                bad = "character token in table context: %s -> %s; the standard saves the insertion mode and switches to 'in table text', reprocessing the token" % (names, str(pc["ret"])[:40])
        else:
            seen.add("elsewhere")
            if "self.foster_parent_in_body" not in names or not any(a in ("self.sink.parse_error", "self.unexpected") for a in names) or str(pc["ret"]) != "self.foster_parent_in_body(p1)":
                bad = "character token outside table context: %s -> %s; the standard: parse error, foster-parent through the in-body rules" % (names, str(pc["ret"])[:40])
    facts.append(("chars-in-table", bad or (None if seen == {"table", "elsewhere"} else "paths missing"), "table context -> in table text (mode saved); else error + foster parenting"))
    # create_root
    bad = None
    for pc in paths("create_root"):
        a = _acts(pc)
        ce = [args for x, args in a if x in ("call create_element", "call create_element_with_flags")]
        if len(ce) != 1 or ce[0][:3] != ("self.sink", "new(None,atom:http://www.w3.org/1999/xhtml,atom:html)", "p1"):
            bad = "the root element is created as %s" % (ce[:1],)
            continue
        el = "%s(%s)" % ("create_element" if len(ce[0]) == 3 else "create_element_with_flags", ",".join(ce[0]))
        if ("self.push", (el,)) not in a or ("self.sink.append", ("self.doc_handle", "AppendNode(%s)" % el)) not in a:
            bad = "the root element is not both pushed and appended to the document"
    facts.append(("create-root", bad, "html element (HTML namespace, the token's attributes) pushed and appended to the document"))
    # pop_until_named
    bad = None
    for pc in paths("pop_until_named"):
        pu = [args for x, args in _acts(pc) if x == "self.pop_until"]
        if len(pu) != 1 or not re.search(r"a1\.ns == atom:http://www\.w3\.org/1999/xhtml\)", pu[0][0]) or not re.search(r"a1\.local == p1\)|p1 == \*?a1\.local", pu[0][0]):
            bad = "pop_until_named pops until %s, not until an HTML element with the given local name" % (pu[:1],)
    facts.append(("pop-until-named", bad, "pop until an element in the HTML namespace with that local name has been popped"))
    for name, bad, okmsg in facts:
        ctx.ob(RULE, "helper/" + name, bad is None, bad or okmsg, "html5ever tree_builder " + name)


def dispatcher(ctx):
    """the tree construction dispatcher (is_foreign): for every kind of token x every kind of adjusted current node the decision
    'rules for foreign content' vs 'current insertion mode' is the standard's: HTML content for an empty stack, an HTML element,
    a MathML text integration point with a start tag other than mglyph / malignmark or a character, annotation-xml with a start
    tag svg, an HTML integration point (SVG foreignObject / desc / title, annotation-xml with an HTML encoding) with a start tag
    or a character, and end of file; foreign content otherwise"""
    key, pcs = nfq.cells(ctx, TB, "TreeBuilder<Handle,Sink>::is_foreign")
    paths = nfq.feasible(pcs)
    TOK = ("eof", "chars", "start:mglyph", "start:malignmark", "start:svg", "start:other", "end", "comment")
    NODE = ("empty", "html", "mtext", "svgip", "axml-ip", "axml", "other")

    def tok_alt(alt, t):
        alt = alt.strip()
        if alt in ("Eof",):
            return t == "eof"
        if alt.startswith("Characters(") or alt == "NullCharacter":
            return t == "chars"
        if alt.startswith("Comment("):
            return t == "comment"
        m = re.fullmatch(r"Tag\(Tag\{kind:(StartTag|EndTag)(,name:(_|atom:[\w-]+))?(,\.\.)?\}\)", alt)
        if m:
            if m.group(1) == "EndTag":
                return t == "end" and (m.group(3) in (None, "_"))
            if not t.startswith("start:"):
                return False
            if m.group(3) in (None, "_"):
                return True
            nm = m.group(3)[5:]
            return t == "start:" + nm if nm in ("mglyph", "malignmark", "svg") else None
        if alt == "_":
            return True
        return None

    def ev(g, t, n):
        g = re.sub(r"#\d+$", "", g)
        if g.startswith("p1 matches "):
            rs = [tok_alt(a, t) for a in g[len("p1 matches "):].split("|")]
            return None if any(r is None for r in rs) else any(rs)
        m = re.fullmatch(r"p1\.0\.name matches ((atom:[\w-]+\|?)+)", g)
        if m:
            names = {a[5:] for a in m.group(1).split("|")}
            if not t.startswith("start:"):
                return False
            return t[6:] in names if names <= {"mglyph", "malignmark", "svg"} else None
        if g == "self.open_elems.is_empty()":
            return n == "empty"
        if g.endswith(".expanded().ns matches atom:http://www.w3.org/1999/xhtml") and "adjusted_current_node()" in g:
            return n == "html"
        if g.startswith("mathml_text_integration_point(") and "adjusted_current_node()" in g:
            return n == "mtext"
        if g.startswith("svg_html_integration_point(") and "adjusted_current_node()" in g:
            return n == "svgip"
        if "matches ExpandedName{ns:atom:http://www.w3.org/1998/Math/MathML,local:atom:annotation-xml}" in g and "adjusted_current_node()" in g:
            return n in ("axml", "axml-ip")
        if g.startswith("self.sink.is_mathml_annotation_xml_integration_point(") and "adjusted_current_node()" in g:
            return n == "axml-ip"
        return None
    bad = None
    k = 0
    for t in TOK:
        for n in NODE:
            html = (t == "eof" or n in ("empty", "html") or (n == "mtext" and (t == "chars" or (t.startswith("start:") and t not in ("start:mglyph", "start:malignmark"))))
                    or (n in ("axml", "axml-ip") and t == "start:svg") or (n in ("svgip", "axml-ip") and (t == "chars" or t.startswith("start:"))))
            answers = set()
            for pc in paths:
                ok = True
                for g, v in pc["guards"].items():
                    r = ev(g, t, n)
                    if r is None:
                        raise AnchorMissing("is_foreign tests '%s', which the dispatcher rule cannot interpret" % g[:100])
                    if r != v:
                        ok = False
                        break
                if ok:
                    answers.add(str(pc["ret"]))
            k += 1
            want = "false" if html else "true"
            if answers != {want}:
                bad = "token %s with adjusted current node %s: the code answers is_foreign = %s, the standard's dispatcher says %s" % (t, n, sorted(answers) or "nothing", "HTML content (insertion mode)" if html else "foreign content")
    ctx.ob(RULE, "tree-construction-dispatcher", bad is None and k == len(TOK) * len(NODE), bad or "%d (token kind, node kind) situations decided as the standard's dispatcher does" % k, "html5ever tree_builder is_foreign")
    # the adjusted current node: the context element iff the stack has exactly one element and there is a context element
    key, pcs = nfq.cells(ctx, TB, "TreeBuilder<Handle,Sink>::adjusted_current_node")
    bad = None
    seen = set()
    for pc in nfq.feasible(pcs):
        g = pc["guards"]
        one = [v for x, v in g.items() if re.fullmatch(r"self\.open_elems\.len\(\) matches 1|\(self\.open_elems\.len\(\) == 1\)", re.sub(r"#\d+$", "", x))]
        ctxe = [v for x, v in g.items() if "self.context_elem" in x]
        ret = str(pc["ret"])
        if one and one[0] and ctxe and ctxe[-1]:
            seen.add("context")
            if "context_elem" not in ret:
                bad = "one element on the stack and a context element: the answer is %s" % ret[:60]
        else:
            seen.add("current")
            if ret != "self.current_node()":
                bad = "the adjusted current node is %s although the stack does not consist of exactly one element with a context element present" % ret[:60]
        if not one:
            bad = "the stack size is not tested against exactly one"
    ctx.ob(RULE, "adjusted-current-node", bad is None and seen == {"context", "current"}, bad or "context element iff exactly one open element (fragment case), else the current node", "html5ever tree_builder adjusted_current_node")


def marker_or_open(ctx):
    """'a marker, or an element that is in the stack of open elements': a marker answers true; an element entry answers whether
    ANY element of the whole stack is that node - the search is not cut short (a formatting element can sit below a special
    element: <b><div>)"""
    key, pcs = nfq.cells(ctx, TB, "TreeBuilder<Handle,Sink>::is_marker_or_open")
    bad = None
    seen = set()
    for pc in nfq.feasible(pcs):
        g = pc["guards"]
        ret = str(pc["ret"])
        if g.get("p1 matches Marker") is True or (g.get("p1 matches Element(_,_)") is False and "p1 matches Marker" not in g):
            seen.add("marker")
            if ret != "true":
                bad = "a marker answers %s" % ret
            continue
        srch = [(k, v) for k, v in g.items() if "self.open_elems" in k and "same_node" in k]
        loops = [a for a, _ in _acts(pc) if a.startswith("loop-begin") and "self.open_elems" in a]
        if srch:
            k, v = srch[-1]
            if re.search(r"take_while|skip_while|\.skip\(|\.take\(|filter|step_by|\[\.\.|\[\d|split", k):
                bad = "the stack is searched only in part (%s): an element that is open but lies outside that part is taken for closed and reconstructed a second time" % k[:100]
            if not re.search(r"same_node\((a1,p1\.0|p1\.0,a1)\)", k):
                bad = "the stack is searched for something other than the entry's own node (%s)" % k[:80]
            seen.add("found" if v else "absent")
            if ret != ("true" if v else "false"):
                bad = "the search answers %s but the function answers %s" % (v, ret)
        elif loops:
            if re.search(r"take_while|skip|take\(|filter", loops[0]):
                bad = "the stack is searched only in part (%s)" % loops[0][:100]
            seen.add("found" if ret == "true" else "absent")
        else:
            bad = "an element entry is answered without searching the stack of open elements"
    ctx.ob(RULE, "is-marker-or-open", bad is None and {"marker", "found", "absent"} <= seen, bad or "marker -> true; element -> is any element of the whole stack that node", "html5ever tree_builder is_marker_or_open")


def ignore_lf_one_token(ctx):
    """'if the NEXT token is a LF character token, ignore it' (after <pre>, <listing>, <textarea>): the flag lives for exactly one
    token - process_token takes it (reads and clears) on every path, whatever the token is, before anything else can set it"""
    key, pcs = nfq.cells(ctx, TB, "TreeBuilder<Handle,Sink>[TokenSink]::process_token")
    bad = None
    n = 0
    for pc in nfq.feasible(pcs):
        names = [a for a, _ in _acts(pc)]
        n += 1
        takes = [i for i, a in enumerate(names) if a in ("self.ignore_lf.take", "take self.ignore_lf", "self.ignore_lf.replace", "self.ignore_lf.set", "set self.ignore_lf")]
        if not takes:
            kinds = [g[:60] for g, v in pc["guards"].items() if v and g.startswith("p1 matches")][:1]
            bad = "a token (%s) passes process_token without the ignore-LF flag being consumed: a line feed arriving after further tokens (a tag, a comment) is dropped although it does not directly follow the <pre> / <textarea> start tag" % (kinds or "?")
        elif any(a in ("self.process_to_completion", "self.step") for a in names[:takes[0]]):
            bad = "the token is processed before the ignore-LF flag of the previous token is consumed"
    ctx.ob(RULE, "ignore-lf-lives-for-one-token", bad is None and n >= 10, bad or "%d paths: the flag is taken first, on every path" % n, "html5ever tree_builder process_token")


def insert_an_element(ctx):
    """insert an HTML element: ONE element is created from the arguments as they are (no prefix, the given namespace, name,
    attributes, duplicate flag), inserted at the appropriate place (no override target), pushed on the stack of open elements
    exactly when asked to, and returned.  insert_at hands LastChild / BeforeSibling / TableFosterParenting to the matching sink
    call with the same node"""
    key, pcs = nfq.cells(ctx, TB, "TreeBuilder<Handle,Sink>::insert_element")
    bad = None
    n = 0
    for pc in nfq.feasible(pcs):
        acts = _acts(pc)
        names = [a for a, _ in acts]
        if "panic!" in names:
            continue
        n += 1
        ce = [args for a, args in acts if a == "call create_element_with_flags"]
        if len(ce) != 1 or ce[0] != ("self.sink", "new(None,p2,p3)", "p4", "p5"):
            bad = "the element is created as %s, not from (no prefix, the namespace, name, attributes and duplicate flag handed in)" % (ce[:1],)
            continue
        elem = "create_element_with_flags(%s)" % ",".join(ce[0])
        ap = [args for a, args in acts if a == "self.appropriate_place_for_insertion"]
        ia = [args for a, args in acts if a == "self.insert_at"]
        if ap != [("None",)] or len(ia) != 1 or ia[0] != ("self.appropriate_place_for_insertion(None)", "AppendNode(%s)" % elem):
            bad = "the element is not inserted exactly once at the appropriate place for inserting a node (%s / %s)" % (ap[:1], ia[:1])
        push = gval_push(pc["guards"])
        pushes = [args for a, args in acts if a == "self.push"]
        if push is None or (push and pushes != [(elem,)]) or (not push and pushes):
            bad = "push flag %s but pushes %s" % (push, pushes)
        if push and names.index("self.push") < names.index("self.insert_at"):
            bad = "the element is pushed before it is inserted"
        if str(pc["ret"]) != elem:
            bad = "the function answers %s, not the element it inserted" % str(pc["ret"])[:60]
    ctx.ob(RULE, "insert-an-element", bad is None and n >= 8, bad or "%d paths: created from the arguments, inserted at the appropriate place, pushed iff Push, returned" % n, "html5ever tree_builder insert_element")
    key, pcs = nfq.cells(ctx, TB, "TreeBuilder<Handle,Sink>::insert_at")
    bad = None
    seen = set()
    want = {"LastChild": ("self.sink.append", ("p1.0", "p2")), "BeforeSibling": ("self.sink.append_before_sibling", ("p1.0", "p2")), "TableFosterParenting": ("self.sink.append_based_on_parent_node", ("p1.0", "p1.1", "p2"))}
    for pc in nfq.feasible(pcs):
        kind = [re.match(r"p1 matches (\w+)", g).group(1) for g, v in pc["guards"].items() if v and re.match(r"p1 matches (\w+)", g)]
        acts = _acts(pc)
        if len(kind) != 1 or kind[0] not in want:
            continue
        seen.add(kind[0])
        a, args = want[kind[0]]
        got = [(x, tuple(re.sub(r"p1\.(element|parent|sibling)$", "p1.0", re.sub(r"p1\.prev_element$", "p1.1", y)) for y in ar)) for x, ar in acts]
        if got != [(a, args)]:
            bad = "insertion point %s leads to %s, not to %s%s" % (kind[0], got[:2], a, args)
    ctx.ob(RULE, "insert-at", bad is None and seen == set(want), bad or "LastChild -> append, BeforeSibling -> append_before_sibling, TableFosterParenting -> append_based_on_parent_node(table, previous element, child)",
           "html5ever tree_builder insert_at")


def gval_push(guards):
    for g, v in guards.items():
        m = re.fullmatch(r"p1 matches (Push|NoPush)(#\d+)?", g)
        if m:
            return v if m.group(1) == "Push" else not v
    return None


def adoption_inner_loop(ctx):
    """adoption agency, the inner loop (steps 4.13.x): node climbs the stack one position per iteration; reaching the formatting
    element ends the loop; after three iterations a node that is still listed is taken off the list; a node that is not (or no
    longer) listed is removed from the stack and nothing else; otherwise a new element is created for the node's entry
    (HTML namespace, the entry's name / attributes / flag), put in the node's place in BOTH the list and the stack, the last node
    is moved under it, and it becomes the last node; the bookmark moves behind it only when the last node was the furthest block"""
    key, pcs = nfq.cells(ctx, TB, "TreeBuilder<Handle,Sink>::adoption_agency")
    bad = None
    seen = set()
    for pc in nfq.feasible(pcs):
        acts = _acts(pc)
        names = [a for a, _ in acts]
        if "loop-begin loop" not in names:
            continue
        i = names.index("loop-begin loop")
        ends = [k for k in range(i + 1, len(acts)) if acts[k][0] == "loop-end"]
        if not ends:
            continue
        inner = acts[i + 1:ends[0] + 1]
        inames = [a for a, _ in inner]
        if "panic!" in inames:
            continue
        sn = [args for a, args in inner if a == "self.sink.same_node"]
        if not sn:
            bad = "an iteration of the inner loop does not compare node with the formatting element"
            continue
        node = sn[0][0]
        m = re.fullmatch(r"self\.open_elems\[\((.*) - 1\)\]", node)
        if not m:
            bad = "node is %s, not the element one position above the previous node in the stack" % node[:60]
            continue
        idx = "(%s - 1)" % m.group(1)
        end = inner[-1][1]
        is_fmt = [v for g, v in pc["guards"].items() if g.startswith("self.sink.same_node(%s," % node)]
        if is_fmt and is_fmt[0]:
            seen.add("reached")
            if end[0] != "break" or len(inner) != 2:
                bad = "node is the formatting element but the loop does %s" % inames
            continue
        if end[0] not in ("end", "continue"):
            bad = "the inner loop is left (%s) before node reached the formatting element" % end[0]
            continue
        carried = end[1:]
        if idx not in carried:
            bad = "the position carried into the next iteration is not node's (%s)" % (carried,)
        over = [v for g, v in pc["guards"].items() if re.fullmatch(r"\(\d+ < \(φ\(0\) \+ 1\)\)(#\d+)?", g)]
        listed = [v for g, v in pc["guards"].items() if g.startswith("self.position_in_active_formatting(%s) matches Some(_)" % node)]
        muts = [(a, args) for a, args in inner if a in ("self.active_formatting.remove", "self.open_elems.remove", "call create_element_with_flags", "self.sink.append", "self.sink.remove_from_parent") or a.startswith("assign self.")]
        mn = [a for a, _ in muts]
        pos = "self.position_in_active_formatting(%s).0" % node
        if over and over[0]:
            want = (["self.active_formatting.remove"] if listed and listed[0] else []) + ["self.open_elems.remove"]
            seen.add("over-three")
            if not listed:
                bad = "more than three iterations: node is removed from the stack without asking whether it is still in the list of active formatting elements (it must be taken off the list too)"
            if mn != want or (listed and listed[0] and muts[0][1] != (pos,)) or muts[-1][1] != (idx,):
                bad = "more than three iterations: steps %s %s; the standard: remove node from the list if it is there, then from the stack" % (mn, [x[1] for x in muts][:2])
        elif listed and listed[0] is False:
            seen.add("not-listed")
            if mn != ["self.open_elems.remove"] or muts[0][1] != (idx,):
                bad = "node not in the list: steps %s; the standard removes it from the stack and goes on" % mn
        elif listed and listed[0]:
            seen.add("replace")
            entry = "self.active_formatting[%s]" % pos
            ce = [args for a, args in muts if a == "call create_element_with_flags"]
            if len(ce) != 1 or len(ce[0]) < 4 or ce[0][0] != "self.sink" or ce[0][1] != "new(None,atom:http://www.w3.org/1999/xhtml,%s.1.name)" % entry or ce[0][2] != entry + ".1.attrs" or ce[0][3] != entry + ".1.had_duplicate_attributes":
                bad = "the replacement element is not created from node's own entry (HTML namespace, its name, attributes, duplicate flag): %s" % (ce[:1],)
                continue
            new = "create_element_with_flags(%s)" % ",".join(ce[0])
            asg = {a: args for a, args in muts if a.startswith("assign self.")}
            if not any(a.startswith("assign self.open_elems[") and args == (new,) for a, args in asg.items()):
                bad = "the new element does not take node's place in the stack of open elements"
            if not any(a.startswith("assign self.active_formatting[") and args == ("Element(%s,%s.1)" % (new, entry),) for a, args in asg.items()):
                bad = "the new element does not take node's place in the list of active formatting elements (with the same token)"
            ap = [args for a, args in muts if a == "self.sink.append"]
            rp = [args for a, args in muts if a == "self.sink.remove_from_parent"]
            if len(ap) != 1 or ap[0][0] != new or not re.fullmatch(r"AppendNode\((.*)\)", ap[0][1]):
                bad = "the last node is not appended to the new element (%s)" % (ap[:1],)
            else:
                last = re.fullmatch(r"AppendNode\((.*)\)", ap[0][1]).group(1)
                if rp != [(last,)] or mn.index("self.sink.remove_from_parent") > mn.index("self.sink.append"):
                    bad = "the last node is not taken out of its parent before it is appended to the new element"
                if carried.count(new) < 2:
                    bad = bad or "after the replacement node / last node are not both the new element (%s)" % (carried,)
                bm = [v for g, v in pc["guards"].items() if g.startswith("self.sink.same_node(%s," % last)]
                moved = any(c == "InsertAfter(%s)" % new for c in carried)
                if moved and not bm:
                    bad = "the bookmark moves behind the new element without the last node having been compared with the furthest block"
                if bm and bm[-1] != moved:
                    bad = "the bookmark %s although the last node %s the furthest block" % ("moves" if moved else "stays", "is" if bm[-1] else "is not")
    ctx.ob(RULE, "adoption-agency-inner-loop", bad is None and {"reached", "over-three", "not-listed", "replace"} <= seen, bad or "climb by one; stop at the formatting element; > 3: unlist + unstack; unlisted: unstack; else replace in list and stack, move last node under it, bookmark behind it only for the furthest block",
           "html5ever tree_builder adoption_agency")




def _helper_excludes_annotation_xml(ctx, pc):
    """a guard `self.<helper>()` found false counts as 'not an annotation-xml integration point' when every path on which that
    helper answers false has itself found the annotation-xml name test or the sink's query false"""
    for k, v in pc["guards"].items():
        m = re.fullmatch(r"self\.(\w+)\(\)", re.sub(r"#\d+$", "", k))
        if not m or v is not False:
            continue
        try:
            key, hp = nfq.cells(ctx, TB, "TreeBuilder<Handle,Sink>::" + m.group(1))
        except Exception:  # noqa
            continue
        neg = [h for h in nfq.feasible(hp) if str(h["ret"]) == "false"]
        pos = [h for h in nfq.feasible(hp) if str(h["ret"]) != "false"]

        def excl(h):
            t = " ".join(g for g, gv in h["guards"].items() if gv is False)
            return "is_mathml_annotation_xml_integration_point" in t or "annotation-xml" in t
        if neg and all(excl(h) for h in neg):
            return True
        # the helper's answer may also BE the sink's answer (`name test && sink query`): then its non-false paths return the query
        if pos and all("is_mathml_annotation_xml_integration_point" in str(h["ret"]) for h in pos) and all(excl(h) for h in neg):
            return True
    return False


def input_type_hidden(ctx):
    """'the token does not have an attribute with the name type, or it does but its value is not an ASCII case-insensitive match
    for the string hidden': the helper answers true only for the attribute named type (no namespace) whose value is compared
    with "hidden" ASCII case-insensitively"""
    key, pcs = nfq.cells(ctx, TB, "TreeBuilder<Handle,Sink>::is_type_hidden")
    bad = None
    n = 0
    for pc in nfq.feasible(pcs):
        if str(pc["ret"]) == "false":
            continue
        n += 1
        pos = " ".join(k for k, v in pc["guards"].items() if v is True) + " " + str(pc["ret"])
        if "atom:type" not in pos and 'local_name!("type")' not in pos and "get_attribute" not in pos:
            bad = bad or "answers true without having found the attribute named type"
        low = pos.lower()
        if not ('eq_ignore_ascii_case("hidden")' in pos or re.search(r'to_ascii_lowercase\(\)[^&|]*"hidden"', pos) or re.search(r'"hidden"[^&|]*to_ascii_lowercase', pos)):
            bad = bad or "the value of type is not compared with \"hidden\" ASCII case-insensitively (%s): <input type=HIDDEN> in a table is foster-parented and clears the frameset-ok flag" % pos[-90:]
    ctx.ob(RULE, "input-type-hidden-case-insensitive", bad is None and n >= 1, bad or "type == hidden, ASCII case-insensitively", "html5ever tree_builder is_type_hidden")


def foreign_breakout(ctx):
    """a breakout start tag in foreign content ('pop ... until the current node is a MathML text integration point, an HTML
    integration point, or an element in the HTML namespace'): a pop happens only after all four stop conditions were found
    false for the current node - HTML namespace, MathML text integration point, the SVG HTML integration points, and
    annotation-xml whose encoding makes it one (asked from the sink, like the dispatcher does) - and the token is then
    processed by the rules of the current insertion mode"""
    key, pcs = nfq.cells(ctx, TB, "TreeBuilder<Handle,Sink>::unexpected_start_tag_in_foreign_content")
    bad = None
    pops = 0
    done = 0
    for pc in nfq.feasible(pcs):
        names = [a for a, _ in _acts(pc)]
        false_text = " ".join(k for k, v in pc["guards"].items() if v is False)
        if "self.pop" in names:
            pops += 1
            need = [("http://www.w3.org/1999/xhtml", "an element in the HTML namespace"), ("mathml_text_integration_point", "a MathML text integration point"),
                    ("svg_html_integration_point", "an SVG HTML integration point (foreignObject, desc, title)")]
            for tok, what in need:
                if tok not in false_text:
                    bad = bad or "an element is popped without having established that the current node is not %s" % what
            if "is_mathml_annotation_xml_integration_point" not in false_text and "annotation-xml" not in false_text and not _helper_excludes_annotation_xml(ctx, pc):
                bad = bad or ("an element is popped without having established that the current node is not a MathML annotation-xml HTML integration point "
                              "(encoding text/html or application/xhtml+xml): '<math><annotation-xml encoding=text/html><svg><b>' pops the annotation-xml and the math element")
        if _loop_exit(pc) == "break" or str(pc["ret"]).startswith("self.step("):
            done += 1
            if not any(a == "self.step" and args and args[0] == "self.mode.get()" for a, args in _acts(pc)):
                bad = bad or "after the pops the token is not processed by the rules of the current insertion mode"
    ctx.ob(RULE, "foreign-breakout-stops-at-integration-points", bad is None and pops >= 1 and done >= 1, bad or
           "%d popping paths each exclude HTML namespace / MathML text / SVG HTML / annotation-xml integration points first; %d exits reprocess in the current mode" % (pops, done),
           "html5ever tree_builder unexpected_start_tag_in_foreign_content")


FACTS = (input_type_hidden, foreign_breakout, small_helpers, dispatcher, marker_or_open, ignore_lf_one_token, insert_an_element, adoption_inner_loop, marker_bounded, in_scope, implied_end_tags, pop_until, appropriate_place, any_other_end_tag, clear_to_marker, close_the_cell, reconstruct, adoption_bailouts)


def run(ctx):
    ctx.rule(RULE, "helper algorithms of the tree builder (in scope, implied end tags, pop until, appropriate place / foster parenting, any other end tag, clear to marker, "
                   "close the cell, reconstruct formatting, adoption agency bail-outs and placement) do what the standard's steps say")
    for f in FACTS:
        ctx.guard(RULE, f.__name__, (lambda f=f: f(ctx)))
