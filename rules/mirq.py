"""Queries over the MIR call graph shared by who-may-... rules."""


def _callers(ctx):
    if not hasattr(ctx, "_callers_cache"):
        cg = ctx.mir.callgraph()
        rev = {}
        for src, dsts in cg.items():
            for d in dsts:
                if not isinstance(d, tuple):
                    rev.setdefault(d, set()).add(src)
        ctx._callers_cache = rev
    return ctx._callers_cache


def is_new(ctx, f):
    """a function the reviewed tree did not have (ref/fn_names.json): a helper extracted since"""
    known = getattr(ctx.ast, "known", None) or {}
    base = f
    if f.d["kind"] == "Closure":
        par = [g for g in ctx.mir.by_crate[f.crate] if g.path == f.d.get("closure_of")]
        base = par[0] if par else f
    return bool(known.get(f.crate)) and base.d["kind"] != "Closure" and base.name not in known[f.crate]


def reviewed_owners(ctx, f, _seen=None):
    """the reviewed functions on whose behalf `f` acts: f itself when the reviewed tree had it, otherwise (a helper extracted
    since) the reviewed functions that call it, transitively; a new function nobody calls owns itself"""
    if not is_new(ctx, f):
        return {f.name}
    seen = _seen or set()
    if f.id in seen:
        return set()
    seen = seen | {f.id}
    out = set()
    for cid in _callers(ctx).get(f.id, ()):
        g = ctx.mir.fns.get(cid)
        if g is not None and g.id != f.id:
            out |= reviewed_owners(ctx, g, seen)
    return out or {f.name}


def reviewed_owner_fns(ctx, f, _seen=None):
    """like reviewed_owners, but the functions themselves"""
    if not is_new(ctx, f):
        return [f]
    seen = _seen or set()
    if f.id in seen:
        return []
    seen = seen | {f.id}
    out = []
    for cid in _callers(ctx).get(f.id, ()):
        g = ctx.mir.fns.get(cid)
        if g is not None and g.id != f.id:
            for h in reviewed_owner_fns(ctx, g, seen):
                if h not in out:
                    out.append(h)
    return out or [f]
