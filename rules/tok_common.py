"""Rules shared by C01 (HTML) and C15 (XML): code-extracted tables equal the reviewed reference."""
from lib import machine as mc


def compare_section(ctx, rule, which, section, T, R, per_item_label):
    """compare one table section against the reference; one obligation per state / function"""
    ref = mc.from_json(R[section])
    new = T[section]
    diffs = {}

    def report(kind, st, detail):
        diffs.setdefault(st, []).append((kind, detail))

    n = mc.compare_projected(ref, new, report)
    for st in sorted(set(ref) | set(new)):
        key = "%s/%s=%s" % (section, per_item_label, st)
        if st in diffs:
            kind, detail = diffs[st][0]
            ctx.advise(rule, key + "/" + kind, detail + (" (+%d more)" % (len(diffs[st]) - 1) if len(diffs[st]) > 1 else ""),
                       "%s tokenizer, %s" % (which, st))
        else:
            ctx.ob(rule, key, True, "%d cells equal the reference pointwise" % len(new.get(st) or []))
    return n


def not_tabulated(ctx, rule, T, R):
    cur = set(T["errors"])
    refd = set(R.get("not_tabulated", {}))
    for name in sorted(cur - refd):
        ctx.ob(rule, "not-tabulated/" + name, False, "function left the decision-tree fragment the flattener models: " + T["errors"][name])
    for name in sorted(cur & refd):
        ctx.ob(rule, "not-tabulated/" + name, True, "reviewed exception: " + T["errors"][name])
