"""C12 — tendril buffers are freed exactly once and never accessed out of bounds (DESIGN 4.C12)."""
import re

from lib import machine as mc
from lib.mir import AnchorMissing
from . import mirq, nf_common, nfq
from .guardlib import gval, comparisons, lt_true, ge_true

MANIFEST = {
    "text": "Pairing and who-may-call rules on the reference-counted buffer: every additional view of a heap buffer (ptr::read in clone, Tendril::shared in unsafe_subtendril) is preceded by make_buf_shared and incref; Drop destroys the buffer on exactly two edges (unshared; shared and decrement()==1 followed by the acquire fence) and nothing else calls destroy; the atomic counter is updated by single read-modify-write operations; an inline tag overwrites self.ptr only when the tendril is inline; into_send passes make_owned before re-labelling; ownership-duplicating primitives occur only in the reviewed functions; the only unsafe Send impl is SendTendril's. Plus reviewed normal forms of tendril.rs and buf32.rs.",
    "note": "Decides R12.1-R12.6. Not decided: bounds of raw pointer arithmetic, capacity rounding, the memory model of the fence; compile-fail witnesses for !Send / !Sync run in the thorough tier only. Also decided: inline and heap branch of push_bytes_without_validating lay the bytes out identically; the heap write starts at len - drop_left (R12.7). Also decided: no panic site while a Vec aliases the buffer in Buf32 (R12.8). Round 6: Tendril::inline only under length <= MAX_INLINE_LEN (R12.10). Round 8: R12.11 = R11.1 / R11.4 (copy on write before a mutable view; zero-copy merge only for exactly adjacent views of one shared buffer).",
    "technique": "pairing / who-may-call rules over MIR (resolved callees, impl facts) and function normal forms",
}
LEVEL = "other"
EXPLANATION = """
R12.1 new views are counted; R12.2 Drop edges and who-may-destroy; R12.3 thread transfer (into_send, unsafe impl
Send facts from the type-checked program, atomic RMW); R12.4 ownership primitives confined (MIR call graph over the
whole tendril crate); R12.5 inline tag never overwrites a heap pointer; R12.6 reviewed normal forms.
"""
ASSUMPTIONS = ["Vec::from_raw_parts / mem::forget round trip in Buf32 is sound", "AtomicUsize operations"]
AREA = "tendril_core"
T = "tendril::Tendril<F,A>::"


def _const(ctx, name):
    """value of a scalar constant of tendril.rs, as the normal forms render it (uses are substituted by value)"""
    for it in ctx.ast.walkable("tendril"):
        if it["k"] in ("Const", "Static") and it.get("name") == name and it.get("init") is not None:
            e = it["init"]
            while e.get("k") in ("Paren", "Cast"):
                e = e["e"]
            if e.get("k") == "Lit":
                return str(e["v"])
    raise AnchorMissing("tendril constant %s not found" % name)


def _tag(ctx):
    return _const(ctx, "MAX_INLINE_TAG")


def r12_1(ctx):
    key, pcs = nfq.cells(ctx, AREA, "tendril::Tendril<F,A>[Clone]::clone")
    n = 0
    for pc in nfq.feasible(pcs):
        heap = gval(pc["guards"], "(self.ptr.get().get() > %s)" % _tag(ctx))
        names = nfq.names(pc)
        if heap:
            n += 1
            ok = names[:2] == ["self.make_buf_shared", "self.incref"] and any(a.endswith("read") for a in names[2:])
            ctx.ob("R12.1", "clone-counts-the-new-view", ok, "make_buf_shared; incref; then the bitwise copy" if ok else "a heap tendril is copied without make_buf_shared + incref first: the buffer would be freed while a view is alive")
        elif heap is False:
            ctx.ob("R12.1", "clone-inline-needs-no-count", "self.incref" not in names, "inline tendrils are copied without touching a counter")
    key, pcs = nfq.cells(ctx, AREA, T + "unsafe_subtendril")
    for pc in nfq.feasible(pcs):
        t = nfq.texts(pc)
        sh = [i for i, x in enumerate(t) if x.startswith("call shared(") or "Tendril::shared(" in x or x.startswith("call Self::shared(")]
        rets_shared = "shared(" in str(pc["ret"])
        if sh or rets_shared:
            n += 1
            names = nfq.names(pc)
            ok = "self.make_buf_shared" in names and "self.incref" in names and names.index("self.make_buf_shared") < names.index("self.incref")
            if sh:
                ok = ok and names.index("self.incref") < sh[0]
            ctx.ob("R12.1", "subtendril-counts-the-new-view", ok, "make_buf_shared; incref; then Tendril::shared(..)" if ok else "a shared view is created without make_buf_shared + incref")
    ctx.floor("R12.1", "view-creating-paths", n, 2)
    key, pcs = nfq.cells(ctx, AREA, T + "make_buf_shared")
    ok = all(("set self.ptr" in nfq.names(pc)) == (gval(pc["guards"], "((self.ptr.get().get() & 1) == 0)") is True) for pc in nfq.feasible(pcs))
    ctx.ob("R12.1", "make_buf_shared-writes-header-once", ok, "the header (cap) and the shared bit are written only while the buffer is still uniquely owned")


def r12_2(ctx):
    key, pcs = nfq.cells(ctx, AREA, "tendril::Tendril<F,A>[Drop]::drop")
    n = 0
    for pc in nfq.feasible(pcs):
        names = nfq.names(pc)
        g = pc["guards"]
        destroys = sum(1 for a in names if a.endswith(".destroy"))
        inline = gval(g, "(self.ptr.get().get() <= %s)" % _tag(ctx))
        shared = [v for k, v in g.items() if k.startswith("self.assume_buf().1")]
        last = [v for k, v in g.items() if "refcount.decrement() matches 1" in k]
        n += 1
        if inline:
            exp = 0
        elif shared and shared[0]:
            exp = 1 if (last and last[0]) else 0
        else:
            exp = 1
        ok = destroys == exp
        if ok and exp == 1 and shared and shared[0]:
            fences = [i for i, a in enumerate(names) if a.endswith("fence_acquire")]
            ok = bool(fences) and fences[0] < [i for i, a in enumerate(names) if a.endswith(".destroy")][0]
        ctx.ob("R12.2", "drop-edge/%s" % ("inline" if inline else "shared-last" if (shared and shared[0] and last and last[0]) else "shared-not-last" if (shared and shared[0]) else "owned"), ok,
               "destroy() called %d time(s), expected %d%s" % (destroys, exp, " after the acquire fence" if exp and shared and shared[0] else ""))
    ctx.floor("R12.2", "drop-paths", n, 4)
    cur = nf_common.area_current(ctx, AREA)
    others = []
    for k, v in cur.items():
        if v["kind"] != "paths" or k.endswith("[Drop]::drop") or k.endswith("::destroy"):
            continue
        for row in v["cells"]:
            for a, args in row["actions"]:
                if a.endswith(".destroy") or a == "call destroy":
                    others.append(k)
    ctx.ob("R12.2", "only-drop-destroys", not others, "Buf32::destroy is called from Drop only" if not others else "destroy is also called from %s" % sorted(set(others)))


def r12_3(ctx):
    key, pcs = nfq.cells(ctx, AREA, T + "into_send")
    ok = all(nfq.names(pc)[:1] == ["self.make_owned"] for pc in nfq.feasible(pcs))
    ctx.ob("R12.3", "into_send-owns-first", ok, "into_send() makes the buffer uniquely owned before changing the atomicity label")
    for fn, op in (("increment", "fetch_add"), ("decrement", "fetch_sub")):
        key, pcs = nfq.cells(ctx, AREA, "tendril::Atomic[Atomicity]::" + fn)
        blob = " ".join(" ".join(nfq.texts(pc)) + str(pc["ret"]) for pc in pcs)
        rmw = len(re.findall(r"\.(fetch_add|fetch_sub|fetch_update|compare_exchange\w*|swap)\(", blob))
        plain = len(re.findall(r"\.(load|store)\(", blob))
        ok = rmw >= 1 and plain == 0 and ("." + op + "(") in blob
        ctx.ob("R12.3", "atomic-%s-is-one-rmw" % fn, ok, "a single atomic %s" % op if ok else "the shared counter is updated with separate load/store: concurrent clones or drops lose updates and the buffer is freed early or twice")
    key, pcs = nfq.cells(ctx, AREA, "tendril::Atomic[Atomicity]::decrement")
    blob = " ".join(str(pc["ret"]) + " ".join(nfq.texts(pc)) for pc in pcs)
    ctx.ob("R12.3", "decrement-releases", "Release" in blob or "AcqRel" in blob or "SeqCst" in blob, "decrement uses Release (pairs with the acquire fence before destroy)")
    key, pcs = nfq.cells(ctx, AREA, "tendril::Atomic[Atomicity]::fence_acquire")
    blob = " ".join(" ".join(nfq.texts(pc)) for pc in pcs)
    ok = re.search(r"(?<![a-z_])fence\((Acquire|AcqRel|SeqCst)\)", blob) is not None and "compiler_fence" not in blob
    ctx.ob("R12.3", "acquire-fence-is-a-hardware-fence", ok, "Atomic::fence_acquire is atomic::fence(Acquire): the last decrement happens-before destroy" if ok else
           "Atomic::fence_acquire is not atomic::fence(Acquire) (%s): freeing the buffer is no longer ordered after other threads' last use" % blob[:80], "tendril Atomic::fence_acquire")
    # unsafe impl Send / Sync facts
    mir = ctx.mir
    found = []
    for im in mir.impls:
        if im["crate"] != "tendril" or not im["trait"]:
            continue
        tn = im["trait"].rsplit("::", 1)[-1]
        if tn in ("Send", "Sync"):
            found.append((tn, im["self_ty"], im["unsafe"], im["polarity"]))
    exp = [("Send", "tendril::SendTendril<F>", True, "Positive"), ("Send", "tendril::Tendril<F, A>", True, "Positive")]
    ok = sorted(found) == sorted(exp)
    ctx.ob("R12.3", "send-sync-impl-facts", ok, "manual Send/Sync impls are exactly: Send for SendTendril<F>, Send for Tendril<F, A> (where A: Sync); no manual Sync impl" if ok else "manual Send/Sync impls are %s (reviewed: %s)" % (found, exp))
    # the Send impl for Tendril is conditional on A: Sync: NonAtomic must stay !Sync (it holds a Cell and has no manual Sync impl)
    na = [a for k, a in mir.adts.items() if a["crate"] == "tendril" and a["path"].endswith("NonAtomic")]
    ok = len(na) == 1 and any("Cell<" in f[1] for v in na[0]["variants"] for f in v["fields"])
    ctx.ob("R12.3", "nonatomic-is-not-sync", ok, "NonAtomic wraps a Cell (auto !Sync), so Tendril<_, NonAtomic> is not Send")
    # the where-clause itself (syntax tree)
    its = [it for it in ctx.ast.walkable("tendril") if it["k"] == "Impl" and (it.get("trait") or "").strip() == "Send" and it["self_ty"].replace(" ", "").startswith("Tendril<")]
    ok = len(its) == 1 and re.search(r"A\s*:\s*Atomicity\s*\+\s*Sync", its[0]["generics"] + " " + str(its[0].get("where", ""))) is not None
    ctx.ob("R12.3", "tendril-send-requires-sync-atomicity", ok, "unsafe impl Send for Tendril<F, A> is bounded by A: Atomicity + Sync")
    # the tendril itself holds a Cell / raw pointer: auto traits give !Send (NonAtomic) / !Sync; witnesses run in the thorough tier


OWN_PRIMS = {
    # primitive -> reviewed (function name, substring of its path)
    "std::mem::forget": {("with_capacity", "Buf32"), ("grow", "Buf32")},
    "std::ptr::read": {("clone", "Tendril<F, A>")},
    "std::ptr::write": {("with_capacity", "Buf32")},
    "std::vec::Vec::<T>::from_raw_parts": {("destroy", "Buf32"), ("grow", "Buf32")},
}


def r12_4(ctx):
    mir = ctx.mir
    n = 0
    for f in mir.by_crate["tendril"]:
        if "::test" in f.path or f.path.startswith("bench"):
            continue
        for bb, c, t in f.calls():
            if c is None:
                continue
            for prim, allowed in OWN_PRIMS.items():
                if c["path"] == prim or c["path"].replace("core::", "std::") == prim:
                    # (a helper extracted since the review uses the primitive on behalf of the reviewed functions that call it)
                    for g in mirq.reviewed_owner_fns(ctx, f):
                        n += 1
                        ok = any(g.name == nm and sub in g.path for nm, sub in allowed)
                        ctx.ob("R12.4", "ownership-primitive/%s in %s" % (prim.rsplit("::", 1)[-1], g.path.rsplit("::", 2)[-2] + "::" + g.name if "::" in g.path else g.path), ok,
                               "reviewed site" if ok else "%s is called outside the reviewed functions: ownership may be duplicated or forgotten" % prim, f.where(bb))
    ctx.floor("R12.4", "ownership-primitive-sites", n, 6)
    # by-value transmutes of tendrils keep the layout: source and target are Tendril / SendTendril / &Tendril
    k = 0
    for f in mir.by_crate["tendril"]:
        if not f.path.startswith("tendril::") or "::test" in f.path:
            continue
        for bl in f.blocks:
            for s in bl["s"]:
                if s[0] == "=" and s[2]["k"] == "cast" and s[2].get("cast") == "transmute":
                    src, dst = s[2]["from"], s[2]["to"]
                    if "Tendril" in src or "Tendril" in dst:
                        k += 1
                        ok = ("Tendril<" in src) and ("Tendril<" in dst) and src.startswith("&") == dst.startswith("&")
                        ctx.ob("R12.4", "transmute-keeps-layout/%s" % f.name, ok, "%s -> %s" % (src, dst), f.where())
    ctx.floor("R12.4", "tendril-transmutes", k, 8)


def r12_5(ctx):
    cur = nf_common.area_current(ctx, AREA)
    n = 0
    for key, v in sorted(cur.items()):
        if v["kind"] != "paths" or not key.startswith("tendril::Tendril"):
            continue
        pcs = nfq.feasible(mc.from_json({key: v["cells"]})[key])
        fname = key.rsplit("::", 1)[-1]
        for pc in pcs:
            for a, args in pc["actions"]:
                if a == "set self.ptr" and args and ("inline_tag(" in str(args[0]) or "EMPTY_TAG" in str(args[0]) or str(args[0]) in ("new(%s)" % _const(ctx, "EMPTY_TAG"), "new_unchecked(%s)" % _const(ctx, "EMPTY_TAG"))):
                    n += 1
                    ok = gval(pc["guards"], "(self.ptr.get().get() <= %s)" % _tag(ctx)) is True
                    ctx.ob("R12.5", "inline-tag-only-over-inline/%s" % fname, ok,
                           "self.ptr is overwritten with an inline tag only when it held an inline tag" if ok else
                           "self.ptr is overwritten with an inline tag on a path that has not established that the tendril is inline: an owned or shared heap buffer (and its reference count) is leaked")
    ctx.floor("R12.5", "inline-tag-writes", n, 2)


def r12_7(ctx):
    """push_bytes_without_validating: the inline and the heap branch lay the result out identically: the kept part of the old
    content (its length minus drop_left), then insert_bytes[..insert_len], then buf[drop_right..].  The heap branch does not copy
    the old content, so its first write must start at (stored length - drop_left), where the inline branch's first copy ends."""
    key, pcs = nfq.cells(ctx, AREA, "::push_bytes_without_validating")
    inline, heap = [], []
    for pc in nfq.feasible(pcs):
        t = nfq.texts(pc)
        if any(x.startswith("panic!") for x in t):
            continue
        copies = [x for x in t if x.startswith("call copy_and_advance(")]
        if any(x.startswith("self.make_owned_with_capacity(") for x in t):
            heap.append((pc, t, copies))
        elif copies:
            inline.append((pc, t, copies))
    bad = None
    if not inline or not heap:
        raise AnchorMissing("push_bytes_without_validating: inline / heap branch not found")
    sl = lambda c: re.search(r",(unsafe_slice\(.*\))\)$", c)
    for pc, t, copies in inline:
        if len(copies) != 3 or not all(sl(c) for c in copies):
            bad = "the inline branch does not make three copies (old prefix, inserted bytes, new bytes)"
            continue
        old = sl(copies[0]).group(1)
        m = re.fullmatch(r"unsafe_slice\((.*),0,\(\1\.len\(\) - \((.*)\.drop_left as usize\)\)\)", old)
        if m is None:
            bad = "the inline branch keeps %s of the old content, not its first (len - drop_left) bytes" % old[:120]
    want = [sl(c).group(1) for c in inline[0][2][1:]] if bad is None else None
    for pc, t, copies in heap:
        if bad:
            break
        adds = [x for x in t if re.search(r"\.data_ptr\(\)\.add\(", x) and not x.startswith("call ")]
        m = re.search(r"\.add\(\(\((.*)\.len as usize\) - \((.*)\.drop_left as usize\)\)\)$", adds[0]) if len(adds) == 1 else None
        if m is None:
            bad = "the heap branch starts writing at %s, not at (stored length - drop_left): with a non-zero drop_left (WTF-8 surrogate joining) the appended bytes land at the wrong offset and old bytes are left in place or overwritten" % (adds[0][-110:] if adds else "?")
            break
        got = [sl(c).group(1) for c in copies if sl(c)]
        if got != want:
            bad = "the heap branch copies %s where the inline branch copies %s" % ([g[:60] for g in got], [w[:60] for w in want])
    ctx.ob("R12.7", "append-layout-agrees-between-inline-and-heap", bad is None, bad or "old[..len-drop_left] ++ insert_bytes[..insert_len] ++ buf[drop_right..] in both branches; the heap write starts at len - drop_left",
           "tendril Tendril::push_bytes_without_validating")


def r12_8(ctx):
    """Buf32::{grow, destroy, with_capacity}: while a temporary Vec that aliases the tendril's buffer is alive (between
    Vec::from_raw_parts and mem::forget / the Vec's own drop) the function itself has no panic site: an unwinding panic there
    drops the Vec, freeing a buffer that the tendril still points to and frees again"""
    from .C04 import panic_sites
    n = 0
    for f in ctx.mir.by_crate["tendril"]:
        if "Buf32" not in f.path or f.d["kind"] == "Closure":
            continue
        def makes_raw_vec(c):
            if c is None:
                return False
            if c["path"].replace("core::", "std::").endswith("Vec::<T>::from_raw_parts"):
                return True
            g = ctx.mir.callee_fn(c)  # a helper extracted since the review that wraps the from_raw_parts expression
            return g is not None and mirq.is_new(ctx, g) and any(c2 is not None and c2["path"].replace("core::", "std::").endswith("Vec::<T>::from_raw_parts") for _, c2, _ in g.calls())
        if mirq.is_new(ctx, f):
            continue
        raws = [bb for bb, c, t in f.calls() if makes_raw_vec(c)]
        forgets = [bb for bb, c, t in f.calls() if c is not None and c["path"].replace("core::", "std::") == "std::mem::forget"]
        for rb in raws:
            n += 1
            after = f.reach_from(rb) - {rb}
            bad = []
            for bb, kind, msg in panic_sites(f):
                if kind == "overflow" or bb not in after:
                    continue
                if not forgets or any(fb in f.reach_from(bb) for fb in forgets):
                    bad.append((kind, msg))
            ctx.ob("R12.8", "no-panic-while-buffer-is-aliased/%s" % f.name, not bad,
                   "no unwrap / expect / assert / panic between from_raw_parts and forget" if not bad else
                   "%s can panic (%s) while the Vec built by from_raw_parts is alive: unwinding frees the buffer the tendril still owns (double free)" % (f.name, bad[:2]), f.where(rb))
    ctx.floor("R12.8", "aliasing-vec-sites", n, 2)


def r12_10(ctx, rule="R12.10"):
    """Tendril::inline copies its argument into the MAX_INLINE_LEN-byte array inside the tendril and stores the length as the
    pointer tag: every call is made on a path that established length <= MAX_INLINE_LEN (not MAX_INLINE_TAG, the largest
    *pointer value* that still means inline), or with the empty array"""
    cap = int(_const(ctx, "MAX_INLINE_LEN"))
    cur = nf_common.area_current(ctx, "tendril_core")
    n = 0
    for k, v in sorted(cur.items()):
        if v["kind"] != "paths":
            continue
        key, pcs = nfq.cells(ctx, "tendril_core", k, exact=True)
        for pc in nfq.feasible(pcs):
            for a, args in pc["actions"]:
                if not (a in ("call inline", "call Self::inline") or a.endswith("::inline")):
                    continue
                x = str(args[0]) if args else ""
                if x in ("Array", "[]", "Repeat(0,0)"):
                    continue
                n += 1
                bounds = [int(l) for l, op, r, val, g in comparisons(pc["guards"]) if op == "<" and val is False and re.fullmatch(r"\d+", l)]
                ok = bool(bounds) and min(bounds) <= cap
                ctx.ob(rule, "inline-only-up-to-MAX_INLINE_LEN/%s" % k.split("::")[-1], ok,
                       "inline(..) under length <= %d" % cap if ok else
                       "%s builds an inline tendril from %s on a path that only established length <= %s; the inline array holds %d bytes: the copy runs past it and the tag is not a valid inline length" % (
                           k.split("::")[-1], x[:60], min(bounds) if bounds else "nothing", cap), "tendril " + k)
    ctx.floor(rule, "inline-calls", n, 5)


def run(ctx):
    ctx.rule("R12.10", "Tendril::inline is called only with at most MAX_INLINE_LEN bytes")
    ctx.guard("R12.10", "inline-bound", lambda: r12_10(ctx))
    ctx.rule("R12.9", "the safe wrappers reach the unchecked primitives only after a bounds test that cannot overflow (shared with R11.2): no subtendril / pop reads outside the buffer")
    def bounds():
        from . import C11 as c11
        before = len(ctx.obs)
        c11.r11_2(ctx)
        for o in ctx.obs[before:]:
            if o["rule"] == "R11.2":
                o["rule"] = "R12.9"
        for k in [k for k in ctx.floors if k.startswith("R11.2.")]:
            ctx.floors["R12.9." + k[len("R11.2."):]] = ctx.floors.pop(k)
    ctx.guard("R12.9", "bounds", bounds)
    ctx.rule("R12.11", "= R11.1 / R11.4 under this property: a mutable view of heap bytes is handed out only after make_owned (and at the owned buffer's own offset), and the zero-copy merge of push_tendril requires the other view to start exactly where this one ends in the same shared buffer - otherwise the resulting view reaches outside the allocation")
    def cow_and_merge():
        from . import C11 as c11
        ctx.under("R12.11", lambda: c11.r11_1(ctx))
        ctx.under("R12.11", lambda: c11.r11_1b(ctx))
    ctx.guard("R12.11", "cow-and-merge", cow_and_merge)
    ctx.rule("R12.8", "no panic site inside Buf32 functions while a Vec aliasing the buffer is alive")
    ctx.guard("R12.8", "alias-window", lambda: r12_8(ctx))
    ctx.rule("R12.7", "push_bytes_without_validating lays the appended bytes out identically in its inline and heap branches; the heap write starts at (stored length - drop_left)")
    ctx.guard("R12.7", "append-layout", lambda: r12_7(ctx))
    ctx.rule("R12.1", "every additional view of a heap buffer is preceded by make_buf_shared and incref")
    ctx.rule("R12.2", "Drop destroys on exactly two edges (owned; shared and last, after the acquire fence); nothing else calls destroy")
    ctx.rule("R12.3", "into_send owns first; the atomic counter uses single RMW operations with Release on decrement; the only manual Send/Sync impl is SendTendril: Send")
    ctx.rule("R12.4", "mem::forget / ptr::read / ptr::write / Vec::from_raw_parts only in Buf32::{with_capacity,grow,destroy} and Tendril::clone; tendril transmutes keep the layout")
    ctx.rule("R12.5", "an inline tag overwrites self.ptr only on a path that established the tendril is inline")
    ctx.rule("R12.6", "normal forms of tendril.rs and buf32.rs equal the reviewed reference")
    ctx.guard("R12.1", "views", lambda: r12_1(ctx))
    ctx.guard("R12.2", "drop", lambda: r12_2(ctx))
    ctx.guard("R12.3", "threads", lambda: r12_3(ctx))
    ctx.guard("R12.4", "prims", lambda: r12_4(ctx))
    ctx.guard("R12.5", "inline", lambda: r12_5(ctx))
    ctx.guard("R12.6", "nf", lambda: nf_common.nf_rule(ctx, "R12.6", AREA, only=("tendril::", "buf32::"), floor=120))

    def witnesses():
        from lib.witness import run_witnesses

        res = [w for w in run_witnesses() if w[0] in ("NonAtomicIsNotSend", "TendrilIsNotSync")]
        for k, (item, kind, ok, line) in enumerate(sorted(res)):
            ctx.ob("R12.3w", "witness/%s/%s#%d" % (item, kind, k), ok, ("does not compile, with the expected error code" if kind == "compile_fail" else "compiling twin compiles") if ok else "witness %s (%s, engines/witness/src/lib.rs:%d) did not behave as required" % (item, kind, line))
        ctx.floor("R12.3w", "witnesses", len(res), 5)

    if ctx.tier == "thorough":
        ctx.rule("R12.3w", "compile-fail witnesses: Tendril<_, NonAtomic> is not Send, no Tendril is Sync; compiling twins (rustdoc, nightly, error codes checked)")
        ctx.guard("R12.3w", "witness", witnesses)
