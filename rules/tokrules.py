"""Structural rules read off the flattened tokenizer tables (shared by HTML: C03/C04/C08/C09 and XML: C15/C04)."""
import itertools
import re

from lib import machine as mc
from lib.mir import AnchorMissing

SUSPEND = {"html": "Suspend", "xml": "Done"}
STUCK = "Stuck"
HOUSEKEEPING = ("input.pop_front",)


def _acq(cell):
    return [(l, ch) for k, l, ch in cell["choices"] if k == "acq"]


def _guards(cell):
    return {l: ch == "true" for k, l, ch in cell["choices"] if k == "guard"}


def _is_class(ch):
    return isinstance(ch, dict)


def _cls_contains(ch, c):
    return _is_class(ch) and ch["lo"] <= ord(c) <= ch["hi"]


def _set_of_label(label):
    m = re.match(r"pop_except_from\{(.*)\}$", label)
    if not m or m.group(1) in ("simd", "?"):
        return None
    return set(m.group(1).encode().decode("unicode_escape"))


# ------------------------------------------------------------------ R03.1 / R15.5
def suspend_before_effect(ctx, rule, which):
    """every path that returns 'need more input' has performed no effect in this iteration"""
    T = ctx.tables(which)
    sus = SUSPEND[which]
    n = 0
    for st, cells in T["raw"]["step"].items():
        bad = None
        cnt = 0
        for c in cells or []:
            if c["outcome"] == "return" and c["value"] == sus:
                cnt += 1
                acts = [a for a, _ in c["actions"] if a not in HOUSEKEEPING]
                if acts:
                    bad = (acts, c["choices"])
        n += cnt
        if cnt:
            ctx.ob(rule, "suspend-before-effect/%s/state=%s" % (which, st), bad is None,
                   "%d suspending paths perform no effect before returning %s" % (cnt, sus) if bad is None else "a path performs %s and then returns %s: the effect is repeated when the state is re-entered" % (bad[0], sus),
                   "%s tokenizer step, state %s" % (which, st))
    for fn, pcs in T["charref"].items():
        cnt = 0
        bad = None
        for pc in pcs:
            if pc["ret"] == STUCK:
                cnt += 1
                if pc["actions"]:
                    bad = pc["actions"]
        if cnt:
            n += cnt
            ctx.ob(rule, "suspend-before-effect/%s/charref=%s" % (which, fn), bad is None,
                   "%d Stuck paths perform no effect" % cnt if bad is None else "a path performs %s and then returns Stuck" % (bad,), "%s char_ref %s" % (which, fn))
    ctx.floor(rule, "suspending-paths/" + which, n, 40)


# ------------------------------------------------------------------ preprocessing set P
def preprocessed_chars(ctx, which):
    """characters for which get_preprocessed_char (ignore_lf clear, exact_errors off) does anything but
    record and return its argument -- derived from the function's own normal form"""
    T = ctx.tables(which)
    pcs = T["helpers"].get("get_preprocessed_char")
    if not pcs:
        raise AnchorMissing("get_preprocessed_char not tabulated")
    P = set()
    plain = 0
    for pc in pcs:
        g = pc["guards"]
        if g.get("self.ignore_lf") is not False or g.get("self.opts.exact_errors") is not False:
            continue
        ivs = mc.acq_intervals(pc)
        if not ivs:
            continue
        lo, hi = ivs[0]
        acts = [(a, args) for a, args in pc["actions"]]
        is_plain = acts == [("set self.current_char", ("c",))] and pc["ret"] == "Some(«c»)"
        if is_plain:
            plain += 1
        else:
            if hi - lo > 64:
                raise AnchorMissing("get_preprocessed_char treats a large class specially: %s" % ((lo, hi),))
            for x in range(lo, hi + 1):
                P.add(chr(x))
    if not plain:
        raise AnchorMissing("get_preprocessed_char: no pass-through class found")
    return P


RUN_EQUIV = [
    (re.compile(r"^emit_char$"), "emit_chars"),
    (re.compile(r"^(.*)\.push_char$"), r"\1.push_tendril"),
]


def fastpath_sets(ctx, rule, which, floor):
    """R08.1 / R15.1: for every pop_except_from site, the fast path (runs of characters outside the set) and the
    slow path (one character at a time) are the same function: S contains every character the arm or the
    preprocessing treats specially."""
    T = ctx.tables(which)
    P = preprocessed_chars(ctx, which)
    sites = 0
    for st, cells in T["raw"]["step"].items():
        sets = {}
        for c in cells or []:
            for l, ch in _acq(c):
                S = _set_of_label(l)
                if S is not None:
                    sets.setdefault(l, S)
        for label, S in sets.items():
            sites += 1
            key = "fastpath/%s/state=%s" % (which, st)
            missing = sorted(P - S)
            problems = []
            if missing:
                problems.append("set lacks %s, which get_preprocessed_char rewrites (a run containing it would bypass normalisation)" % ", ".join(repr(x) for x in missing))
            # slow path on a class outside S must equal the run action on that one character
            run_cells = [c for c in cells if any(l == label and ch == "RUN" for l, ch in _acq(c))]
            if not run_cells:
                problems.append("no NotFromSet arm found")
            else:
                rc = run_cells[0]
                run_acts = [(a, args) for a, args in rc["actions"] if a not in HOUSEKEEPING]
                for c in cells:
                    for l, ch in _acq(c):
                        if l != label or not _is_class(ch):
                            continue
                        members = [chr(x) for x in (ch["lo"], ch["hi"])]
                        if any(m in S for m in members) or any(m in P for m in members):
                            continue
                        acts = [(a, args) for a, args in c["actions"] if a not in HOUSEKEEPING and not a.endswith("_error")]
                        ok = len(acts) == len(run_acts) == 1 and (c["next"], c["outcome"] in ("loop", "return")) == (rc["next"], rc["outcome"] in ("loop", "return"))
                        if ok:
                            (a, args), (ra, rargs) = acts[0], run_acts[0]
                            ok = args in (("c",), ("«c»",)) and any(p.match(a) and p.sub(r, a) == ra for p, r in RUN_EQUIV)
                        if not ok:
                            problems.append("class %s outside the set is handled as %s on the slow path but as %s in a run" % (mc.class_name((ch["lo"], ch["hi"])), acts, run_acts))
                            break
            ctx.ob(rule, key, not problems, "; ".join(sorted(set(problems))[:3]) if problems else "set %r is complete: slow path == fast path" % "".join(sorted(S)),
                   "%s tokenizer step, state %s" % (which, st))
    ctx.floor(rule, "pop_except_from-sites/" + which, sites, floor)
    return P


# ------------------------------------------------------------------ R03.4 / R15.2
def bom_rule(ctx, rule, which):
    T = ctx.tables(which)
    pcs = T["helpers"].get("feed")
    if not pcs:
        raise AnchorMissing("feed not tabulated")
    n = 0
    bad = []
    for pc in pcs:
        names = [a for a, _ in pc["actions"]]
        if "run" not in names:
            continue
        if pc["guards"].get("self.discard_bom") is not True:
            continue
        n += 1
        i_run = names.index("run")
        clears = [i for i, (a, args) in enumerate(pc["actions"]) if a == "set self.discard_bom" and args == ("false",)]
        if not clears or clears[0] > i_run:
            bad.append(pc)
    if n == 0:
        raise AnchorMissing("feed: no path reads discard_bom and reaches run")
    ctx.ob(rule, "bom-only-at-stream-start/%s/feed" % which, not bad,
           "feed(): a path that has looked at the first character of the stream reaches run() with discard_bom still set: a U+FEFF at the start of any later chunk is dropped"
           if bad else "every path through feed() that saw a first character clears discard_bom before run()", "%s tokenizer feed" % which)
    # and no other reader / writer of the flag
    for fn, pcs2 in list(T["helpers"].items()):
        if fn in ("feed", "new"):
            continue
        for pc in pcs2:
            if "self.discard_bom" in pc["guards"] or any(a == "set self.discard_bom" for a, _ in pc["actions"]):
                ctx.ob(rule, "bom-flag-elsewhere/%s/%s" % (which, fn), False, "discard_bom is read or written outside feed()")


# ------------------------------------------------------------------ R03.3 / R15.4
def ignore_lf_rule(ctx, rule, which):
    """a pending CR (ignore_lf) is resolved only where the next character is known"""
    T = ctx.tables(which)
    sites = 0
    for fn, pcs in T["helpers"].items():
        paths = [pc for pc in pcs if any(a == "set self.ignore_lf" and args == ("false",) for a, args in pc["actions"])]
        if not paths:
            continue
        sites += 1
        if fn == "get_preprocessed_char":
            ctx.ob(rule, "ignore_lf-cleared/%s/%s" % (which, fn), True, "cleared by the function that holds the deciding character")
            continue
        bad = None
        for pc in paths:
            names = [a for a, _ in pc["actions"]]
            i = [k for k, (a, args) in enumerate(pc["actions"]) if a == "set self.ignore_lf" and args == ("false",)][0]
            peeks = [k for k, a in enumerate(names) if a in ("peek", "input.peek")]
            known_some = any(("peek()" in g and "Some(" in g and v) for g, v in pc["guards"].items())
            if not (peeks and peeks[0] < i and known_some):
                bad = pc
                break
        ctx.ob(rule, "ignore_lf-cleared/%s/%s" % (which, fn), bad is None,
               "ignore_lf is cleared before the next character is known to exist: if the chunk ends here the LF that opens the next chunk is treated as a second line break"
               if bad else "cleared only after peek() returned Some", "%s tokenizer %s" % (which, fn))
    for fn, pcs in T["charref"].items():
        for pc in pcs:
            for k, (a, args) in enumerate(pc["actions"]):
                if a == "set tokenizer.ignore_lf":
                    sites += 1
                    names = [x for x, _ in pc["actions"]]
                    ok = k > 0 and names[k - 1] in ("input.push_front", "tokenizer.unconsume")
                    ctx.ob(rule, "ignore_lf-cleared/%s/charref=%s" % (which, fn), ok,
                           "cleared directly after raw text was pushed back to the front of the input" if ok else "char-ref code clears ignore_lf without having pushed back raw text")
    # eat must resolve a pending CR before comparing (XML has no such step: F12)
    eat = T["helpers"].get("eat")
    if eat:
        handles = any("self.ignore_lf" in pc["guards"] for pc in eat)
        reach = _eat_reachable_with_pending_cr(T, which)
        ok = handles or not reach
        # ... and it resolves it completely: once the next character is known the flag is cleared whether or not that
        # character is the LF (a flag left set after the lookahead swallows a later, unrelated LF uncounted)
        if handles:
            def next_known(pc):
                # the next character is known: peek() gave Some, or the comparison itself saw input (input.eat() answered) while
                # peek() was not established to be None (an empty queue cannot answer)
                g = pc["guards"]
                if any(v and g2.startswith("self.peek() matches Some") for g2, v in g.items()):
                    return True
                peek_none = any((not v) and re.fullmatch(r"self\.peek\(\) matches Some\(_\)(#\d+)?", g2) for g2, v in g.items())
                return (not peek_none) and any(v and g2.startswith("input.eat() matches Some") for g2, v in g.items())
            left = [pc for pc in eat if pc["guards"].get("self.ignore_lf") is True and next_known(pc)
                    and not any(a == "set self.ignore_lf" and args == ("false",) for a, args in pc["actions"])]
            ctx.ob(rule, "eat-clears-pending-cr-once-next-char-known/%s" % which, not left,
                   "with a pending CR and a known next character eat() always clears ignore_lf" if not left else
                   "eat() leaves ignore_lf set although the next character is known (it clears it only for some characters): after the lookahead a later LF is dropped and not counted", "%s tokenizer eat" % which)
        ctx.ob(rule, "eat-resolves-pending-cr/%s" % which, ok,
               "eat() looks ahead in the raw input without resolving a pending CR, and state(s) %s call eat() right after consuming a folded line break" % ", ".join(sorted(reach)[:4]) if not ok
               else ("eat() tests ignore_lf first" if handles else "no state can reach eat() with a pending CR"), "%s tokenizer eat" % which)
    ctx.floor(rule, "ignore_lf-clear-sites/" + which, sites, 1)


def _eat_reachable_with_pending_cr(T, which):
    """states whose arm calls eat() and that are entered by a consuming transition on a class containing '\\n'
    (a folded CR arrives as '\\n' with ignore_lf set)"""
    eat_states = set()
    for st, cells in T["raw"]["step"].items():
        for c in cells or []:
            if any(l.startswith("eat(") for l, ch in _acq(c)):
                eat_states.add(st)
    reach = set()
    for st, cells in T["raw"]["step"].items():
        for c in cells or []:
            for l, ch in _acq(c):
                if l in ("get_char",) and _cls_contains(ch, "\n"):
                    nxt = c["next"]
                    if nxt in eat_states and not any(a == "set self.reconsume" for a, _ in c["actions"]):
                        reach.add("%s->%s" % (st, nxt))
    return reach


# ------------------------------------------------------------------ R09.3
def raw_discards(ctx, rule, which, entity_names_ok=True):
    """discard_char after peek never drops a line break uncounted"""
    T = ctx.tables(which)
    sites = 0
    for st, cells in T["raw"]["step"].items():
        bad = []
        has = False
        for c in cells or []:
            if not any(a == "discard_char" for a, _ in c["actions"]):
                continue
            has = True
            for l, ch in _acq(c):
                if l == "peek" and (_cls_contains(ch, "\n") or _cls_contains(ch, "\r")):
                    bad.append(mc.class_name((ch["lo"], ch["hi"])))
        if has:
            sites += 1
            ctx.ob(rule, "raw-discard/%s/state=%s" % (which, st), not bad,
                   "state discards %s through peek/discard_char, which bypasses newline normalisation and the line counter: later tokens carry a line number that is too small" % ", ".join(bad)
                   if bad else "peek/discard_char never sees a line break here", "%s tokenizer step, state %s" % (which, st))
    for fn, pcs in T["charref"].items():
        has = False
        bad = []
        for pc in pcs:
            if not any(a in ("tokenizer.discard_char",) for a, _ in pc["actions"]):
                continue
            has = True
            ivs = mc.acq_intervals(pc)
            pushes_back = any(a.endswith("name_buf_mut().push_char") or a == "self.name_buf_mut().push_char" for a, _ in pc["actions"])
            for lo, hi in ivs:
                if (lo <= 10 <= hi or lo <= 13 <= hi) and not pushes_back:
                    # a digit test narrows the class although the base is symbolic
                    if any("to_digit(" in g and "Some" in g and v for g, v in pc["guards"].items()):
                        continue
                    bad.append(mc.class_name((lo, hi)))
        if has:
            sites += 1
            ctx.ob(rule, "raw-discard/%s/charref=%s" % (which, fn), not bad,
                   "char-ref step discards %s raw" % ", ".join(bad) if bad else "discarded characters are '#', 'x', digits, ';' or are appended to name_buf, which is pushed back raw (entity names contain no line break: R14.1)",
                   "%s char_ref %s" % (which, fn))
    return sites


# ------------------------------------------------------------------ R15.3
def pushback_taint(ctx, rule, which):
    """text pushed back to the input must be raw: characters appended to name_buf come from peek, not from get_char"""
    T = ctx.tables(which)
    n = 0
    for fn, pcs in T["charref"].items():
        srcs = set()
        for pc in pcs:
            if any(a.endswith("name_buf_mut().push_char") and args in (("c",), ("«c»",)) for a, args in pc["actions"]):
                for l, ch in pc["acq"]:
                    if isinstance(ch, tuple):
                        srcs.add(l)
        if srcs:
            n += 1
            ok = srcs <= {"peek"}
            ctx.ob(rule, "pushback-raw/%s/charref=%s" % (which, fn), ok,
                   "name_buf is filled from %s: get_char has already folded CR/CRLF (and set ignore_lf), so un-consuming the buffer re-reads normalised text and a line break next to '&' is doubled or lost" % sorted(srcs)
                   if not ok else "name_buf is filled through peek/discard_char (raw characters)", "%s char_ref %s" % (which, fn))
    ctx.floor(rule, "name_buf-fillers/" + which, n, 2)


def ignore_lf_consumed_when_seen(ctx, rule, which):
    """get_preprocessed_char: whenever the pending 'ignore LF' flag is seen set, it is cleared on that very path - also on the path
    that runs out of input while skipping the LF (otherwise a line feed at the start of the next chunk is swallowed as well)"""
    T = ctx.tables(which)
    pcs = T["helpers"].get("get_preprocessed_char")
    if not pcs:
        raise AnchorMissing("%s tokenizer: get_preprocessed_char not tabulated" % which)
    n = 0
    bad = None
    for pc in pcs:
        if pc["guards"].get("self.ignore_lf") is not True:
            continue
        n += 1
        sets = [args for a, args in pc["actions"] if a == "set self.ignore_lf"]
        if not sets or tuple(sets[0]) != ("false",):
            nomore = any("None" in str(v) or v is False for k, v in pc["guards"].items() if "input.next()" in k and "Some/Ok" in k)
            bad = "a path that saw the flag set returns %s without clearing it%s" % (pc["ret"], " (input ran out while skipping the LF)" if nomore else "")
    ctx.ob(rule, "ignore_lf-cleared-on-every-path-that-saw-it/" + which, bad is None and n >= 4, bad or "%d paths with the flag set all clear it first" % n, "%s tokenizer get_preprocessed_char" % which)


def charref_needs_more_input_means_stuck(ctx, rule, which):
    """character-reference sub-tokenizer: a path on which the input queue was empty answers Stuck and has changed nothing"""
    T = ctx.tables(which)
    n = 0
    for fn, pcs in sorted(T["charref"].items()):
        if fn in ("end_of_file", "get_result", "new", "finish_none", "finish_one", "finish_numeric", "finish_named", "unconsume_name", "unconsume_numeric"):
            continue
        for pc in pcs:
            empty = [l for l, ch in pc["acq"] if l in ("peek", "get_char") and ch == "None"]
            if not empty:
                continue
            n += 1
            effects = [a for a, _ in pc["actions"] if not a.startswith("tokenizer.peek") and a not in ("peek", "get_char")]
            ok = str(pc["ret"]) == "Stuck" and not effects
            ctx.ob(rule, "charref-empty-input-is-stuck/%s/%s" % (which, fn), ok, "an empty queue gives Stuck with no state change" if ok else
                   "%s: with the input queue empty the function answers %s after %s: a reference split across chunks is decided without its next character" % (fn, pc["ret"], effects[:3] or "nothing"),
                   "%s char_ref %s" % (which, fn))
    ctx.floor(rule, "charref-empty-input-paths/" + which, n, 4)


# ------------------------------------------------------------------ R08.3 (tokenizer part)
STRIP_FOR_OPTIONS = ("emit_error", "time_in_sink", "state_profile", "dump_profile", "call println", "call _print")


def _strip(actions):
    return tuple((a, args) for a, args in actions if not any(s in a for s in STRIP_FOR_OPTIONS) and not any(any(s in str(x) for s in ("time_in_sink", "precise_time")) for x in args))


def option_invariance(ctx, rule, which, exempt=()):
    """switching exact_errors / profile changes nothing but error reports and profiling counters"""
    T = ctx.tables(which)
    opts = ("self.opts.exact_errors", "tokenizer.opts.exact_errors", "self.opts.profile")
    n = 0
    for sec in ("helpers", "charref"):
        for fn, pcs in T[sec].items():
            used = sorted({g for pc in pcs for g in pc["guards"] if g in opts})
            if not used:
                continue
            n += 1
            key = "option-invariance/%s/%s=%s" % (which, sec, fn)
            if fn in exempt:
                ctx.ob(rule, key, True, "path-select: " + exempt[fn])
                continue
            bad = None
            for pc in pcs:
                for o in used:
                    if o not in pc["guards"]:
                        continue
                    for qc in pcs:
                        if qc is pc or mc.acq_key(qc) != mc.acq_key(pc) or mc.acq_intervals(qc) != mc.acq_intervals(pc):
                            continue
                        if qc["guards"].get(o) == (not pc["guards"][o]) and all(qc["guards"].get(g) == v for g, v in pc["guards"].items() if g != o and g in qc["guards"]) \
                                and set(qc["guards"]) == set(pc["guards"]):
                            if (_strip(pc["actions"]), pc["ret"]) != (_strip(qc["actions"]), qc["ret"]) and fn not in ("run", "end", "process_token"):
                                bad = (o, pc, qc)
            if fn in ("run", "end", "process_token"):
                # profiling wrappers: compare after stripping the timing plumbing
                bad = _profile_variants_differ(pcs)
            ctx.ob(rule, key, bad is None, "option %s changes the effects of %s beyond error reports: %s vs %s" % (bad[0], fn, bad[1]["actions"], bad[2]["actions"]) if bad else "variants differ in error reports / profiling only",
                   "%s tokenizer %s" % (which, fn))
    # step: path-select variants agree (projected cells)
    nv = 0
    for st, cells in T["raw"]["step"].items():
        pcs = mc.project(cells or [])
        msgs = []
        nv += mc.variants_agree(pcs, lambda s, m: msgs.append(m), st)
        if any(pc["path_select"] for pc in pcs):
            n += 1
            ctx.ob(rule, "path-select-agree/%s/state=%s" % (which, st), not msgs, msgs[0][:400] if msgs else "fast path, slow path and SIMD path tabulate identically")
    ctx.floor(rule, "option-dependent-functions/" + which, n, 5)
    return nv


def _profile_variants_differ(pcs):
    on = [pc for pc in pcs if pc["guards"].get("self.opts.profile") is True]
    off = [pc for pc in pcs if pc["guards"].get("self.opts.profile") is False]
    core = lambda pc: tuple(a for a, _ in _strip(pc["actions"]) if a in ("step", "eof_step", "self.sink.process_token", "self.sink.end", "run", "process_char_ref"))
    a = {(core(pc), pc["ret"].split("(")[0]) for pc in on}
    b = {(core(pc), pc["ret"].split("(")[0]) for pc in off}
    # every result shape reachable with profiling on is reachable with it off and vice versa
    if {x for x in a} != {x for x in b}:
        return ("self.opts.profile", {"actions": sorted(a - b)}, {"actions": sorted(b - a)})
    return None


# ------------------------------------------------------------------ R04.3
def progress_graph(ctx, rule, which):
    """no cycle of transitions that consume no input; eof_step reaches the single EOF leaf"""
    T = ctx.tables(which)
    sus = SUSPEND[which]
    # nodes (state, reconsume flag)
    edges = {}
    for st, cells in T["raw"]["step"].items():
        for r in (False, True):
            for c in cells or []:
                if c["outcome"] == "return" and c["value"] == sus and not c["actions"]:
                    continue
                g = _guards(c)
                if "self.reconsume" in g and g["self.reconsume"] != r:
                    continue
                consumed = False
                flag = r
                for l, ch in _acq(c):
                    if l in ("get_char",) and (_is_class(ch)):
                        if not flag:
                            consumed = True
                        flag = False
                    elif l.startswith("pop_except_from") and (ch == "RUN" or _is_class(ch)):
                        if not flag:
                            consumed = True
                        flag = False
                    elif l.startswith("eat(") and ch == "true":
                        consumed = True
                for a, args in c["actions"]:
                    if a == "discard_char":
                        if not flag:
                            consumed = True
                        flag = False
                    if a == "set self.reconsume" and args == ("true",):
                        flag = True
                    if a in ("start_consuming_character_reference", "consume_char_ref"):
                        consumed = True  # progress of the sub-tokenizer is checked below
                if c["value"] != "Continue" and c["outcome"] == "return" and not str(c["value"]).startswith("self.emit"):
                    continue
                if not consumed:
                    edges.setdefault((st, r), set()).add((c["next"], flag))
    cyc = _find_cycle(edges)
    ctx.ob(rule, "no-nonconsuming-cycle/%s/step" % which, cyc is None,
           "transitions that consume nothing form a cycle: %s" % " -> ".join("%s%s" % (s, "(reconsume)" if r else "") for s, r in cyc) if cyc else
           "%d non-consuming edges, acyclic: run() performs O(input) steps" % sum(len(v) for v in edges.values()), "%s tokenizer step" % which)
    # eof_step
    e2 = {}
    leaves = 0
    for st, cells in T["raw"]["eof_step"].items():
        for c in cells or []:
            if c["value"] == sus or c["value"] == "Suspend" or c["value"] == "Done":
                names = [a for a, _ in c["actions"]]
                ok = "emit_eof" in names
                leaves += 1
                ctx.ob(rule, "eof-leaf/%s/state=%s" % (which, st), ok, "eof_step stops here having emitted EOF" if ok else "eof_step stops in this state without emitting EOF")
            else:
                if any(a == "emit_eof" for a, _ in c["actions"]):
                    ctx.ob(rule, "eof-then-continue/%s/state=%s" % (which, st), False, "EOF is emitted and eof_step continues: more than one EOF possible")
                e2.setdefault(st, set()).add(c["next"])
    cyc = _find_cycle({k: {(x) for x in v} for k, v in e2.items()})
    ctx.ob(rule, "eof_step-acyclic/%s" % which, cyc is None, "eof_step can loop: %s" % (cyc,) if cyc else "%d states, every chain ends in an EOF leaf" % len(T["raw"]["eof_step"]))
    ctx.floor(rule, "eof-leaves/" + which, leaves, 1)
    # char-ref machine: every Progress consumes or advances the state
    order = {"Begin": 0, "Octothorpe": 1, "Numeric": 2, "NumericSemicolon": 3, "Named": 1, "BogusName": 2}
    for fn, pcs in T["charref"].items():
        if not fn.startswith("do_"):
            continue
        bad = None
        for pc in pcs:
            if pc["ret"] != "Progress":
                continue
            names = [a for a, _ in pc["actions"]]
            consumes = any(n in ("tokenizer.discard_char",) for n in names) or any(l == "get_char" and isinstance(ch, tuple) for l, ch in pc["acq"])
            advances = any(a == "assign self.state" for a in names)
            if not (consumes or advances):
                bad = pc
        ctx.ob(rule, "charref-progress/%s/%s" % (which, fn), bad is None, "a Progress result neither consumes a character nor changes the sub-tokenizer state" if bad else "every Progress consumes or advances")


def _find_cycle(edges):
    WHITE, GREY, BLACK = 0, 1, 2
    color = {}
    for start in list(edges):
        if color.get(start, WHITE) != WHITE:
            continue
        stack = [(start, iter(sorted(edges.get(start, ()), key=str)))]
        color[start] = GREY
        path = [start]
        while stack:
            node, it = stack[-1]
            adv = False
            for nx in it:
                c = color.get(nx, WHITE)
                if c == GREY:
                    return path[path.index(nx):] + [nx]
                if c == WHITE:
                    color[nx] = GREY
                    stack.append((nx, iter(sorted(edges.get(nx, ()), key=str))))
                    path.append(nx)
                    adv = True
                    break
            if not adv:
                color[node] = BLACK
                stack.pop()
                path.pop()
    return None


# ------------------------------------------------------------------ R03.2
def temp_buf_dataflow(ctx, rule, which):
    """temp_buf is empty whenever a state whose arm calls eat() is entered from another state"""
    T = ctx.tables(which)
    states = list(T["raw"]["step"])
    EMPTY, MAYBE = 0, 1
    val = {s: None for s in states}
    init = "Data"
    # every state may be the initial one through the options: the buffer is empty at construction
    for s in states:
        val[s] = EMPTY
    raw_targets = [s for s in states if s.startswith("RawData(") or s == "Plaintext" or s == "Data"]
    eat_states = set()
    succ = {}
    for st, cells in T["raw"]["step"].items():
        for c in cells or []:
            if any(l.startswith("eat(") for l, ch in _acq(c)):
                eat_states.add(st)
    changed = True
    it = 0
    while changed and it < 200:
        changed = False
        it += 1
        for st, cells in T["raw"]["step"].items():
            for c in cells or []:
                v = val[st]
                # eat(): None leaves the stash (state unchanged, suspended); Some(_) has taken it
                acqs = _acq(c)
                if any(l.startswith("eat(") and ch in ("true", "false") for l, ch in acqs):
                    v = EMPTY
                if any(l.startswith("eat(") and ch == "None" for l, ch in acqs):
                    continue
                for a, args in c["actions"]:
                    if a in ("clear_temp_buf", "emit_temp_buf"):
                        v = EMPTY
                    elif a.endswith("temp_buf.push_char") or a.endswith("temp_buf.push_tendril") or a.endswith("temp_buf.push_slice"):
                        v = MAYBE
                targets = [c["next"]]
                if any(a.startswith("emit_") and a.endswith("tag") for a, _ in c["actions"]):
                    targets += raw_targets
                for t in targets:
                    if t in val and t != st and v > val[t]:
                        val[t] = v
                        changed = True
                    elif t == st and t in eat_states and v == MAYBE and c["outcome"] != "return":
                        pass
    for s in sorted(eat_states):
        cells = T["raw"]["step"][s]
        ctx.ob(rule, "temp_buf-empty-at-eat/%s/state=%s" % (which, s), val[s] == EMPTY,
               "temp_buf may be non-empty when this state is entered: eat() would splice stale text into the input" if val[s] != EMPTY else "every entering edge leaves temp_buf empty (clear_temp / emit_temp / eat Some)")
    ctx.floor(rule, "eat-states/" + which, len(eat_states), 2)


# ------------------------------------------------------------------ R08.3b / R03.6b  sibling gates
def wrapper_fast_path_gate(ctx, rule, which):
    """pop_except_from (the tokenizer's wrapper) may read a run straight from the queue only when no 'ignore LF' is pending and no
    character is waiting to be reconsumed: both are resolved only on the character-by-character path"""
    T = ctx.tables(which)
    pe = T["helpers"].get("pop_except_from")
    if not pe:
        raise AnchorMissing("pop_except_from not tabulated")
    flags = []
    if any("self.ignore_lf" in g for pc in T["helpers"].get("get_preprocessed_char", []) for g in pc["guards"]):
        flags.append("self.ignore_lf")
    if any("self.reconsume" in g for pc in T["helpers"].get("get_char", []) for g in pc["guards"]):
        flags.append("self.reconsume")
    n = 0
    for pc in pe:
        if not any(a == "input.pop_except_from" for a, _ in pc["actions"]):
            continue
        n += 1
        miss = [f for f in flags if pc["guards"].get(f) is not False]
        ctx.ob(rule, "wrapper-fast-path-gate/%s/%d" % (which, n), not miss,
               "the direct read is taken only with %s all clear" % flags if not miss else
               "pop_except_from reads a run directly from the queue although %s may be set: the pending state is resolved only by get_char / get_preprocessed_char, so the run hides it (e.g. an LF after CR...text is swallowed later)" % miss,
               "%s tokenizer pop_except_from" % which)
    ctx.floor(rule, "wrapper-fast-paths/" + which, n, 1)
    ctx.floor(rule, "wrapper-flags/" + which, len(flags), 1)


def raw_path_gate(ctx, rule, which):
    """a state arm that reads the queue directly (front chunk / SIMD) must be gated by at least the conditions under
    which the pop_except_from wrapper itself leaves the character-by-character path"""
    T = ctx.tables(which)
    pe = T["helpers"].get("pop_except_from")
    if not pe:
        raise AnchorMissing("pop_except_from not tabulated")
    required = None
    for pc in pe:
        if any(a == "input.pop_except_from" for a, _ in pc["actions"]):
            g = {k: v for k, v in pc["guards"].items() if k.startswith("self.") and "(" not in k}
            required = g if required is None else {k: v for k, v in required.items() if g.get(k) == v}
    if not required:
        raise AnchorMissing("pop_except_from: fast-path gate not found")
    n = 0
    for st, cells in T["raw"]["step"].items():
        bad = None
        has = False
        for c in cells or []:
            if not any(l == "peek_front_chunk_mut" for k, l, ch in c["choices"] if k == "acq"):
                continue
            has = True
            g = _guards(c)
            miss = [k for k, v in required.items() if g.get(k) != v]
            if miss:
                bad = miss
        if has:
            n += 1
            ctx.ob(rule, "raw-path-gate/%s/state=%s" % (which, st), bad is None,
                   "the direct (SIMD) read of the front chunk is not gated by %s, which pop_except_from requires before leaving the normalising path: a pending CR / reconsumed character / exact error would be skipped" % bad
                   if bad else "gated by %s like the wrapper's own fast path" % sorted(required), "%s tokenizer step, state %s" % (which, st))
    return n


def eat_drains_queue(ctx, rule, which):
    """when eat() answers 'need more input' it has moved the WHOLE queue into temp_buf: the None answer is given only where the
    queue's own next() came back empty, and the iteration that did get a character moves it into temp_buf and goes round again
    (a lookahead that stashes only the front buffer loses - or reorders - the rest of the caller's input)"""
    T = ctx.tables(which)
    eat = T["helpers"].get("eat") or []
    need = [pc for pc in eat if pc["ret"] == "None"]
    drained = bool(need) and all(any(g.startswith("input.next() matches Some") and v is False for g, v in pc["guards"].items()) for pc in need)
    moving = [pc for pc in eat if any(g.startswith("input.next() matches Some") and v is True for g, v in pc["guards"].items())]
    ok = drained and bool(moving) and all(any(a == "self.temp_buf.push_char" for a, _ in pc["actions"]) and pc["ret"] not in ("None",) for pc in moving)
    # ... and the stash is joined back in front of the input before anything is decided: every path of eat() pushes temp_buf back
    # before it compares (or answers)
    late = None
    for pc in eat:
        names = [a for a, _ in pc["actions"]]
        if "panic!" in names:
            continue
        if "input.push_front" not in names or ("input.eat" in names and names.index("input.push_front") > names.index("input.eat")):
            late = "eat() answers %s on a path that has not first pushed the stashed prefix back to the front of the input (%s): a keyword split across chunks is compared without its first part" % (pc["ret"], [g[:40] for g, v in pc["guards"].items() if v][:2])
    ctx.ob(rule, "eat-rejoins-the-stash-first/%s" % which, late is None, late or "every path pushes temp_buf back before comparing", "%s tokenizer eat" % which)
    ctx.ob(rule, "eat-drains-the-queue-when-it-needs-more/%s" % which, ok,
           "when eat() answers 'need more input' it has moved the *whole* queue into temp_buf (a loop over input.next())" if ok else
           "eat() can answer 'need more input' leaving characters in the caller's queue (or moving only part of them): the stashed text and the rest of the input are re-joined in the wrong order or not at all", "%s tokenizer eat" % which)


def end_uses_one_queue(ctx, rule, which):
    """end(): what the character-reference sub-tokenizer un-consumes at end of input goes into the very queue that run() then
    processes - the queue handed to end_of_file and the queue handed to run are the same local"""
    from lib.ast import walk
    crate = "html5ever" if which == "html" else "xml5ever"
    ty = "Tokenizer" if which == "html" else "XmlTokenizer"
    its = [it for it in ctx.ast.walkable(crate) if it["k"] == "Fn" and it["name"] == "end" and (it.get("self_ty") or "").replace(" ", "").startswith(ty) and it.get("body") is not None]
    if len(its) != 1:
        raise AnchorMissing("%s::end" % ty)
    eof, run = [], []

    def root(e):
        while isinstance(e, dict) and e.get("k") in ("Ref", "Unary", "Paren"):
            e = e["e"]
        return e["path"] if isinstance(e, dict) and e.get("k") == "Path" else None

    def f(n):
        if n.get("k") == "MethodCall" and n["m"] == "end_of_file" and len(n["args"]) == 2:
            eof.append(root(n["args"][1]))
        if n.get("k") == "MethodCall" and n["m"] == "run" and len(n["args"]) == 1 and root(n.get("recv")) == "self":
            run.append(root(n["args"][0]))
    walk(its[0]["body"], f)
    ok = len(eof) == 1 and len(run) >= 1 and eof[0] is not None and all(r == eof[0] for r in run)
    ctx.ob(rule, "end-unconsumes-into-the-queue-it-runs/%s" % which, ok, "end_of_file and run share the local queue `%s`" % eof[0] if ok else
           "end() hands end_of_file the queue %s and run() the queue %s: text the character-reference tokenizer un-consumes at end of input (e.g. `&am`) is lost" % (eof, run), "%s tokenizer end" % which)


def attr_values_kept_verbatim(ctx, rule, which):
    """in the attribute value states of the tokenizer every character that is taken into the value is taken as it is (the input
    character, or the run that was scanned): nothing is folded or replaced there, except U+0000 -> U+FFFD in HTML, which the
    standard prescribes.  (Whitespace normalisation of attribute values is not part of either tokenizer; the serializers write
    line breaks in attribute values raw and rely on that.)"""
    T = ctx.tables(which)
    states = [st for st in T["step"] if re.match(r"(TagAttrValue\(|AttributeValue\()", st)]
    bad = None
    n = 0
    for st in states:
        for pc in T["step"][st] or []:
            for a, args in pc["actions"]:
                if a in ("self.current_attr_value.push_char", "self.current_attr_value.push_tendril", "self.current_attr_value.push_slice"):
                    n += 1
                    x = str(args[0]) if args else ""
                    ok = x in ("c", "run") or (which == "html" and x == "lit:'\ufffd'")
                    if not ok:
                        bad = "state %s appends %s to the attribute value instead of the character read" % (st, x)
    ctx.ob(rule, "attribute-value-characters-kept-verbatim/%s" % which, bad is None and n >= 6, bad or "%d appends, all of the character / run that was read" % n, "%s tokenizer attribute value states" % which)


def attr_buffers_emptied(ctx, rule, which):
    """finish_attribute: whenever an attribute name was collected, both the name buffer and the value buffer are empty when the
    function returns - whether the attribute is kept (buffers moved into it) or dropped as a duplicate.  A value left behind is
    prepended to the next attribute's value, even in a later tag"""
    T = ctx.tables(which)
    rows = T["helpers"].get("finish_attribute")
    if not rows:
        raise AnchorMissing("finish_attribute not tabulated (%s)" % which)
    bad = None
    n = 0
    for pc in rows:
        g = pc["guards"]
        if any(v and re.search(r"current_attr_name\.is_empty\(\)|current_attr_name\.len\(\) matches 0", k) for k, v in g.items()):
            continue
        if "panic!" in [a for a, _ in pc["actions"]]:
            continue
        n += 1
        txt = " ".join("%s(%s)" % (a, ",".join(str(x) for x in args)) for a, args in pc["actions"]) + " " + str(pc["ret"])
        for buf in ("current_attr_name", "current_attr_value"):
            if not re.search(r"self\.%s\.clear\(|take\(self\.%s\)|take self\.%s|replace self\.%s|set self\.%s|assign self\.%s|self\.%s\.take\(" % ((buf,) * 7), txt):
                kept = not any(v and ".any(" in k for k, v in g.items())
                bad = "on the path where the attribute is %s, %s is not emptied: its content is glued to the front of the next attribute's %s" % (
                    "kept" if kept else "dropped as a duplicate", buf, "name" if buf.endswith("name") else "value")
    ctx.ob(rule, "finish_attribute-empties-both-buffers/%s" % which, bad is None and n >= 2, bad or "%d paths, name and value buffers emptied on each" % n, "%s tokenizer finish_attribute" % which)


RUN_ACTIONS = {"emit_chars", "self.current_attr_value.push_tendril", "self.current_comment.push_tendril", "self.current_pi_data.push_tendril", "self.temp_buf.push_tendril"}


def runs_only_concatenate(ctx, rule, which):
    """where a state takes a whole *run* of characters from the queue (pop_except_from -> NotFromSet), the length of the run depends
    on where the input was cut into chunks.  So the only thing a state may do with a run is append it to the buffer / character
    token it is collecting and stay in the same state: no error report, no flag, no state change, nothing per run"""
    T = ctx.tables(which)
    bad = None
    n = 0
    for st, rows in T["step"].items():
        for pc in rows or []:
            if not any(len(a) >= 2 and a[1] == "RUN" for a in (pc.get("acq") or [])):
                continue
            n += 1
            acts = [(a, tuple(str(x) for x in args)) for a, args in pc["actions"]]
            ok = len(acts) == 1 and acts[0][0] in RUN_ACTIONS and acts[0][1] == ("run",) and str(pc["ret"]) == "Continue" and pc.get("next") in (st, None)
            if not ok:
                bad = "state %s does %s -> %s/%s with a run of characters; how long a run is depends on the chunking, so anything but appending it shows the chunk boundaries (e.g. one parse error per run)" % (
                    st, [a for a, _ in acts][:4], pc["ret"], pc.get("next"))
            elif any(not re.match(r"^\(?self\.(opts|profile)", k) for k in pc["guards"]):
                extra = [k for k in pc["guards"] if not re.match(r"^\(?self\.(opts|profile)", k)]
                bad = "state %s examines a run of characters (%s) before appending it: the answer depends on where the run was cut" % (st, extra[0][:80])
    floor = 10 if which == "html" else 3
    ctx.ob(rule, "runs-are-only-appended/%s" % which, bad is None and n >= floor, bad or "%d run arms: append the run, stay in the state" % n, "%s tokenizer step" % which)


CHARREF_STATES = {"Begin", "Octothorpe", "Numeric", "NumericSemicolon", "Named", "BogusName"}


def charref_eof_resolution(ctx, rule, which):
    """end of input inside a character reference: every state resolves what was collected the way the standard's 'EOF' /
    'anything else' entries do - a name still being matched is looked up (longest match so far, as if a non-name character
    followed); a name known not to match is handed back as text; digits are converted; '&#' / '&#x' without digits is handed back"""
    T = ctx.tables(which)
    rows = (T.get("charref") or {}).get("end_of_file")
    if not rows:
        raise AnchorMissing("CharRefTokenizer::end_of_file not tabulated (%s)" % which)
    bad = None
    seen = set()
    for pc in rows:
        S = set(CHARREF_STATES)
        for k, v in pc["guards"].items():
            m = re.match(r"self\.state matches (.*)$", re.sub(r"#\d+$", "", k))
            if not m:
                continue
            alts = {a.split("(")[0] for a in m.group(1).split("|")}
            S = S & alts if v else S - alts
        if not S or S == CHARREF_STATES:
            continue  # infeasible, or a path that does not look at the state (a result is already there)
        names = [a for a, _ in pc["actions"]]
        args = {a: tuple(str(x) for x in ar) for a, ar in pc["actions"]}
        digits = [v for k, v in pc["guards"].items() if re.sub(r"\.get\(\)$", "", k) == "self.seen_digit"]
        resolve = [a for a in names if a in ("finish_named", "finish_numeric", "unconsume_name", "unconsume_numeric")]
        if "Named" in S:
            if S == {"Named"}:
                seen.add("Named")
            if resolve != ["finish_named"] or "None" not in args["finish_named"]:
                bad = "state Named at end of input: %s - the name matched so far must be looked up as if a non-name character followed (finish_named with no next character); handing it back as text leaves '&amp' / '&lt;' at the very end of the input undecoded" % (resolve or names[:2])
        elif S == {"BogusName"}:
            seen.add("BogusName")
            if resolve != ["unconsume_name"]:
                bad = "state BogusName at end of input: %s instead of handing the name back" % (resolve or names[:2])
        elif S <= {"Numeric", "NumericSemicolon"}:
            if S == {"Numeric"} and digits and digits[-1] is False:
                seen.add("NoDigits")
                if resolve != ["unconsume_numeric"]:
                    bad = "'&#' without digits at end of input: %s instead of handing the characters back" % (resolve or names[:2])
            else:
                seen.add("Numeric")
                if resolve != ["finish_numeric"]:
                    bad = "digits at end of input: %s instead of converting them" % (resolve or names[:2])
        elif S == {"Octothorpe"}:
            seen.add("Octothorpe")
            txt = " ".join("%s(%s)" % (a, ",".join(str(x) for x in ar)) for a, ar in pc["actions"])
            if resolve or '"#"' not in txt:
                bad = "'&#' at end of input: %s instead of handing '#' back" % (resolve or names[:2])
        elif S == {"Begin"}:
            seen.add("Begin")
            if resolve:
                bad = "nothing was read after '&' but %s is performed" % resolve
    want = {"Named", "BogusName", "Numeric", "NoDigits", "Octothorpe", "Begin"}
    ctx.ob(rule, "charref-end-of-input/%s" % which, bad is None and want <= seen, bad or "Named -> looked up; BogusName -> handed back; digits -> converted; no digits / '#' -> handed back", "%s char_ref end_of_file" % which)


def hex_marker_conserved(ctx, rule, which):
    """'&#x' / '&#X' without digits is not a reference: the characters are given back exactly as they were read.  The character
    consumed after '#' is therefore remembered as read (not re-created from the numeric base), and the text pushed back is '#'
    followed by that character"""
    T = ctx.tables(which)
    cr = T.get("charref") or {}
    rows = cr.get("do_octothorpe")
    back = cr.get("unconsume_numeric")
    if not rows or not back:
        raise AnchorMissing("do_octothorpe / unconsume_numeric not tabulated (%s)" % which)
    bad = None
    fields = set()
    n = 0
    for pc in rows:
        acts = [(a, tuple(str(x) for x in args)) for a, args in pc["actions"]]
        names = [a for a, _ in acts]
        consumed = any(a.endswith("discard_char") or a.endswith("get_char") or a.endswith(".next") for a in names)
        rec = [(a[len("assign self."):], args[0]) for a, args in acts if a.startswith("assign self.") and args and "«c»" in args[0] and not a.endswith(".state")]
        if consumed:
            n += 1
            if not rec:
                bad = "a character after '&#' is consumed (%s) without being remembered as read: '&#X' without digits cannot be given back with its own 'X'" % [a for a in names if "char" in a][:1]
            fields |= {f for f, _ in rec}
    if len(fields) == 1:
        f = sorted(fields)[0]
        for pc in rows:
            acts = [(a, tuple(str(x) for x in args)) for a, args in pc["actions"]]
            consumed = any(a.endswith("discard_char") for a, _ in acts)
            if not consumed and acts and not any(a == "assign self." + f and args == ("None",) for a, args in acts):
                bad = bad or "a path that consumes nothing after '#' leaves self.%s as it was" % f
        k = 0
        for pc in back:
            txt = " ".join("%s(%s)" % (a, ",".join(str(x) for x in args)) for a, args in pc["actions"])
            has = [v for g, v in pc["guards"].items() if re.match(r"self\.%s matches Some\(_\)" % re.escape(f), g)]
            if "'#'" not in txt and '"#"' not in txt:
                bad = bad or "the text pushed back does not start with '#'"
            if has and has[-1]:
                k += 1
                if not re.search(r"push_char\(self\.%s\.0\)" % re.escape(f), txt):
                    bad = bad or "with a marker character remembered, the text pushed back is not '#' + that character (%s)" % txt[:80]
            elif re.search(r"push_char|push_slice|\"#x\"|\"#X\"", txt):
                bad = bad or "without a marker character something is appended to '#' (%s)" % txt[:80]
        if k < 1:
            bad = bad or "unconsume_numeric never gives the remembered marker character back"
    elif bad is None:
        bad = "the consumed marker character is remembered in %s" % (sorted(fields) or "no field")
    ctx.ob(rule, "hex-marker-given-back-as-read/%s" % which, bad is None and n >= 2, bad or "x / X remembered as read in self.%s and pushed back after '#'" % sorted(fields)[0], "%s char_ref do_octothorpe / unconsume_numeric" % which)


def driver_feeds_until_done(ctx, rule, area, fn, what):
    """the driver's process(): the chunk is queued, then the tokenizer is fed again and again until it no longer answers with a
    suspension (Script / EncodingIndicator): after a suspension the rest of the chunk is still in the queue, and nothing else
    would ever feed it (finish() only calls end())"""
    from . import nfq
    key, pcs = nfq.cells(ctx, area, fn)
    bad = None
    n = 0
    for pc in nfq.feasible(pcs):
        acts = [(a, tuple(str(x) for x in args)) for a, args in pc["actions"]]
        names = [a for a, _ in acts]
        if not any(a.endswith(".feed") for a in names):
            continue
        n += 1
        res = [(g, v) for g, v in pc["guards"].items() if re.search(r"\.feed\(.*\) matches ", g)]
        ends = [args for a, args in acts if a == "loop-end"]
        if not res:
            bad = "%s feeds the tokenizer once and does not look at the answer: after a suspension (</script>) the rest of the chunk stays in the queue - it is parsed with the next chunk, or never" % what
            continue
        suspended = None
        for g, v in res:
            alts = set(re.sub(r"#\d+$", "", g).split(" matches ", 1)[1].split("|"))
            if alts <= {"Script(_)", "EncodingIndicator(_)"}:
                suspended = v if suspended is None else (suspended or v)
            elif alts == {"Done"}:
                suspended = (not v) if suspended is None else suspended
        if suspended is None:
            bad = "%s: feed's answer is tested for %s, which does not tell a suspension from completion" % (what, res[0][0][-40:])
        elif suspended and (not ends or ends[-1][0] not in ("end", "continue")):
            bad = "%s returns although the tokenizer reported a suspension: the rest of the chunk is left in the queue" % what
        elif not suspended and ends and ends[-1][0] in ("end", "continue"):
            bad = "%s feeds again although the tokenizer is done" % what
    ctx.ob(rule, "driver-feeds-until-done/%s" % what, bad is None and n >= 2, bad or "%d paths: feed again after a suspension, stop on Done" % n, what)


def run_maps_step_results(ctx, rule, which):
    """run(): whatever step() answers is passed on unchanged, in both the plain and the profiling loop - Continue goes on, Suspend
    answers Done, Script(x) answers Script(x), EncodingIndicator(x) answers EncodingIndicator(x).  A pause reported as Done makes
    the caller believe the queue is empty"""
    T = ctx.tables(which)
    rows = T["helpers"].get("run")
    if not rows:
        raise AnchorMissing("run not tabulated (%s)" % which)
    U = {"Continue", "Suspend", "Script", "EncodingIndicator"} if which == "html" else {"Continue", "Done", "Suspend", "Script"}
    bad = None
    seen = set()
    for pc in rows:
        S = set(U)
        tested = False
        for k, v in pc["guards"].items():
            m = re.match(r"self\.step\(.*\) matches (.*)$", re.sub(r"#\d+$", "", k))
            if not m:
                continue
            tested = True
            alts = {a.split("(")[0] for a in m.group(1).split("|")}
            if "_" in alts:
                alts = set(U)
            S = S & alts if v else S - alts
        if not tested or not S:
            continue
        ret = str(pc["ret"])
        for r in S:
            seen.add(r)
            if r == "Continue":
                ok = ret == "()"
            elif r in ("Suspend", "Done"):
                ok = ret == "Done"
            else:
                ok = re.fullmatch(r"%s\(self\.step\(.*\)\.0\)" % r, ret) is not None
            if not ok:
                bad = "when step() answers %s run() answers %s%s" % (r, ret, " (profiling loop)" if any(v and "profile" in g for g, v in pc["guards"].items()) else "")
    ctx.ob(rule, "run-passes-step-results-on/%s" % which, bad is None and len(seen) >= 3, bad or "Continue / Suspend / Script / EncodingIndicator each passed on unchanged, in every loop", "%s tokenizer run" % which)


def end_runs_before_eof(ctx, rule, which):
    """end(): on every path, after the end-of-input flag is set, the state machine is run once more over the queue - unconditionally -
    before eof_step decides per state.  That run is what re-joins a look-ahead stash (`<!-` at the very end: eat() parked '-'
    in temp_buf and only the next eat() hands it back) and what consumes text a character reference handed back; skipping it
    when the queue looks empty loses the stash"""
    T = ctx.tables(which)
    cells = T["helpers"].get("end")
    if not cells:
        raise AnchorMissing("%s tokenizer end not tabulated" % which)
    bad = None
    n = 0
    for pc in cells:
        names = [a for a, _ in pc["actions"]]
        if "eof_step" not in names and str(pc["ret"]) == "!":
            continue
        n += 1
        if "run" not in names:
            bad = bad or "a path of end() reaches %s without running the state machine over the queue first (guards %s)" % ("eof_step" if "eof_step" in names else "its end", [k for k in pc["guards"]][:3])
            continue
        i_run = names.index("run")
        if "eof_step" in names and names.index("eof_step") < i_run:
            bad = bad or "eof_step before the final run"
        if "set self.at_eof" not in names[:i_run]:
            bad = bad or "the final run happens before the end-of-input flag is set"
    ctx.ob(rule, "end-runs-the-machine-before-eof-step/%s" % which, bad is None and n >= 2, bad or "%d paths: at_eof := true; run(queue); then eof_step" % n, "%s tokenizer end" % which)


def preprocess_transcription(ctx, rule, which):
    """'Preprocessing the input stream' as a function of (the character read, the pending-CR flag, the character behind a
    skipped LF), transcribed here and compared with every cell of get_preprocessed_char's table:

      flag set on entry: flag := false; if the character is LF it is skipped and the NEXT character is taken in its place
                         (none available: answer None), and everything below applies to that character
      CR   -> the answer is LF and the flag is set            (CR LF and a bare CR both give one LF)
      NUL  -> xml5ever: U+FFFD;  html5ever: unchanged (the states decide)
      else -> unchanged
      the answer is recorded as the current character; html5ever counts a line exactly when the answer is LF.

    Every path that answers a character has consulted the flag (an early return in front of it leaves a pending CR armed)."""
    T = ctx.tables(which)
    cells = T["helpers"].get("get_preprocessed_char")
    if not cells:
        raise AnchorMissing("%s get_preprocessed_char not tabulated" % which)
    bad = {}
    n = 0
    LF, CR, REPL = "'\\n'", "'\\r'", "'�'"

    def lit(x, single):
        x = str(x)
        if x.startswith("lit:"):
            x = x[4:]
        if x in ("c", "«c»"):
            if single is None:
                return "«c»"
            return repr(chr(single)) if single not in (10, 13) else ("'\\n'" if single == 10 else "'\\r'")
        return x

    for pc in cells:
        acq = dict(pc["acq"])
        pk = acq.get("param c")
        if not isinstance(pk, (tuple, list)):
            continue
        lo, hi = pk
        single = lo if lo == hi else None
        g = pc["guards"]
        ret = str(pc["ret"])
        acts = [(a, [str(x) for x in args]) for a, args in pc["actions"]]
        n += 1
        specials = [x for x in ((10, 13, 0) if which == "xml" else (10, 13)) if lo <= x <= hi]
        if specials and single is None:
            bad.setdefault("classes", "U+%04X..U+%04X is treated as one class although it contains U+%04X" % (lo, hi, specials[0]))
            continue
        saw = g.get("self.ignore_lf")
        if ret == "None":
            if not (saw is True and single == 10 and g.get("input.next() matches Some(_)") is False):
                bad.setdefault("none", "answers None for U+%04X.. with guards %s: only a skipped LF with nothing behind it has no answer" % (lo, list(g)[:3]))
            continue
        if saw is None:
            bad.setdefault("flag-not-consulted", "a character (U+%04X..U+%04X, guards %s) is answered without consulting the pending-CR flag: after CR such a character leaves the flag armed and the LF behind it is dropped" % (lo, hi, [k for k in g][:2]))
            continue
        if saw and single == 10:
            if g.get("input.next() matches Some(_)") is not True:
                bad.setdefault("skip", "LF after CR is not replaced by the next character")
                continue
            is_cr = g.get("input.next().0 matches '\\r'")
            if is_cr is None:
                bad.setdefault("refetched-cr", "the character read in place of a skipped LF is not examined for CR")
                continue
            e = "cr" if is_cr else "other"
            if which == "xml" and not is_cr:
                is_nul = g.get("input.next().0 matches '\\x00'")
                if is_nul is None:
                    bad.setdefault("refetched-nul", "the character read in place of a skipped LF is not examined for U+0000: CR LF NUL yields a raw U+0000 where NUL alone yields U+FFFD")
                    continue
                if is_nul:
                    e = "nul"
            want = {"cr": LF, "nul": REPL, "other": "input.next().0"}[e]
            if e == "other" and g.get("input.next().0 matches «c»") is True:
                want_alt = LF  # the re-fetched character is itself LF
            else:
                want_alt = None
        else:
            e = "cr" if single == 13 else "nul" if (single == 0 and which == "xml") else "other"
            want = {"cr": LF, "nul": REPL}.get(e) or lit("«c»", single)
            want_alt = None
        m = re.fullmatch(r"Some\((.*)\)", ret)
        got = lit(m.group(1), single) if m else ret
        if got != want and got != want_alt and not (want == "input.next().0" and got == "input.next().0"):
            bad.setdefault("answer/" + e, "for %s (flag %s) the answer is %s, expected %s" % ("U+%04X" % lo if single is not None else "U+%04X..U+%04X" % (lo, hi), saw, got, want))
        cur = [lit(a[1][0], single) for a in acts if a[0] == "set self.current_char"]
        if cur != [got]:
            bad.setdefault("current-char", "the current character is recorded as %s while %s is answered" % (cur, got))
        flags = [a[1][0] for a in acts if a[0] == "set self.ignore_lf"]
        if saw and (not flags or flags[0] != "false"):
            bad.setdefault("flag-cleared", "the pending-CR flag was found set and is not cleared first")
        final = flags[-1] if flags else None
        if e == "cr" and final != "true":
            bad.setdefault("flag-set", "CR does not leave the pending-CR flag set")
        if e != "cr" and final == "true":
            bad.setdefault("flag-set", "the pending-CR flag is set by a character other than CR")
        if which == "html":
            counted = sum(1 for a in acts if a[0] == "set self.current_line")
            is_lf_answer = got == LF or (want_alt == LF and got in (LF, "input.next().0"))
            if (counted == 1) != bool(is_lf_answer) or counted > 1:
                bad.setdefault("line-count", "for U+%04X (flag %s) the line is counted %d time(s) while the answer %s a line feed" % (lo, saw, counted, "is" if is_lf_answer else "is not"))
    for k, d in sorted(bad.items()):
        ctx.ob(rule, "preprocessing/%s/%s" % (which, k), False, d, "%s tokenizer get_preprocessed_char" % which)
    ctx.ob(rule, "preprocessing/%s" % which, not bad and n >= 100, ("%d cells agree with the transcription of 'preprocessing the input stream'" % n) if not bad else ("%d cells compared, %d kind(s) of disagreement" % (n, len(bad))), "%s tokenizer get_preprocessed_char" % which)
    return n


def feed_facts(ctx, rule, which):
    """feed(): (a) its answer is run()'s answer, unchanged, on every path that runs the machine (an EncodingIndicator or a script
    pause that arrives with the queue empty is still reported); (b) the BOM test drops at most ONE character - feed() has no
    loop and calls input.next() once"""
    from lib.ast import walk
    T = ctx.tables(which)
    pcs = T["helpers"].get("feed")
    if not pcs:
        raise AnchorMissing("feed not tabulated")
    bad = None
    n = 0
    for pc in pcs:
        names = [a for a, _ in pc["actions"]]
        if "run" in names:
            n += 1
            insp = [k for k in pc["guards"] if k.startswith("self.run() matches") or k.startswith("self.run()#")]
            if insp:
                # (the table's guards are evaluated as pure queries, so a test like `if input.is_empty()` AFTER run() cannot be
                # followed reliably; a feed() that looks into run()'s answer at all is reported)
                bad = bad or "feed() inspects what run() answered (%s) instead of handing it on" % insp[0]
            if str(pc["ret"]) != "self.run()":
                bad = bad or "a path of feed() that ran the machine answers %s instead of what run() answered (guards %s)" % (pc["ret"], [k for k in pc["guards"]][-2:])
    ctx.ob(rule, "feed-answers-what-run-answered/%s" % which, bad is None and n >= 2, bad or "%d running paths return run()'s answer" % n, "%s tokenizer feed" % which)
    crate = "html5ever" if which == "html" else "xml5ever"
    ty = "Tokenizer" if which == "html" else "XmlTokenizer"
    its = [it for it in ctx.ast.walkable(crate) if it["k"] == "Fn" and it["name"] == "feed" and (it.get("self_ty") or "").replace(" ", "").startswith(ty) and it.get("body") is not None]
    if len(its) != 1:
        raise AnchorMissing("%s::feed" % ty)
    loops, nexts = [], []

    def f(nd):
        if nd.get("k") in ("While", "Loop", "For", "ForLoop", "WhileLet"):
            loops.append(nd["k"])
        if nd.get("k") == "MethodCall" and nd["m"] in ("next", "pop_front", "pop_front_char") :
            nexts.append(nd["m"])
    walk({"k": "Block", "body": its[0]["body"]} if isinstance(its[0]["body"], list) else its[0]["body"], f)
    ok = not loops and len(nexts) <= 1
    ctx.ob(rule, "bom-at-most-one-character/%s" % which, ok, "feed() drops at most one character (no loop, %d consuming call)" % len(nexts) if ok else
           "feed() consumes input in a loop or more than once (%s, %s): only the very first character of the stream can be a byte order mark - a second U+FEFF is text" % (loops, nexts),
           "%s tokenizer feed" % which)


def no_value_without_name(ctx, rule, which):
    """an attribute VALUE is collected only for an attribute that has a NAME: either finish_attribute empties the value buffer also
    on its early return for an empty name, or no state outside the attribute-name / attribute-value states switches to a state
    that collects a value.  (xml5ever's TagEmpty state - `<a /x>` - reconsumed in TagAttrValueBefore with no attribute started;
    the `x`, never attached to a name, stayed in the buffer and was glued to the front of the first attribute value of the NEXT
    tag - e.g. its xmlns declaration.)"""
    T = ctx.tables(which)
    rows = T["helpers"].get("finish_attribute")
    if not rows:
        raise AnchorMissing("finish_attribute not tabulated (%s)" % which)
    clears_on_empty = True
    n = 0
    for pc in rows:
        if any(v and re.search(r"current_attr_name\.is_empty\(\)|current_attr_name\.len\(\) matches 0", k) for k, v in pc["guards"].items()):
            n += 1
            txt = " ".join("%s(%s)" % (a, ",".join(str(x) for x in args)) for a, args in pc["actions"])
            if not re.search(r"self\.current_attr_value\.clear\(|take\(self\.current_attr_value\)|take self\.current_attr_value|replace self\.current_attr_value|self\.current_attr_value\.take\(", txt):
                clears_on_empty = False
    is_value = (lambda s: bool(re.match(r"(TagAttrValue|AttributeValue|BeforeAttributeValue)", s)))
    is_attr = (lambda s: bool(re.match(r"(TagAttrName|TagAttrValue|AttributeName|AfterAttributeName|BeforeAttributeValue|AttributeValue)", s)))
    strays = set()
    for sect in ("step", "eof_step"):
        for st, cells in T[sect].items():
            for pc in cells or []:
                nx = str(pc.get("next") or "")
                if is_value(nx) and not is_attr(st):
                    strays.add((st, nx))
    ok = clears_on_empty or not strays
    ctx.ob(rule, "no-attribute-value-without-a-name/%s" % which, ok and n >= 1,
           ("finish_attribute empties the value buffer on its empty-name return" if clears_on_empty else "value states are entered from attribute states only") if ok else
           "state %s switches to %s with no attribute started, and finish_attribute returns for an empty name without emptying the value buffer: the collected characters are glued to the next attribute's value, in a later tag" % sorted(strays)[0],
           "%s tokenizer finish_attribute / states" % which)


def emit_tag_transcription(ctx, rule):
    """'Emit the current tag token' and 'appropriate end tag token' (html5ever), cell by cell:
    the pending attribute is finished FIRST; the last-start-tag name is remembered for start tags only; the token carries the
    collected kind, name, self-closing flag, attribute list (taken) and duplicate flag; what the sink answers selects the next
    tokenizer state - Plaintext -> PLAINTEXT, RawData(k) -> that raw state, Script -> data + a pause handed on, an encoding
    indicator handed on, Continue nothing.  An end tag token is appropriate iff a start tag was emitted before and its name
    equals the current tag's name."""
    T = ctx.tables("html")
    cells = T["helpers"].get("emit_current_tag")
    if not cells:
        raise AnchorMissing("emit_current_tag not tabulated")
    TOKEN = "TagToken(Tag(self.current_tag_kind.get(),from(self.current_tag_name),self.current_tag_self_closing.get(),take(self.current_tag_attrs),self.current_tag_had_duplicate_attributes.get()))"
    bad = None
    n = 0
    for pc in cells:
        acts = [(a, [str(x) for x in args]) for a, args in pc["actions"]]
        names = [a for a, _ in acts]
        g = pc["guards"]
        n += 1
        if not names or names[0] != "finish_attribute":
            bad = bad or "the tag is emitted without finishing the pending attribute first: the last attribute of every tag is lost (or turns up in the next tag)"
        start = g.get("self.current_tag_kind.get() matches StartTag")
        remembered = [args for a, args in acts if a == "assign self.last_start_tag_name"]
        if start is True and remembered != [["Some(from(self.current_tag_name))"]]:
            bad = bad or "a start tag does not record its name as the last start tag name (%s)" % remembered
        if start is False and remembered:
            bad = bad or "an END tag overwrites the last start tag name: `<title></b></title>` no longer finds its appropriate end tag"
        toks = [args for a, args in acts if a == "process_token"]
        if len(toks) != 1 or toks[0][0].replace(" ", "") != TOKEN:
            bad = bad or "the token handed to the sink is %s" % (toks[0][0][:120] if toks else "missing")
        res = [k[len("self.process_token() matches "):] for k, v in g.items() if v is True and k.startswith("self.process_token() matches ")]
        res = res[0] if res else None
        st = [args[0] for a, args in acts if a == "set self.state"]
        ret = str(pc["ret"])
        want = {"Continue": ([], "Continue"), "Plaintext": (["Plaintext"], "Continue"), "Script(_)": (["Data"], "Script(self.process_token().0)"),
                "RawData(_)": (["RawData(self.process_token().0)"], "Continue"), "EncodingIndicator(_)": ([], "EncodingIndicator(self.process_token().0)")}.get(res)
        if want is None:
            bad = bad or "a path of emit_current_tag does not decide on the sink's answer (%s)" % res
        elif (st, ret) != want:
            bad = bad or "the sink answers %s and the tokenizer sets state %s and answers %s; expected state %s, answer %s" % (res, st, ret, want[0], want[1])
    ctx.ob(rule, "emit-current-tag", bad is None and n >= 10, bad or "%d cells: attribute finished first, last start tag for start tags only, token fields, sink answer -> state" % n, "html tokenizer emit_current_tag")
    cells = T["helpers"].get("have_appropriate_end_tag")
    if not cells:
        raise AnchorMissing("have_appropriate_end_tag not tabulated")
    bad = None
    for pc in cells:
        g = pc["guards"]
        ret = str(pc["ret"]).replace(" ", "")
        some = g.get("self.last_start_tag_name matches Some(_)")
        if some is None and not g:
            # the Option combinator form: last_start_tag_name.is_some_and(|last| [kind == EndTag &&] name == last)
            flat_ret = ret.replace("(", "").replace(")", "")
            okc = ret.startswith("self.last_start_tag_name.is_some_and(") and "current_tag_name" in ret and ("==**a1" in flat_ret or "==a1" in flat_ret) \
                and "||" not in ret and "!=" not in ret and "is_none" not in ret
            if not okc:
                bad = bad or "appropriate end tag is decided as %s" % ret[:120]
            continue
        if some is False and ret != "false":
            bad = bad or "with no start tag emitted yet the end tag counts as appropriate (%s)" % ret
        if some is True and g.get("self.current_tag_kind.get() matches EndTag") is not False:
            if ret not in ("(self.current_tag_name==self.last_start_tag_name.0)", "(self.last_start_tag_name.0==self.current_tag_name)", "true", "false") or ret in ("true",):
                bad = bad or "appropriate end tag is decided as %s, not by comparing the tag name with the last start tag name" % ret
            if ret in ("true", "false") and not any("current_tag_name" in k and "last_start_tag_name" in k for k in g):
                bad = bad or "appropriate end tag is answered %s without comparing the names" % ret
    ctx.ob(rule, "appropriate-end-tag", bad is None and len(cells) >= 1, bad or "true only if a start tag was emitted and the names are equal", "html tokenizer have_appropriate_end_tag")
