"""C04 — parsing is total: no panic, no hang, all input consumed, one EOF (DESIGN 4.C04)."""
import json
import os
import re
from collections import Counter, defaultdict

from lib import machine as mc
from lib.mir import AnchorMissing
from . import nf_common, nfq, tokrules as tr, tok_common

MANIFEST = {
    "text": "Inventory and graph rules: every explicit panic site (panic!/unreachable!/assert!/unwrap/expect/indexing) of the five crates is enumerated from MIR with resolved callees and compared, per function and kind, with a reviewed inventory (a new way to panic is a violation; arithmetic-overflow checks are listed separately); the structural invariants behind the tree builder's sites hold (orig_mode saved before Text / InTableText, template_modes popped only under an open template, pop_until_current sets contain html, the pending-token assertion reachable for tag tokens only); the tokenizers' transitions that consume no input are acyclic and eof_step ends in the single EOF leaf (HTML and XML, char-ref machines included); call-graph cycles are the reviewed ones; feed() answers Done only when run() saw a suspension and eat() drains the whole queue when it asks for more input. The tree builder's non-consuming transfers (Reprocess results, self.step delegations) are a reviewed inventory and, per token class, acyclic among transfers that leave the stack alone (R04.7); in xml5ever phase Main implies a non-empty stack of open elements (R04.8).",
    "note": 'Decides R04.1-R04.8. Not decided: termination of the transfers that pop (their measure is the stack depth) and of stack loops in the tree builder, allocation failure, that the listed invariants hold dynamically where no structural rule exists; 4 GB tendril length limit. Also decided: finish_numeric is total (R04.8); end() un-consumes into the queue it runs (R04.5). Round 6: the meta scanner never indexes with offsets found in a re-sized copy (R04.9). Round 8: R04.7 follows helper results (process_chars_in_table -> in table text) when looking for cycles of non-consuming transfers; R04.10 = R02.10 (head / td / th context element resets to in body); end() runs before eof_step (R04.5).',
    "technique": 'panic-site inventory over MIR (resolved callees) + cycle detection on flattened transition tables and on the call graph',
}
LEVEL = "other"
EXPLANATION = """
R04.1 panic-site inventory (per function and kind, against ref/panic_sites.json); R04.2 invariants behind the
tree-builder sites; R04.3 no non-consuming cycle in either tokenizer, eof_step acyclic with a single EOF leaf;
R04.4 recursion: strongly connected components of the call graph; R04.5 all input consumed (run/feed/eat/end normal
forms); R04.6 reviewed normal forms of the drivers' finish paths.
R04.7 inventory and per-token acyclicity of the tree builder's non-consuming transfers; R04.8 xml5ever 'phase Main => open
elements non-empty'.
"""
ASSUMPTIONS = ["a contract-abiding sink", "inputs below the 4 GB tendril limit", "no allocation failure"]
CRATES = ("html5ever", "xml5ever", "markup5ever", "markup5ever_rcdom", "tendril")
REF = os.path.join(os.path.dirname(os.path.dirname(os.path.abspath(__file__))), "ref", "panic_sites.json")


def panic_sites(f):
    out = []
    for i, bl in enumerate(f.blocks):
        t = bl["t"]
        if bl.get("cleanup"):
            continue
        if t["k"] == "assert":
            kind = t["msg"]
            out.append((i, "overflow" if kind.startswith("overflow") else kind, None))
        elif t["k"] == "call":
            c = t["f"][1] if t["f"][0] == "fn" else None
            if c is None:
                continue
            p = c["path"]
            if p.startswith("core::panicking::") or (p.startswith("std::rt::") and "panic" in p) or "unwrap_failed" in p or "expect_failed" in p:
                out.append((i, "panic", None))
            elif re.match(r"std::(option::Option|result::Result)::<.*>::(unwrap|expect)$", p):
                msg = None
                if len(t["a"]) > 1 and t["a"][1][0] == "k":
                    msg = t["a"][1][1]
                out.append((i, p.rsplit("::", 1)[-1], msg))
    return out


def inventory(ctx):
    """panic sites per (function, kind).  The sites of a function that the reviewed tree did not have (a helper extracted
    since: its name is not in ref/fn_names.json) are counted in every function that calls it, transitively, instead of under
    its own name, so that moving code into a helper moves no site out of the reviewed inventory and adds none to it."""
    inv = Counter()
    msgs = defaultdict(set)
    known = getattr(ctx.ast, "known", None) or {}
    cg = ctx.mir.callgraph()
    own = {}
    is_new = {}
    for c in CRATES:
        for f in ctx.mir.by_crate[c]:
            if "::test" in f.path or f.path.startswith("bench") or f.d.get("exp"):
                continue
            own[f.id] = panic_sites(f)
    def new_fn(f):
        if f.id not in is_new:
            base = f
            if f.d["kind"] == "Closure":
                par = [g for g in ctx.mir.by_crate[f.crate] if g.path == f.d.get("closure_of")]
                base = par[0] if par else f
            is_new[f.id] = bool(known.get(f.crate)) and base.name not in known[f.crate] and base.d["kind"] != "Closure"
        return is_new[f.id]
    called = set()
    for fid, cs in cg.items():
        for x in cs:
            if not isinstance(x, tuple) and x != fid:
                called.add(x)

    def sites(fid, seen):
        out = list(own.get(fid, []))
        for x in cg.get(fid, ()):
            if isinstance(x, tuple) or x in seen or x not in ctx.mir.fns:
                continue
            g = ctx.mir.fns[x]
            if new_fn(g) and x in own:
                out += sites(x, seen | {x})
        return out

    for c in CRATES:
        for f in ctx.mir.by_crate[c]:
            if f.id not in own:
                continue
            if new_fn(f) and (f.id in called or f.d["kind"] == "Closure"):
                continue  # counted in its callers
            name = f.path
            if f.d["kind"] == "Closure":
                name = f.d.get("closure_of", f.path) + "::{closure}"
            for bb, kind, msg in sites(f.id, {f.id}):
                key = "%s::%s / %s" % (c, name, kind)
                inv[key] += 1
                if msg:
                    msgs[key].add(msg)
    return inv, msgs


def r04_1(ctx):
    inv0, msgs0 = inventory(ctx)
    ref0 = json.load(open(REF))["sites"]
    # a closure's sites belong to the function it is written in: moving a panicking expression into or out of a closure
    # (`match .. { None => panic!() }` <-> `unwrap_or_else(|| panic!())`) adds no way to panic
    # ... and the sites of one function are counted together whatever their kind: `find(..)` + `match { None => panic!() }`,
    # `position(..).expect(..)`, `xs[i]` and `xs.get(i).unwrap()` are the same way to panic, spelled differently
    def fold(k):
        fn, kind = k.replace("::{closure}", "").rsplit(" / ", 1)
        return fn + (" / overflow" if kind == "overflow" else "")
    inv, msgs, ref = Counter(), defaultdict(set), {}
    for k, v in inv0.items():
        inv[fold(k)] += v
        msgs[fold(k)] |= msgs0.get(k, set()) | {k.rsplit(" / ", 1)[1]}
    for k, r in ref0.items():
        if fold(k) in ref:
            ref[fold(k)] = {"count": ref[fold(k)]["count"] + r["count"], "why": ref[fold(k)].get("why", "") + "; " + r.get("why", "")}
        else:
            ref[fold(k)] = dict(r)
    n = 0
    for key in sorted(inv):
        if key.endswith("/ overflow"):
            continue
        n += 1
        r = ref.get(key)
        if r is None:
            ctx.ob("R04.1", "panic-site/" + key, False, "new way to panic: %d site(s) %s in a function that had none in the reviewed inventory" % (inv[key], sorted(msgs.get(key, []))[:3]))
        elif inv[key] > r["count"]:
            ctx.ob("R04.1", "panic-site/" + key, False, "%d explicit panic sites %s, reviewed %d: a new one was added to this function" % (inv[key], sorted(msgs.get(key, []))[:3], r["count"]))
        else:
            ctx.ob("R04.1", "panic-site/" + key, True, "%d site(s); %s" % (inv[key], r.get("why", "reviewed")[:200]))
    ctx.floor("R04.1", "functions-with-panic-sites", n, 100)
    ov = sum(v for k, v in inv.items() if k.endswith("/ overflow"))
    ctx.notes.append("arithmetic-overflow checks (debug builds only, u64 line counters / u32 lengths): %d sites, not part of the inventory" % ov)


def r04_2(ctx):
    cur = nf_common.area_current(ctx, "html_tree_builder")
    n = 0
    for key, v in sorted(cur.items()):
        if v["kind"] != "paths":
            continue
        fname = key.rsplit("::", 1)[-1]
        pcs = nfq.feasible(mc.from_json({key: v["cells"]})[key])
        for pc in pcs:
            names = nfq.names(pc)
            t = nfq.texts(pc)
            enters = [i for i, (a, args) in enumerate(pc["actions"]) if a == "set self.mode" and args and args[0] in ("Text", "InTableText")]
            rep = re.match(r"Reprocess\((Text|InTableText),", str(pc["ret"]))
            if enters or rep:
                n += 1
                idx = enters[0] if enters else len(names)
                saved = any(a == "set self.orig_mode" and str(args[0]).startswith("Some(") for a, args in pc["actions"][:idx])
                ctx.ob("R04.2", "orig_mode-saved-before-text-mode/%s" % fname, saved, "orig_mode := Some(mode) precedes the switch to Text / InTableText" if saved else
                       "the insertion mode becomes Text/InTableText without saving orig_mode: the next orig_mode.take().unwrap() panics", "html5ever tree_builder " + fname)
            for i, (a, args) in enumerate(pc["actions"]):
                if a == "self.template_modes.pop":
                    n += 1
                    ok = any(v2 and g.startswith("self.in_html_elem_named(atom:template)") for g, v2 in pc["guards"].items())
                    repl = any(b == "self.template_modes.push" for b, _ in pc["actions"][i + 1:])
                    ok = ok or repl
                    ctx.ob("R04.2", "template_modes-popped-only-with-open-template/%s" % fname, ok,
                           ("pop-then-push pair (the current template mode is replaced)" if repl else "guarded by in_html_elem_named(template)") if ok else
                           "template_modes is popped on a path that has not established that a template element is open: with a template fragment context the whole stack of open elements can be popped and the next token panics with 'no current element'",
                           "html5ever tree_builder " + fname)
                if a == "self.pop_until_current" and args:
                    n += 1
                    nm = str(args[0])
                    sets = _tagset_members(ctx)
                    mem = sets.get(nm)
                    ok = mem is not None and ("html", "html") in mem
                    ctx.ob("R04.2", "pop_until_current-set-contains-html/%s" % nm, ok, "the loop stops at the root html element at the latest" if ok else "pop_until_current(%s): the set does not contain html, the loop can empty the stack" % nm)
    ctx.floor("R04.2", "invariant-sites", n, 8)
    # orig_mode.take().unwrap() only in modes Text / InTableText
    key, step = nfq.cells(ctx, "html_tree_builder", "rules::TreeBuilder<Handle,Sink>::step")
    bad = None
    k = 0
    for pc in nfq.feasible(step):
        if any("self.orig_mode.take" in x for x in nfq.texts(pc)) or "self.orig_mode.take()" in str(pc["ret"]):
            k += 1
            if not (pc["guards"].get("p1 matches Text") or pc["guards"].get("p1 matches InTableText")):
                bad = [g for g, v in pc["guards"].items() if v and g.startswith("p1")]
    ctx.ob("R04.2", "orig_mode-taken-only-in-text-modes", bad is None and k > 0, "%d paths take orig_mode, all in mode Text / InTableText" % k if bad is None else "orig_mode is taken in %s" % bad)
    # the pending-token assertions of process_to_completion are on Script / ToPlaintext / ToRawData results, which only tag tokens produce
    key, pcs = nfq.cells(ctx, "html_tree_builder", "::process_to_completion")
    res = set()
    for pc in nfq.feasible(pcs):
        for g, v in pc["guards"].items():
            if "more_tokens" in g or "is_empty()" in g and "loop(" in g:
                for g2, v2 in pc["guards"].items():
                    m = re.search(r"matches (Script|ToPlaintext|ToRawData)\(?", g2)
                    if m and v2:
                        res.add(m.group(1))
    key, step = nfq.cells(ctx, "html_tree_builder", "rules::TreeBuilder<Handle,Sink>::step")
    producers_ok = True
    for pc in nfq.feasible(step):
        r = str(pc["ret"])
        if r.startswith("Script(") or r == "ToPlaintext" or r.startswith("ToRawData(") or "self.to_raw_text_mode" in nfq.names(pc) or "self.parse_raw_data" in nfq.names(pc):
            tagtok = any(v and g.startswith("p2 matches Tag(") for g, v in pc["guards"].items())
            if not tagtok:
                producers_ok = False
    ctx.ob("R04.2", "tokenizer-switch-results-only-for-tags", producers_ok, "Script / ToPlaintext / ToRawData are produced only by rules for tag tokens (never while split whitespace tokens are pending)")


_ts_cache = {}


def _tagset_members(ctx):
    if "v" not in _ts_cache:
        from .C02 import tag_set_fns, resolve

        sets = tag_set_fns(ctx)
        _ts_cache["v"] = {k: resolve(sets, k) for k in sets}
    return _ts_cache["v"]


def r04_4(ctx):
    mir = ctx.mir
    cg = mir.callgraph()
    nodes = [f.id for c in CRATES for f in mir.by_crate[c] if "::test" not in f.path]
    idx = {}
    low = {}
    onst = set()
    st = []
    sccs = []
    counter = [0]
    import sys

    sys.setrecursionlimit(20000)

    def succs(v):
        out = []
        for w in cg.get(v, ()):
            if isinstance(w, tuple):
                continue  # unresolved trait call on a generic parameter: nesting depth is fixed by the types, not by the input
            if w in mir.fns:
                out.append(w)
        return out

    def strong(v):
        idx[v] = low[v] = counter[0]
        counter[0] += 1
        st.append(v)
        onst.add(v)
        for w in succs(v):
            if w not in idx:
                strong(w)
                low[v] = min(low[v], low[w])
            elif w in onst:
                low[v] = min(low[v], idx[w])
        if low[v] == idx[v]:
            comp = []
            while True:
                w = st.pop()
                onst.discard(w)
                comp.append(w)
                if w == v:
                    break
            if len(comp) > 1 or v in succs(v):
                sccs.append(comp)

    for v in nodes:
        if v not in idx:
            strong(v)
    REVIEWED = {
        "html5ever/tree-builder-step": ("step", "step_foreign", "foster_parent_in_body", "process_chars_in_table", "unexpected_start_tag_in_foreign_content"),
    }
    n = 0
    for comp in sccs:
        names = sorted({mir.fns[x].name if mir.fns[x].d["kind"] != "Closure" else mir.fns[x].d.get("closure_of", "?").rsplit("::", 1)[-1] for x in comp})
        crate = mir.fns[comp[0]].crate
        n += 1
        key = "%s/%s" % (crate, "+".join(names))
        ok = crate == "html5ever" and set(names) <= set(REVIEWED["html5ever/tree-builder-step"]) | {"step"}
        why = "delegation between insertion modes: depth bounded by the number of modes, not by the input"
        if crate == "tendril" and set(names) <= {"fmt", "write_str", "write_fmt"}:
            ok, why = True, "formatting plumbing"
        ctx.ob("R04.4", "recursion/" + key, ok, why if ok else "call-graph cycle %s: recursion whose depth may follow the input (stack overflow on deep documents)" % names, mir.fns[comp[0]].where())
    ctx.floor("R04.4", "call-graph-cycles", n, 1)


def r04_5(ctx):
    for which, sus in (("html", "Suspend"), ("xml", "Done")):
        T = ctx.tables(which)
        tr.eat_drains_queue(ctx, "R04.5", which)
        run = T["helpers"].get("run") or []
        done = [pc for pc in run if pc["ret"] in ("Done",)]
        ok = bool(done) and all(any(v and ("matches %s" % sus) in g for g, v in pc["guards"].items()) for pc in done)
        ctx.ob("R04.5", "run-answers-Done-only-after-suspension/%s" % which, ok, "run() returns Done only when step() reported %s" % sus)
        end = T["helpers"].get("end") or []
        ok = all(any(a in ("eof_step", "emit_eof") or "eof_step" in a for a, _ in pc["actions"]) or "panic!" in [a for a, _ in pc["actions"]] for pc in end) and bool(end)
        ctx.ob("R04.5", "end-runs-eof_step/%s" % which, ok, "end() drives eof_step until it stops")
    # the suspending paths of step are exactly the None answers of the acquisition primitives (R03.1 / R15.5 give 'no effect before')
    for which in ("html", "xml"):
        T = ctx.tables(which)
        bad = []
        for st, cells in T["raw"]["step"].items():
            for c in cells or []:
                if c["outcome"] == "return" and c["value"] == tr.SUSPEND[which]:
                    acq = [(l, ch) for k, l, ch in c["choices"] if k == "acq"]
                    if not acq or acq[-1][1] != "None":
                        bad.append(st)
        ctx.ob("R04.5", "suspend-only-on-empty-acquisition/%s" % which, not bad, "every suspending path ends in an acquisition primitive answering None" if not bad else "states %s suspend although input may be available" % sorted(set(bad))[:5])


def r04_7(ctx):
    """tree-builder transfers that do not consume the token (Reprocess / ReprocessForeign results and self.step delegations):
    reviewed inventory + no cycle for any single token through transfers that leave the stack of open elements alone"""
    from lib import dispatchcmp as dc
    TBA = "html_tree_builder"
    cur = nf_common.area_current(ctx, TBA)
    inv = set()
    step_cells = None
    for k, v in cur.items():
        if v["kind"] != "paths":
            if v["kind"] == "tree" and "Reprocess" in v.get("text", ""):
                inv.add((k.split("::")[-1], "-", "Reprocess", "?"))
            continue
        fn = k.split("::")[-1]
        is_step = k.endswith("rules::TreeBuilder<Handle,Sink>::step")
        if is_step:
            step_cells = v["cells"]
        for c in v["cells"]:
            r = str(c["ret"])
            modes = [g[len("p1 matches "):] for g, b in c["guards"].items() if b and g.startswith("p1 matches ")]
            mode = modes[0] if (modes and is_step) else "-"
            m = re.match(r"(Reprocess(?:Foreign)?)\((.*)\)$", r)
            if m:
                inv.add((fn, mode, m.group(1), m.group(2).split(",")[0] if m.group(1) == "Reprocess" else "foreign"))
            for a in c["actions"]:
                if a[0] in ("self.step", "self.step_foreign"):
                    inv.add((fn, mode, a[0], str(a[1][0]) if a[1] else ""))
    ref = {tuple(x) for x in json.load(open(os.path.join(os.path.dirname(REF), "reprocess_sites.json")))["sites"]}
    for e in sorted(inv):
        ok = e in ref
        ctx.ob("R04.7", "non-consuming-transfer/%s/%s/%s->%s" % e, ok, "reviewed" if ok else
               "a new way to hand the same token on without consuming it (%s in mode %s: %s to %s): termination of process_to_completion must be re-reviewed" % e, "html5ever tree_builder " + e[0])
    ctx.floor("R04.7", "transfers", len(inv), 55)
    if step_cells is None:
        raise AnchorMissing("TreeBuilder::step has no path normal form")
    _ht = {}

    def helper_transfers(h):
        """modes a helper of the tree builder hands its token argument on to (Reprocess(mode, p1)) on a path that pops nothing"""
        if h not in _ht:
            out = []
            try:
                _, hp = nfq.cells(ctx, "html_tree_builder", "TreeBuilder<Handle,Sink>::" + h)
                for pc in nfq.feasible(hp):
                    m2 = re.match(r"Reprocess\((.*?),p1\)$", str(pc["ret"]))
                    if m2 and not any(str(a[0]).startswith(POPS) for a in pc["actions"]):
                        out.append(m2.group(1))
            except Exception:  # noqa
                pass
            _ht[h] = out
        return _ht[h]

    POPS = ("self.pop", "self.pop_until", "self.pop_until_named", "self.pop_until_current", "self.expect_to_close", "self.remove_from_stack", "self.close_the_cell", "self.generate_implied_end")
    # per-token graph
    modes = set()
    for c in step_cells:
        for g in c["guards"]:
            if g.startswith("p1 matches "):
                modes.update(a.strip() for a in g[len("p1 matches "):].split("|"))
    universe = dc.names_in(step_cells) | {dc.FRESH}
    toks = [("StartTag", n) for n in sorted(universe)] + [("EndTag", n) for n in sorted(universe)] + [(k, "") for k in dc.NON_TAG_KINDS]
    POPS = ("self.pop", "self.pop_until", "self.pop_until_named", "self.pop_until_current", "self.expect_to_close", "self.remove_from_stack", "self.close_the_cell", "self.generate_implied_end")
    n = 0
    for kind, name in toks:
        edges = defaultdict(set)
        for c in step_cells:
            ms = None
            ok = True
            for g, v in c["guards"].items():
                if g.startswith("p1 matches "):
                    if v:
                        ms = [a.strip() for a in g[len("p1 matches "):].split("|")]
                    continue
                d = dc.decide(g, None, kind, name)
                if d is not None and d != v:
                    ok = False
                    break
            if not ok or not ms:
                continue
            acts = [a[0] for a in c["actions"]]
            shrinking = any(a.startswith(POPS) for a in acts)
            targets = []
            m = re.match(r"Reprocess\((.*?),p2\)$", str(c["ret"]))
            if m:
                targets.append(m.group(1))
            for a in c["actions"]:
                if a[0] == "self.step" and len(a[1]) == 2 and str(a[1][1]) == "p2":
                    targets.append(str(a[1][0]))
            # the row's answer may be a helper's: `self.process_chars_in_table(token)` answers Reprocess(InTableText, token)
            hm = re.match(r"self\.(\w+)\(p2\)$", str(c["ret"]))
            if hm:
                targets += helper_transfers(hm.group(1))
            for t in targets:
                if shrinking:
                    continue
                if t in modes:
                    tg = [t]
                elif "orig_mode" in t:
                    tg = [x for x in modes if x not in ("Text", "InTableText")]
                else:
                    tg = list(modes)
                for src in ms:
                    edges[src].update(tg)
        n += 1
        # cycle search
        color = {}
        cyc = None

        def dfs(u, path):
            nonlocal cyc
            color[u] = 1
            for w in sorted(edges.get(u, ())):
                if cyc:
                    return
                if color.get(w) == 1:
                    cyc = path[path.index(w):] + [w] if w in path else [u, w]
                    return
                if w not in color:
                    dfs(w, path + [w])
            color[u] = 2

        for u in sorted(edges):
            if u not in color and not cyc:
                dfs(u, [u])
        tokname = ("<%s%s>" % ("/" if kind == "EndTag" else "", name)) if name else kind
        if cyc:
            ctx.ob("R04.7", "transfer-cycle/%s" % tokname, False, "the token %s can be handed round %s without being consumed and without the stack of open elements shrinking" % (tokname, " -> ".join(cyc)), "html5ever tree_builder rules.rs step")
    ctx.ob("R04.7", "no-transfer-cycle", True, "%d token classes x %d modes: the graph of non-consuming, non-popping transfers is acyclic" % (n, len(modes)))
    ctx.floor("R04.7", "token-classes", n, 200)


def r04_8(ctx):
    """XML tree builder: 'in phase Main the stack of open elements is not empty' (what current_node()'s expect relies on) is
    preserved: Start enters Main together with a push; every Main path that pops more than it pushed re-tests no_open_elems()
    after its last pop and leaves Main when it holds"""
    key, pcs = nfq.cells(ctx, "xml_tree_builder", "XmlTreeBuilder<Handle,Sink>::step")
    n = 0
    POP = ("self.close_tag", "self.pop")
    PUSH = ("self.insert_tag", "self.add_to_open_elems")
    for pc in nfq.feasible(pcs):
        g = pc["guards"]
        acts = [(a, [str(x) for x in args]) for a, args in pc["actions"]]
        names = [a for a, _ in acts]
        if g.get("p1 matches Start") is True:
            if any(a == "set self.phase" and args == ["Main"] for a, args in acts):
                n += 1
                ok = any(a in PUSH for a in names)
                ctx.ob("R04.8", "enters-main-with-an-open-element", ok, "Start switches to Main on the path that pushes the root element" if ok else "Start switches to Main without pushing an element: current_node() panics on the next token", "xml5ever tree_builder step Start")
            continue
        if g.get("p1 matches Main") is not True:
            continue
        pops = [i for i, a in enumerate(names) if a in POP]
        pushes = [i for i, a in enumerate(names) if a in PUSH]
        if not pops or len(pushes) >= len(pops):
            continue
        n += 1
        tests = [i for i, a in enumerate(names) if a == "self.no_open_elems"]
        tested = bool(tests) and tests[-1] > pops[-1] and "self.no_open_elems()" in g
        ends = any(a == "set self.phase" and args == ["End"] and i > pops[-1] for i, (a, args) in enumerate(acts))
        ok = tested and (ends if g.get("self.no_open_elems()") else True)
        kind = next((k.split("kind:")[1].split(",")[0].rstrip("})") for k, v in g.items() if v and "p2 matches Tag(" in k), "?")
        ctx.ob("R04.8", "main-pop-retests-empty-stack/%s/%s" % (kind, "script" if any(v and "atom:script" in k for k, v in g.items()) else "other"), ok,
               "after the last pop no_open_elems() is tested and Main is left when it holds" if ok else
               "a path of phase Main pops an element and returns without testing whether the stack became empty: the next token finds phase Main with no current element (expect panics)",
               "xml5ever tree_builder step Main")
    ctx.floor("R04.8", "xml-main-invariant-paths", n, 6)


def run(ctx):
    ctx.rule("R04.8", "xml5ever: phase Main implies a non-empty stack of open elements (entered with a push; every net pop re-tests no_open_elems and leaves Main)")
    ctx.guard("R04.8", "xml-main", lambda: r04_8(ctx))
    ctx.rule("R04.10", "= R02.10 'reset the insertion mode appropriately': with a head (td, th) context element - the last node - the mode is 'in body', not 'in head' ('in cell'), whose 'anything else' rule pops the root element and leaves nothing to insert into")
    from .C02 import r02_10
    ctx.guard("R04.10", "reset-mode", lambda: ctx.under("R04.10", lambda: r02_10(ctx)))
    ctx.rule("R04.7", "tree-builder transfers that do not consume the token: reviewed inventory; per token class, no cycle of transfers that leave the stack alone")
    ctx.guard("R04.7", "transfers", lambda: r04_7(ctx))
    ctx.rule("R04.1", "per function and kind, the explicit panic sites (panic/unwrap/expect/assert/bounds) are within the reviewed inventory")
    ctx.rule("R04.2", "orig_mode saved before Text/InTableText; template_modes popped only under an open template; pop_until_current sets contain html; tokenizer-switching results only for tag tokens")
    ctx.rule("R04.3", "no cycle of non-consuming transitions in the HTML and XML tokenizers; eof_step acyclic ending in one EOF leaf; char-ref Progress consumes or advances")
    ctx.rule("R04.4", "call-graph cycles are the reviewed ones (tree-builder mode delegation)")
    ctx.rule("R04.5", "eat() drains the queue when it needs more; run() answers Done only after a suspension; suspension only on an empty acquisition; end() drives eof_step")
    ctx.rule("R04.6", "normal forms of the drivers and of the tokenizers' feed/run/end equal the reviewed reference")
    ctx.guard("R04.1", "inventory", lambda: r04_1(ctx))
    ctx.guard("R04.2", "invariants", lambda: r04_2(ctx))
    ctx.guard("R04.3", "graph/html", lambda: tr.progress_graph(ctx, "R04.3", "html"))
    ctx.guard("R04.3", "graph/xml", lambda: tr.progress_graph(ctx, "R04.3", "xml"))
    ctx.guard("R04.4", "recursion", lambda: r04_4(ctx))
    def foreign_end_tag_keeps_the_root():
        """step_foreign, any other end tag: the walk down the stack stops at the bottom element before it compares names, so the
        stack of open elements is never truncated to nothing (the next insertion would find no current node)"""
        key, pcs = nfq.cells(ctx, "html_tree_builder", "::step_foreign")
        k = 0
        bad = None
        for pc in nfq.feasible(pcs):
            for a, args in pc["actions"]:
                if a == "self.open_elems.truncate":
                    k += 1
                    idx = str(args[0])
                    nonzero = any((not v) and g.split("#")[0] == "%s matches 0" % idx for g, v in pc["guards"].items()) or any(v and g.split("#")[0] == "(0 < %s)" % idx for g, v in pc["guards"].items())
                    if not nonzero and idx == "item":
                        # the index is the item of `for i in (N..=last).rev()` / `(N..len).rev()`: non-zero when N >= 1
                        begins = [re.match(r"loop-begin for _ in \(?(\d+)\.\.", b) for b, _ in pc["actions"][:pc["actions"].index((a, args)) if (a, args) in pc["actions"] else None]]
                        begins = [m for m in begins if m]
                        nonzero = bool(begins) and int(begins[-1].group(1)) >= 1
                    if not nonzero:
                        bad = "step_foreign truncates the stack of open elements at index %s without having excluded index 0: an end tag naming the root (</html> in an SVG / MathML fragment) empties the stack" % idx[:50]
        ctx.ob("R04.2", "foreign-end-tag-never-empties-the-stack", bad is None and k >= 1, bad or "%d truncations, each at an index known to be non-zero" % k, "html5ever tree_builder step_foreign")

    ctx.guard("R04.2", "foreign-root", foreign_end_tag_keeps_the_root)
    ctx.rule("R04.9", "the meta charset scanner indexes its input only at offsets found in that input (never in a re-sized copy): the unchecked slices cannot be out of range")
    from .C19 import r19_6
    ctx.guard("R04.9", "meta-offsets", lambda: r19_6(ctx, "R04.9"))

    def name_buf_typestate():
        """character-reference sub-tokenizers: un-consuming the name takes name_buf out of its Option; nothing that reads the
        buffer (the name error message, name_buf()) may follow on the same path - it would hit the `expect`"""
        n = 0
        for which in ("html", "xml"):
            T = ctx.tables(which)
            bad = None
            for fn, pcs in T["charref"].items():
                for pc in pcs:
                    names = [a for a, _ in pc["actions"]]
                    if "unconsume_name" in names:
                        n += 1
                        i = names.index("unconsume_name")
                        later = [a for a in names[i + 1:] if a in ("emit_name_error", "finish_named", "unconsume_name") or "name_buf" in a]
                        if later:
                            bad = "%s: %s after unconsume_name, which has taken the name buffer" % (fn, later[0])
            ctx.ob("R04.2", "name-buffer-not-used-after-unconsume/%s" % which, bad is None, bad or "nothing reads the name buffer after it was un-consumed", "%s char_ref" % which)
        ctx.floor("R04.2", "unconsume-name-paths", n, 4)

    ctx.guard("R04.2", "name-buf", name_buf_typestate)
    ctx.guard("R04.5", "consumed", lambda: r04_5(ctx))
    for which in ("html", "xml"):
        ctx.guard("R04.5", "end-queue/" + which, lambda which=which: tr.end_uses_one_queue(ctx, "R04.5", which))
        ctx.guard("R04.5", "end-runs/" + which, lambda which=which: tr.end_runs_before_eof(ctx, "R04.5", which))
    # the expect() at the end of finish_numeric is unreachable because every value that is not a scalar value was replaced
    # before: decided by the exhaustive value table of R14.4 (an outcome `None.expect(..)` for some number is a panic)
    ctx.rule("R04.8", "finish_numeric (HTML and XML) maps every 32-bit number and overflow flag to a character: its final expect() is never reached with None")
    from .C14 import r14_4
    for which in ("html", "xml"):
        ctx.guard("R04.8", "numeric/" + which, lambda which=which: r14_4(ctx, which, rule="R04.8"))
    ctx.guard("R04.6", "nf-html-driver", lambda: nf_common.nf_rule(ctx, "R04.6", "html_driver", only=("driver::",)))
    ctx.guard("R04.6", "nf-xml-driver", lambda: nf_common.nf_rule(ctx, "R04.6", "xml_driver", only=("driver::",)))

    def toks():
        for which in ("html", "xml"):
            T = ctx.tables(which)
            R = ctx.ref(which + "_tokenizer.json")
            h = mc.from_json(R["helpers"])
            for fn in ("feed", "run", "end", "eat", "process_char_ref", "step_char_ref_tokenizer"):
                diffs = []
                mc.compare_projected({fn: h.get(fn)}, {fn: T["helpers"].get(fn)}, lambda k, st, d: diffs.append((k, d)))
                if diffs:
                    ctx.advise("R04.6", "tokenizer/%s/fn=%s/%s" % (which, fn, diffs[0][0]), diffs[0][1][:400])
                else:
                    ctx.ob("R04.6", "tokenizer/%s/fn=%s" % (which, fn), True, "equals the reference")

    ctx.guard("R04.6", "nf-tokenizers", toks)
