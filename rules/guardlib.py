"""Reading the guards of a flattened path independently of how the source spells a condition.

The flattener writes every condition in one canonical spelling (lib/flat.canon_cond: `==` and `<` only, no leading `!`,
Option / Result tests as `X matches Some(_)` / `X matches Ok(_)`), so `a >= b`, `!(a < b)` and an early return on `a < b`
give the same guard.  Rules ask through these helpers with whatever spelling is natural."""
from lib.flat import canon_cond, _split_top_cmp


def gval(guards, label):
    """truth value of the condition `label` (any spelling) on this path, None when the path does not decide it"""
    lab, neg = canon_cond(label)
    if lab in guards:
        return guards[lab] != neg
    return None


def comparisons(guards):
    """(lhs, op, rhs, value, label) for every guard that is a comparison (op is '==' or '<' in canonical labels)"""
    for g, v in guards.items():
        c = _split_top_cmp(g)
        if c:
            yield c[0], c[1], c[2], v, g


def lt_true(guards, small=None, big=None):
    """labels of guards establishing `small < big` (either side may be None = any; substring match otherwise)"""
    out = []
    for a, op, b, v, g in comparisons(guards):
        if op == "<" and v and (small is None or small in a) and (big is None or big in b):
            out.append(g)
    return out


def ge_true(guards, big=None, small=None):
    """labels of guards establishing `big >= small`, i.e. `big < small` is false"""
    out = []
    for a, op, b, v, g in comparisons(guards):
        if op == "<" and not v and (big is None or big in a) and (small is None or small in b):
            out.append(g)
    return out
