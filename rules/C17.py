"""C17 — XML serializer output re-parses to the same namespaced tree (DESIGN 4.C17)."""
import html.entities
import re

from lib.ast import walk
from lib.flat import show
from lib.mir import AnchorMissing
from . import nf_common, nfq
from .guardlib import gval, comparisons, lt_true, ge_true

MANIFEST = {
    "text": 'Ordering, who-may-call and table rules on XmlSerializer: every namespace registration happens before the xmlns declarations of the element are written and only in start_elem (declare-before-use), everything written between \'="\' and \'"\' goes through the attribute escaper, the escape table covers what the XML tokenizer rewrites or interprets (&, <, quotes, CR) and is reversible, scopes are pushed/popped once per element; plus equality of every serializer function with its reviewed normal form. An unprefixed element in no namespace un-declares an inherited default namespace (R17.6: found violated, fixed as F23); a whole-text shortcut in the escaper must test every escaped character (R17.3).',
    "note": 'Decides R17.1-R17.6 (necessary conditions). Not decided: the re-parse. Also decided: the innermost binding of a prefix decides in find_uri; NamespaceMap::insert always records a binding (R17.7). Round 6: attribute-name start characters agree between tokenizer states (R17.10; known finding K2, ’:’ after a value-less attribute), ’&amp;=’ decoded in XML attribute values (R17.11), comments / PIs / doctype names written verbatim (R17.12). Round 7: rcdom child walk (R17.13 = R07.13), PI target state consumes white space only (R17.14). Round 8: R17.15 = R16.10 (a declaration the tree builder rejects must not survive as an attribute). R17.16: the layout of start / end tags and qualified names.',
    "technique": 'must-precede / who-may-call rules over function normal forms + escape-table check',
}
LEVEL = "other"
EXPLANATION = """
R17.1 in start_elem no call that can register a namespace follows the loop that writes the xmlns declarations;
R17.2 NamespaceMap::insert is reachable only from start_elem; R17.3 escape table (text: & <; attributes: & " ; both:
CR) reversible, and every attribute-context write is escaped (including namespace URIs); R17.4 one scope push per
start_elem and one pop per end_elem; R17.5 reviewed normal forms of xml5ever::serialize.
R17.6 un-declaration of an inherited default namespace; R17.3 also guards of whole-text shortcuts.
"""
ASSUMPTIONS = ["NamespaceMap::insert/get behave as their names say (NF-reviewed under C16)"]
AREA = "xml_serialize"


def may_insert(ctx):
    """functions of the serializer that can (transitively) call NamespaceMap::insert"""
    cur = nf_common.area_current(ctx, AREA)
    direct = set()
    calls = {}
    for key, v in cur.items():
        if v["kind"] != "paths":
            continue
        name = key.rsplit("::", 1)[-1]
        callees = set()
        for row in v["cells"]:
            for a, args in row["actions"]:
                if a.endswith(".insert") or a.endswith("insert"):
                    if "last_mut" in a or "namespace" in a or "last_ns" in a or a.startswith("self.namespace_stack"):
                        direct.add(name)
                m = re.match(r"^(?:self\.|call )(\w+)$", a)
                if m:
                    callees.add(m.group(1))
        calls[name] = callees
    if not direct:
        raise AnchorMissing("no function of xml5ever::serialize inserts into a NamespaceMap")
    res = set(direct)
    changed = True
    while changed:
        changed = False
        for f, cs in calls.items():
            if f not in res and cs & res:
                res.add(f)
                changed = True
    return res


def r17_1_2(ctx):
    ins = may_insert(ctx)
    key, pcs = nfq.cells(ctx, AREA, "[Serializer]::start_elem")
    bad = None
    n = 0
    for pc in nfq.feasible(pcs):
        names = nfq.names(pc)
        decl = [i for i, a in enumerate(names) if a.startswith("loop-begin") and "get_scope_iter" in a]
        if not decl:
            continue
        n += 1
        d = decl[0]
        late = [a for a in names[d + 1:] if re.sub(r"^(self\.|call )", "", a) in ins]
        if late:
            bad = late
    ctx.floor("R17.1", "start_elem-paths-with-declarations", n, 1)
    ctx.ob("R17.1", "declare-before-use/start_elem", bad is None,
           "%s can register a namespace after the element's xmlns declarations were written: a prefix used only by an attribute is never declared (<a xmlns:p=\"u\" p:x=\"1\"/> is written as <a p:x=\"1\">)" % sorted(set(bad))
           if bad else "all namespace registration precedes the declaration loop", "xml5ever serialize start_elem")
    cur = nf_common.area_current(ctx, AREA)
    for key, v in cur.items():
        name = key.rsplit("::", 1)[-1]
        if "[Serializer]" not in key or name == "start_elem" or v["kind"] != "paths":
            continue
        used = set()
        for row in v["cells"]:
            for a, args in row["actions"]:
                b = re.sub(r"^(self\.|call )", "", a)
                if b in ins:
                    used.add(b)
        ctx.ob("R17.2", "registers-namespace-outside-start_elem/" + name, not used,
               "%s calls %s, which can insert a binding into the map that is current *after* the element's scope was popped: the binding lands in the parent's scope without ever being written, and a later sibling using the same prefix loses its declaration" % (name, sorted(used))
               if used else "does not register namespaces", "xml5ever serialize " + name)


def r17_3(ctx):
    its = [it for it in ctx.ast.walkable("xml5ever") if it["k"] == "Fn" and it["name"] == "write_to_buf_escaped" and it.get("body") is not None]
    if len(its) != 1:
        raise AnchorMissing("write_to_buf_escaped")
    arms = []

    def f(n):
        if n.get("k") == "Match":
            arms.extend(n["arms"])

    walk(its[0]["body"], f)
    table = {}  # char -> (mode, replacement)
    for a in arms:
        if a["pat"]["k"] != "PLit":
            continue
        c = a["pat"]["lit"]["v"]
        g = show(a["guard"]) if a.get("guard") else None
        mode = "both" if g is None else ("attr" if g == "attr_mode" else "text" if g == "!attr_mode" else g)
        rep = None

        def h(n):
            nonlocal rep
            if n.get("k") == "Lit" and n.get("t") == "bytes":
                rep = bytes(n["v"]).decode()

        walk(a["body"], h)
        table.setdefault(c, []).append((mode, rep))
    ents = html.entities.html5

    def covered(c, mode):
        return any(m in (mode, "both") for m, _ in table.get(c, []))

    for c, mode in (("&", "text"), ("<", "text"), ("&", "attr"), ('"', "attr"), ("\r", "text"), ("\r", "attr")):
        why = "the XML tokenizer folds a literal CR into LF, so a CR in the tree (from &#13;) must be written as a character reference" if c == "\r" else "would end or corrupt its context"
        ctx.ob("R17.3", "escaped/%s/%r" % (mode, c), covered(c, mode), ("%r is escaped in %s context" if covered(c, mode) else "%r is written raw in %s context: " + why) % (c, mode), "xml5ever serialize write_to_buf_escaped")
    for c, lst in table.items():
        for mode, rep in lst:
            ok = rep is not None and rep.startswith("&") and rep.endswith(";") and (ents.get(rep[1:]) == c or (rep.startswith("&#") and chr(int(rep[2:-1])) == c))
            ctx.ob("R17.3", "reversible/%r" % c, ok, "%r -> %r resolves back through the tokenizer's entity table / numeric reference" % (c, rep))
    # a shortcut around the table (a path that writes the whole text at once) must be guarded by the absence of every character
    # the table escapes; a shortcut whose guard cannot be read is left to the reference comparison (R17.5)
    key, wpcs = nfq.cells(ctx, AREA, "::write_to_buf_escaped")
    need = {c for c in table}
    k = 0
    for pc in nfq.feasible(wpcs):
        inloop = False
        for a, args in pc["actions"]:
            if a.startswith("loop-begin") and "p2.chars()" in a:
                inloop = True
            if (".write_" in a or a.endswith(".write")) and (not inloop) and any("p2" in str(x) for x in args):
                k += 1
                gtxt = " ".join(pc["guards"])
                lits = set(re.findall(r"'(\\.|[^'\\])'", gtxt))
                lits = {bytes(x, "utf-8").decode("unicode_escape") if x.startswith("\\") else x for x in lits}
                if not lits:
                    continue
                missing = sorted(need - lits)
                ctx.ob("R17.3", "whole-text-shortcut-tests-every-escaped-character", not missing,
                       "the shortcut is taken only when none of %s occurs" % sorted(need) if not missing else
                       "write_to_buf_escaped writes the whole text unescaped when none of %s occurs, but the table also escapes %s" % (sorted(lits), missing), "xml5ever serialize write_to_buf_escaped")
    # which value of the mode parameter makes write_to_buf_escaped escape the double quote: read from its own normal form
    key, epcs = nfq.cells(ctx, AREA, "serialize::write_to_buf_escaped")
    attr_arg = set()
    for pc in nfq.feasible(epcs):
        if any(x.endswith(".write_all([38, 113, 117, 111, 116, 59])") for x in nfq.texts(pc)):  # writes &quot;
            for g, v in pc["guards"].items():
                m = re.fullmatch(r"p3( matches (\w+))?(#\d+)?", g)
                if m:
                    attr_arg.add((m.group(2) or ("true" if v else "false")) if (v or not m.group(2)) else "not " + m.group(2))
    if len(attr_arg) != 1:
        raise AnchorMissing("write_to_buf_escaped: the mode under which '\"' is escaped is not a single value of its third parameter (%s)" % sorted(attr_arg))
    attr_arg = next(iter(attr_arg))
    # everything written inside a quoted attribute-like context is escaped
    key, pcs = nfq.cells(ctx, AREA, "[Serializer]::start_elem")
    bad = None
    n = 0
    for pc in nfq.feasible(pcs):
        t = nfq.texts(pc)
        inq = False
        for x in t:
            if x == "self.writer.write_all([61, 34])":
                inq = True
                n += 1
                continue
            if x == "self.writer.write_all([34])":
                inq = False
                continue
            if inq and x.startswith("self.writer.write_all("):
                bad = x
            if inq and x.startswith("call write_to_buf_escaped(") and not x.endswith(",%s)" % attr_arg):
                bad = x
    ctx.floor("R17.3", "quoted-contexts", n, 2)
    ctx.ob("R17.3", "quoted-context-always-escaped", bad is None,
           "between '=\"' and '\"' the serializer writes %s without escaping: a namespace URI containing '\"' or '&' breaks the attribute" % bad if bad else "every write between '=\"' and '\"' is write_to_buf_escaped(_, true)", "xml5ever serialize start_elem")


def r17_4(ctx):
    key, pcs = nfq.cells(ctx, AREA, "[Serializer]::start_elem")
    ok = all(nfq.names(pc).count("self.namespace_stack.push") == 1 for pc in nfq.feasible(pcs))
    ctx.ob("R17.4", "start_elem-pushes-one-scope", ok, "every path pushes exactly one NamespaceMap")
    key, pcs = nfq.cells(ctx, AREA, "[Serializer]::end_elem")
    ok = all(nfq.names(pc).count("self.namespace_stack.pop") == 1 for pc in nfq.feasible(pcs))
    ctx.ob("R17.4", "end_elem-pops-one-scope", ok, "every path pops exactly one NamespaceMap")


def r17_6(ctx):
    """an unprefixed element in no namespace un-declares an inherited default namespace (xmlns="")"""
    key, se = nfq.cells(ctx, AREA, "[Serializer]::start_elem")
    callee = None
    for pc in nfq.feasible(se):
        for a, args in pc["actions"]:
            if a.startswith("self.") and [str(x) for x in args] == ["p1"] and a not in ("self.namespace_stack.push",):
                callee = a[len("self."):]
        if callee:
            break
    if callee is None:
        raise AnchorMissing("start_elem: the call that writes the element name (self.<f>(name)) was not found")
    key, pcs = nfq.cells(ctx, AREA, "XmlSerializer<Wr>::" + callee)
    undeclares = False
    for pc in nfq.feasible(pcs):
        g = pc["guards"]
        unpref = gval(g, "p1.prefix matches Some(_)") is False
        nons = g.get("p1.ns.is_empty()") is True
        if unpref and nons and any(a.endswith(".insert") and [str(x) for x in args] == ["p1"] for a, args in pc["actions"]):
            undeclares = True
    ctx.ob("R17.6", "no-namespace-element-undeclares-inherited-default", undeclares,
           "%s registers the empty default binding for an unprefixed element in no namespace when a non-empty default namespace is inherited" % callee if undeclares else
           "%s never registers a binding for an unprefixed element in no namespace: under an ancestor's default namespace it is written without xmlns=\"\" and re-parses into that namespace" % callee,
           "xml5ever serialize " + callee)
    # the inherited default is the innermost binding of the empty prefix
    dn = [k for k in nf_common.area_current(ctx, AREA) if "default_namespace" in k]
    ok = False
    if len(dn) == 1:
        key, pcs = nfq.cells(ctx, AREA, dn[0], exact=True)
        pcs = nfq.feasible(pcs)
        def found(pc):
            return any("get(None) matches Some(Some(_))" in k and v for k, v in pc["guards"].items()) and any(a[0].startswith("loop-begin") and "rev()" in a[0] for a in pc["actions"])

        def empty(pc):
            vs = [v for k, v in pc["guards"].items() if k.endswith(".is_empty()")]
            return vs[0] if len(vs) == 1 else None

        hits = [pc for pc in pcs if found(pc)]
        t = bool(hits) and all(empty(pc) is not None and str(pc["ret"]) == ("false" if empty(pc) else "true") for pc in hits)
        f = any(str(pc["ret"]) == "false" and any(a[0].startswith("loop-end") for a in pc["actions"]) for pc in pcs)
        ok = t and f
    ctx.ob("R17.6", "inherited-default-is-innermost-binding", ok, "scopes are searched innermost first; the first binding of the empty prefix decides; none = no default namespace")


def r17_7(ctx):
    """(a) `find_uri(name)`: the innermost scope that binds the prefix decides - the walk stops there whether or not the binding
    equals the name's namespace (a shadowed outer binding of the same prefix is NOT in force);
    (b) NamespaceMap::insert(name) records the name's namespace as a binding, `Some(ns)`, whatever it is - `None` is the
    representation of an un-binding and would make the prefix look undeclared to find_uri"""
    key, pcs = nfq.cells(ctx, AREA, "XmlSerializer<Wr>::find_uri")
    fe = nfq.feasible(pcs)
    bad = None
    hit = 0
    for pc in fe:
        bound = [v for g, v in pc["guards"].items() if re.fullmatch(r"item\.get\(p1\.prefix\) matches Some\(Some\(_\)\)(#\d+)?", g)]
        t = nfq.texts(pc)
        if not any(x.startswith("loop-begin") and "rev()" in x for x in t):
            bad = "find_uri is not a walk over the scopes, innermost first, that can stop: %s" % t[:2]
            continue
        if bound == [True]:
            hit += 1
            eq = [v for g, v in pc["guards"].items() if "== p1.ns)" in g or g.endswith("matches p1.ns")]
            if not any(x.startswith("loop-end(break") for x in t):
                bad = "the walk goes on past a scope that binds the prefix: an outer binding that an inner scope has shadowed is taken to be in force"
            elif len(eq) != 1 or str(pc["ret"]) != ("true" if eq[0] else "false"):
                bad = "at the innermost binding the answer is %s, not whether that binding equals the name's namespace" % pc["ret"]
        elif bound == [False]:
            if not any(x.startswith("loop-end(end") for x in t) or str(pc["ret"]) != "false":
                bad = "a scope without a binding for the prefix does not simply pass the question outwards"
    ctx.ob("R17.7", "find_uri-innermost-binding-decides", bad is None and hit >= 2, bad or "the walk breaks at the first scope with a binding; the answer is the comparison made there", "xml5ever serialize find_uri")
    key, pcs = nfq.cells(ctx, "xml_tree_builder", "NamespaceMap::insert")
    bad = None
    k = 0
    for pc in nfq.feasible(pcs):
        ins = [args for a, args in pc["actions"] if a == "self.scope.insert"]
        k += len(ins)
        if len(ins) != 1 or not str(ins[0][1]).startswith("Some(") or "p1.ns" not in str(ins[0][1]):
            bad = "NamespaceMap::insert stores %s for the name's namespace on a path (%s): not always the binding Some(ns)" % ([str(x)[:40] for x in ins[0]] if ins else "nothing", list(pc["guards"])[:2])
    ctx.ob("R17.7", "namespace-map-insert-records-a-binding", bad is None and k >= 1, bad or "insert(name) stores Some(name.ns) under name.prefix on every path", "xml5ever tree_builder NamespaceMap::insert")


def r17_8(ctx):
    """find_or_insert_ns(name): a name that has a prefix or a namespace and whose binding is not in force (find_uri false) gets a
    binding registered in the innermost scope - whatever the prefix or the namespace is; the only names for which nothing is
    registered are those with neither prefix nor namespace and those already bound"""
    key, pcs = nfq.cells(ctx, AREA, "::find_or_insert_ns")
    bad = None
    k = 0
    for pc in nfq.feasible(pcs):
        g = pc["guards"]
        names = nfq.names(pc)
        inserted = any(a.endswith(".insert") for a in names)
        pref = gval(g, "p1.prefix matches Some(_)")
        nons = gval(g, "p1.ns.is_empty()")
        bound = [v for x, v in g.items() if re.fullmatch(r"self\.find_uri\(p1\)(#\d+)?", x)]
        other = [x for x in g if not re.fullmatch(r"(p1\.prefix matches Some\(_\)|p1\.ns\.is_empty\(\)|self\.find_uri\(p1\)|self\.namespace_stack\.0\.last_mut\(\) matches Some\(_\))(#\d+)?", x)]
        if other:
            bad = "whether a binding is registered depends on %s: a name in that case is written with a prefix (or in a namespace) that no xmlns attribute declares" % [x[:60] for x in other][:2]
            continue
        needs = (pref is True or nons is False) and bound == [False]
        k += 1
        has_scope = not any((not v) and "last_mut() matches Some" in x for x, v in g.items())
        if needs and has_scope and not inserted:
            bad = "a name with a prefix or namespace that is not bound gets no binding registered"
        if not needs and inserted:
            bad = "a binding is registered for a name that needs none"
    ctx.ob("R17.8", "find_or_insert_ns-registers-every-unbound-name", bad is None and k >= 5, bad or "%d paths: registered iff (prefix or namespace) and not yet bound" % k, "xml5ever serialize find_or_insert_ns")


def _bytes_text(x):
    m = re.fullmatch(r"\[([0-9, ]*)\]", x)
    if m:
        return "".join(chr(int(v)) for v in m.group(1).split(",") if v.strip())
    m = re.fullmatch(r'b?"(.*)"(\.as_bytes\(\))?', x)
    return m.group(1) if m else None


def r17_12(ctx):
    """comments, processing instructions and the doctype name are written verbatim between fixed delimiters: the pieces written on
    the complete path are, in order, exactly the delimiters and the caller's strings - nothing is inserted depending on the text"""
    want = {
        "write_comment": ["<!--", "$p1", "-->"],
        "write_processing_instruction": ["<?", "$p1", " ", "$p2", "?>"],
        "write_doctype": ["<!DOCTYPE ", "$p1", ">"],
    }
    for fn, seq in want.items():
        key, pcs = nfq.cells(ctx, "xml_serialize", "XmlSerializer<Wr>[Serializer]::" + fn)
        bad = None
        full = 0
        for pc in nfq.feasible(pcs):
            pieces = []
            for a, args in pc["actions"]:
                if a in ("self.writer.write_all", "self.writer.write", "self.writer.write_str"):
                    x = str(args[0])
                    m = re.fullmatch(r"(p\d)(\.as_bytes\(\))?", x)
                    pieces.append("$" + m.group(1) if m else _bytes_text(x) if _bytes_text(x) is not None else "?" + x)
                elif a not in ("self.writer.flush",):
                    pieces.append("!" + a)
            # adjacent literals may be split or joined freely
            def norm(ps):
                out = []
                for p_ in ps:
                    if out and not p_.startswith(("$", "?", "!")) and not out[-1].startswith(("$", "?", "!")):
                        out[-1] += p_
                    else:
                        out.append(p_)
                return out
            got, exp = norm(pieces), norm(seq)
            content_guards = [g for g in pc["guards"] if not re.search(r"write(_all|_str)?\(", g)]
            if content_guards:
                bad = "%s looks at the text it writes (%s): what is written depends on the content" % (fn, content_guards[0][:60])
            if got == exp:
                full += 1
            elif got != exp[:len(got)] or str(pc["ret"]) not in ("None", "Err(_)") and "Err" not in str(pc["ret"]) and len(got) < len(exp) and not any(v is False for v in pc["guards"].values()):
                bad = "%s writes %s; the node's text must appear verbatim as %s" % (fn, got, exp)
        ctx.ob("R17.12", "written-verbatim/" + fn, bad is None and full >= 1, bad or "delimiters and the caller's strings, in order, nothing else", "xml5ever serialize " + fn)


def r17_14(ctx):
    """the serializer writes a processing instruction as `<?target data?>`.  Reading it back, the state after the target consumes
    white space only: the first other character - which may be the `?` of `?>` when the data is empty - is handed to the data
    state unconsumed, so that the data state's own table decides about it"""
    T = ctx.tables("xml")
    rows = T["step"].get("PiTargetAfter")
    if not rows:
        raise AnchorMissing("state PiTargetAfter")
    bad = None
    n = 0
    for pc in rows:
        cls = [a[1] for a in pc.get("acq") or [] if a[0] == "get_char" and isinstance(a[1], (tuple, list))]
        if not cls:
            continue
        lo, hi = cls[0]
        acts = [(a, tuple(str(x) for x in args)) for a, args in pc["actions"]]
        ws = lo == hi and lo in (9, 10, 32)
        if ws:
            if acts or pc.get("next") not in ("PiTargetAfter", None):
                bad = "white space after the target does %s" % [a for a, _ in acts]
            continue
        n += 1
        if sorted(acts) != sorted([("set self.reconsume", ("true",)), ("set self.state", ("PiData",))]):
            bad = "after the target, %r is %s instead of being handed to the data state unconsumed: with empty data the `?` of `?>` becomes data and the instruction swallows what follows" % (
                chr(lo), [a for a, _ in acts])
    ctx.ob("R17.14", "pi-data-begins-unconsumed", bad is None and n >= 10, bad or "%d character classes: reconsume in the data state" % n, "xml tokenizer PiTargetAfter")


def r17_10(ctx):
    """the serializer writes every attribute as ` name="value"`, so on re-parsing every attribute name begins in the state that
    follows a quoted value and white space (TagAttrNameBefore).  A character with which some other state starts an attribute name
    must start one there too - otherwise the parser can produce a name the serializer's output does not read back"""
    T = ctx.tables("xml")

    def starts(st):
        out = {}
        for pc in T["step"].get(st) or []:
            for a in pc.get("acq") or []:
                if a[0] == "get_char" and isinstance(a[1], (tuple, list)):
                    lo, hi = a[1]
                    begins = any(x == "create_attribute" for x, _ in pc["actions"])
                    out[(lo, hi)] = out.get((lo, hi), False) or begins
        return out
    base = starts("TagAttrNameBefore")
    if not base or not any(base.values()):
        raise AnchorMissing("TagAttrNameBefore starts no attribute")
    n = 0
    for st in sorted(T["step"]):
        if st == "TagAttrNameBefore":
            continue
        for cls, begins in sorted(starts(st).items()):
            if not begins:
                continue
            n += 1
            ok = base.get(cls) is True
            ctx.ob("R17.10", "attribute-name-start/%s/%s" % (st, "U+%04X" % cls[0] if cls[0] == cls[1] else "U+%04X-U+%04X" % cls), ok,
                   "also starts a name after a quoted value" if ok else
                   "state %s starts an attribute name with %r, the state after a quoted value (TagAttrNameBefore) does not: `<a b %sx=\"1\"/>` gives an attribute `%sx` that is serialized as ` %sx=\"1\"` and read back differently" % (
                       st, chr(cls[0]), chr(cls[0]), chr(cls[0]), chr(cls[0])), "xml tokenizer " + st)
    ctx.floor("R17.10", "name-starting-classes", n, 20)


def run(ctx):
    ctx.rule("R17.16", "the layout of the tags the XML serializer writes: '<' name, namespace declarations ' xmlns[:prefix]=\"uri\"', attributes ' name=\"value\"', '>'; '</' name '>'; a qualified name is [prefix ':'] local")
    ctx.guard("R17.16", "tag-layout", lambda: r17_16(ctx))
    ctx.rule("R17.15", "= R16.10: which attributes are namespace declarations is decided on prefix and local name alone, identically (complementarily) in the declaring and the binding pass - a declaration the tree builder rejects must not survive as an attribute, which the serializer would write out and the re-parse reject again")
    from . import nsdecl as _nsd
    ctx.guard("R17.15", "declaration-predicates", lambda: _nsd.declaration_predicates(ctx, "R17.15"))
    ctx.rule("R17.14", "after a PI target only white space is consumed; the data state sees the first other character itself")
    ctx.guard("R17.14", "pi-target-after", lambda: r17_14(ctx))
    ctx.rule("R17.13", "rcdom Serialize writes node.children for every element (R07.13): an XML element that happens to be called template keeps its children")
    from .C07 import r07_13
    ctx.guard("R17.13", "rcdom-serialize", lambda: ctx.under("R17.13", lambda: r07_13(ctx)))
    ctx.rule("R17.12", "comments, processing instructions and doctype names are written verbatim between their delimiters")
    ctx.guard("R17.12", "verbatim", lambda: r17_12(ctx))
    ctx.rule("R17.11", "what the serializer escapes is decoded again: a matched reference that ends in ';' is always decoded, also directly before '=' inside an attribute value (R14.6)")
    from .C14 import semicolon_rule
    ctx.guard("R17.11", "semicolon/xml", lambda: semicolon_rule(ctx, "R17.11", "xml"))
    ctx.rule("R17.10", "every character that starts an attribute name in some tokenizer state also starts one in the state the serializer's output is read in")
    ctx.guard("R17.10", "attr-name-start", lambda: r17_10(ctx))
    ctx.rule("R17.9", "the tokenizer takes attribute value characters verbatim (no folding of line breaks or other characters inside a value)")
    from . import tokrules as _trv
    for _w in ('xml',):
        ctx.guard("R17.9", "attr-verbatim/" + _w, lambda _w=_w: _trv.attr_values_kept_verbatim(ctx, "R17.9", _w))
    ctx.rule("R17.8", "find_or_insert_ns registers a binding for every name with a prefix or namespace that is not bound yet, whatever the namespace")
    ctx.guard("R17.8", "register", lambda: r17_8(ctx))
    ctx.rule("R17.7", "find_uri: the innermost binding of a prefix decides; NamespaceMap::insert always records a binding")
    ctx.guard("R17.7", "scopes", lambda: r17_7(ctx))
    ctx.rule("R17.6", "an unprefixed element in no namespace un-declares an inherited default namespace")
    ctx.guard("R17.6", "undeclare", lambda: r17_6(ctx))
    ctx.rule("R17.1", "in start_elem nothing that can register a namespace follows the loop writing the xmlns declarations")
    ctx.rule("R17.2", "no Serializer method other than start_elem can reach NamespaceMap::insert")
    ctx.rule("R17.3", "escape table covers & < (text), & \" (attributes), CR (both), is reversible; every write inside quotes is escaped")
    ctx.rule("R17.4", "one scope push per start_elem, one pop per end_elem")
    ctx.rule("R17.5", "normal forms of xml5ever::serialize equal the reviewed reference")
    ctx.guard("R17.1", "order", lambda: r17_1_2(ctx))
    ctx.guard("R17.3", "escaping", lambda: r17_3(ctx))
    ctx.guard("R17.4", "pairing", lambda: r17_4(ctx))
    ctx.guard("R17.5", "nf", lambda: nf_common.nf_rule(ctx, "R17.5", AREA, floor=18))
    # the serializer keeps its prefix scopes in the tree builder's NamespaceMap type
    ctx.guard("R17.5", "nf-namespace-map", lambda: nf_common.nf_rule(ctx, "R17.5", "xml_tree_builder", only=("NamespaceMap",), floor=4))
    ctx.guard("R17.5", "nf-rcdom", lambda: nf_common.nf_rule(ctx, "R17.5", "rcdom", only=("[Serialize]",)))


def r17_16(ctx):
    """the layout of the tags the XML serializer writes, as the sequence of its writes on the complete (error-free) paths:
    start tag  '<' qualified-name  { ' xmlns' [':' prefix] '="' escaped-uri '"' }  { ' ' qualified-name '="' escaped-value '"' }  '>'
    end tag    '</' qualified-name '>'          qualified name   [prefix ':'] local"""
    def seq(pc):
        # (which escaping mode the value writer is called with is R17.3's business: the third argument is not compared here)
        return [re.sub(r"^(call write_to_buf_escaped\(self\.writer,[^,]+),.*\)$", r"\1,true)", x) for x in nfq.texts(pc) if re.match(r"(self\.writer|p1)\.write_all\(|call write_to_buf_escaped\(|call write_qual_name\(|self\.qual_name\(|loop-begin|loop-end", x)]

    def complete(pcs, last):
        out = [pc for pc in nfq.feasible(pcs) if str(pc["ret"]) in ("Ok(())", last)]
        return sorted(out, key=lambda p: -len(p["actions"]))

    W = lambda *b: "self.writer.write_all([%s])" % ", ".join(str(x) for x in b)
    # start_elem: the longest complete path takes every optional part once
    key, pcs = nfq.cells(ctx, "xml_serialize", "[Serializer]::start_elem")
    cs = complete(pcs, "self.writer.write_all([62])")
    if not cs:
        raise AnchorMissing("xml start_elem: no complete path")
    s = seq(cs[0])
    # drop the first loop (registration of attribute prefixes: no writes)
    txt = " ; ".join(s)
    want = [W(60), "self.qual_name(p1)", "loop-begin", W(32, 120, 109, 108, 110, 115), W(58), "self.writer.write_all(item.0.0.as_bytes())", W(61, 34),
            "call write_to_buf_escaped(self.writer,item.1.0,true)", W(34), "loop-end", "loop-begin", W(32), "call write_qual_name(self.writer,item.0)", W(61, 34),
            "call write_to_buf_escaped(self.writer,item.1,true)", W(34), "loop-end", W(62)]
    got = [x for x in s]
    # align: keep only the items from the first '<' on
    if W(60) in got:
        got = got[got.index(W(60)):]
    norm = [("loop-begin" if x.startswith("loop-begin") else "loop-end" if x.startswith("loop-end") else x) for x in got]
    ok = norm == want
    ctx.ob("R17.16", "start-tag-layout", ok, "'<' name {' xmlns' [':' prefix] '=\"' uri '\"'} {' ' name '=\"' value '\"'} '>'" if ok else
           "the start tag is written as %s" % " ".join(x.replace("self.writer.write_all", "w").replace("call ", "") for x in norm)[:400], "xml5ever serialize start_elem")
    key, pcs = nfq.cells(ctx, "xml_serialize", "[Serializer]::end_elem")
    cs = complete(pcs, "self.writer.write_all([62])")
    s = [x for x in (seq(cs[0]) if cs else [])]
    ok = s == [W(60, 47), "call write_qual_name(self.writer,p1)", W(62)]
    ctx.ob("R17.16", "end-tag-layout", ok, "'</' qualified name '>'" if ok else "the end tag is written as %s" % s, "xml5ever serialize end_elem")
    key, pcs = nfq.cells(ctx, "xml_serialize", "write_qual_name")
    full = [pc for pc in nfq.feasible(pcs) if str(pc["ret"]) == "Ok(())"]
    bad = None
    for pc in full:
        pre = [v for k, v in pc["guards"].items() if k.startswith("p2.prefix matches Some(_)")]
        s = [x for x in nfq.texts(pc) if x.startswith("p1.write_all(")]
        want = (["p1.write_all(p2.prefix.0.as_bytes())", "p1.write_all([58])"] if pre and pre[0] else []) + ["p1.write_all(p2.local.as_bytes())"]
        if s != want:
            bad = "a %s name is written as %s" % ("prefixed" if pre and pre[0] else "plain", s)
    ctx.ob("R17.16", "qualified-name-layout", bad is None and len(full) >= 2, bad or "[prefix ':'] local", "xml5ever serialize write_qual_name")
