"""C11 — tendrils behave as independent owned strings under every operation (DESIGN 4.C11)."""
import re

from lib import machine as mc
from lib.mir import AnchorMissing
from . import nf_common, nfq
from .guardlib import gval, comparisons, lt_true, ge_true

MANIFEST = {
    "text": "Must-pass-through rules on tendril.rs / fmt.rs: every write into heap storage is preceded on its path by make_owned / make_owned_with_capacity (copy on write) or targets a buffer created in the same function; every set_len belongs to a reviewed class (grow after own, zero-copy merge under all four sharing conditions, shrink); every safe method that reaches an unchecked primitive passes the matching bounds test and F::validate* first; format validators of subsequences check both ends. Plus equality of all 182 functions of tendril::{tendril, buf32, fmt, util} with their reviewed normal forms. futf's byte classes (complete table over 256 values, extracted by partial evaluation) and decode thresholds are UTF-8's (R11.6).",
    "note": "Decides R11.1-R11.6 (compile-fail witnesses R11.3w in the thorough tier). Not decided: offset / length / capacity arithmetic and the WTF-8 fixup logic beyond equality with the reviewed normal forms; 'fails exactly when the model says'. Also decided: the WTF-8 surrogate-join formula, by its complete table over 2^20 payload pairs (R11.7). Round 6: make_owned copies unless owned (R11.9), inline only up to MAX_INLINE_LEN (R11.10), WTF-8 adjacency flag (R11.11). Round 7: WTF8 boundary validators accept the empty slice, ASCII bound (R11.12). Round 8: ASCII::validate examines every byte (R11.12), R11.13 = R12.7, futf::classify answers a look-back sequence only if it contains idx (F29, R11.14).",
    "technique": 'must-pass-through / guard-dominance rules over function normal forms + reviewed normal-form comparison',
}
LEVEL = "other"
EXPLANATION = """
R11.1 copy-on-write: writers of heap bytes pass make_owned*; R11.1b set_len site classes; R11.2 checked before
unchecked (12 safe wrappers); R11.3 validators: UTF8::validate_subseq = prefix AND suffix, WTF8 likewise; R11.4
push_tendril zero-copy merge guarded by all four conditions; R11.5 reviewed normal forms of tendril core.
R11.6 futf byte-class table over all 256 values and decode thresholds.
"""
ASSUMPTIONS = ["core::str::from_utf8, ptr::copy_nonoverlapping and the allocator behave as documented"]
AREA = "tendril_core"
T = "tendril::Tendril<F,A>::"


def all_fns(ctx):
    cur = nf_common.area_current(ctx, AREA)
    out = {}
    for k, v in cur.items():
        if v["kind"] == "paths":
            out[k] = nfq.feasible(mc.from_json({k: v["cells"]})[k])
    return out


WRITE_ACTS = ("call copy_and_advance", "call copy_nonoverlapping", "call write_bytes", "call std::ptr::write_bytes")


def r11_1(ctx):
    fns = all_fns(ctx)
    n = 0
    for key, pcs in sorted(fns.items()):
        if not key.startswith("tendril::"):
            continue
        fname = key.rsplit("::", 1)[-1]
        bad = None
        cnt = 0
        for pc in pcs:
            t = nfq.texts(pc)
            names = nfq.names(pc)
            for i, x in enumerate(t):
                heap_write = False
                if names[i] in ("call copy_and_advance",):
                    dest = x
                    # destination derived from a heap buffer (assume_buf / data_ptr), not from a stack temporary
                    heap_write = "data_ptr()" in x or "assume_buf()" in x
                if names[i] in ("call write_bytes", "call copy_nonoverlapping") and ("data_ptr" in x or "assume_buf" in x):
                    heap_write = True  # (a destination obtained through self[..] goes through DerefMut -> as_mut_byte_slice, checked below)
                if names[i].endswith("data_mut") :
                    heap_write = True
                if not heap_write:
                    continue
                cnt += 1
                owned_before = any(a in ("self.make_owned", "self.make_owned_with_capacity") for a in names[:i]) or any("with_capacity(" in y for y in t[:i]) or any(a == "self.as_mut_byte_slice" for a in names[:i])
                if not owned_before:
                    bad = x[:120]
        if cnt:
            n += 1
            ctx.ob("R11.1", "copy-on-write/" + fname, bad is None,
                   "%s writes into heap storage without having passed make_owned*: a tendril sharing the buffer would see the change" % bad if bad else "every heap write is preceded by make_owned / make_owned_with_capacity (or targets a fresh buffer)", "tendril " + fname)
    ctx.floor("R11.1", "heap-writers", n, 2)
    # as_mut_byte_slice itself
    key, pcs = nfq.cells(ctx, AREA, T + "as_mut_byte_slice")
    heap = [pc for pc in nfq.feasible(pcs) if any(a.endswith("data_mut") for a in nfq.names(pc))]
    ok = bool(heap) and all("self.make_owned" in nfq.names(pc) and nfq.names(pc).index("self.make_owned") < [i for i, a in enumerate(nfq.names(pc)) if a.endswith("data_mut")][0] for pc in heap)
    ctx.ob("R11.1", "copy-on-write/as_mut_byte_slice", ok, "a mutable view of heap bytes is handed out only after make_owned()")


SETLEN_CLASSES = {
    "push_bytes_without_validating": "grow after make_owned_with_capacity",
    "push_uninitialized": "grow after make_owned_with_capacity",
    "push_tendril": "zero-copy merge of adjacent shared views",
    "unsafe_pop_front": "shrink",
    "unsafe_pop_back": "shrink",
    "clear": "shrink of an unshared buffer",
}


def r11_1b(ctx):
    fns = all_fns(ctx)
    n = 0
    for key, pcs in sorted(fns.items()):
        fname = key.rsplit("::", 1)[-1]
        if fname in ("set_len",):
            continue
        has = [pc for pc in pcs if "self.set_len" in nfq.names(pc)]
        if not has:
            continue
        n += 1
        cls = SETLEN_CLASSES.get(fname)
        ok = cls is not None
        detail = cls or "set_len outside the reviewed classes"
        if ok and cls.startswith("grow"):
            ok = all(nfq.names(pc).index("self.make_owned_with_capacity") < nfq.names(pc).index("self.set_len") if "self.make_owned_with_capacity" in nfq.names(pc) else False for pc in has)
            detail = "set_len after make_owned_with_capacity on every path" if ok else "a growing set_len is not preceded by make_owned_with_capacity"
        if ok and fname == "clear":
            ok = all(any((not v) and "assume_buf().1" in g for g, v in pc["guards"].items()) for pc in has)
            detail = "set_len(0) only on the not-shared edge" if ok else "clear() shrinks a shared buffer in place"
        if ok and fname == "push_tendril":
            for pc in has:
                pos = [g for g, v in pc["guards"].items() if v]
                need = [lambda g: "self.assume_buf().1" in g, lambda g: "p1.assume_buf().1" in g, lambda g: "data_ptr()" in g and "==" in g,
                        lambda g: re.search(r"\(p1\.aux\(\) == \(self\.aux\(\) \+ self\.raw_len\(\)\)\)", g) is not None]
                miss = [i for i, f in enumerate(need) if not any(f(g) for g in pos)]
                if miss:
                    ok = False
                    detail = "the zero-copy merge is taken without condition(s) #%s of [self shared, other shared, same buffer, other starts where self ends]: %s" % (miss, pos)
            if ok:
                detail = "merge guarded by: both shared, same buffer, other.aux == self.aux + self.raw_len"
        ctx.ob("R11.1b" if fname != "push_tendril" else "R11.4", "set_len-class/" + fname, ok, detail, "tendril " + fname)
    ctx.floor("R11.1b", "set_len-functions", n, 6)


CHECKED = [
    # safe wrapper, unchecked primitive it reaches, validation it must have passed (positive guard substring), bounds guard that must be false
    ("try_subtendril", "self.unsafe_subtendril", "validate_subseq(", "(p1 > self.len32())"),
    ("try_pop_front", "self.unsafe_pop_front", "validate_suffix(", "(p1 > self.len32())"),
    ("try_pop_back", "self.unsafe_pop_back", "validate_prefix(", "(p1 > self.len32())"),
    ("try_push_bytes", "self.push_bytes_without_validating", "validate(", None),
    ("try_from_byte_slice", "from_byte_slice_without_validating", "validate(", None),
    ("try_push_char", "push_bytes_without_validating", None, None),
]


def r11_2(ctx):
    n = 0
    for fn, prim, val, bound in CHECKED:
        key, pcs = nfq.cells(ctx, AREA, T + fn)
        bad = None
        k = 0
        for pc in nfq.feasible(pcs):
            t = nfq.texts(pc)
            if not any(prim in x for x in t) and prim not in str(pc["ret"]):
                continue
            k += 1
            if val and not any(v and val in g for g, v in pc["guards"].items()):
                bad = "reaches %s without a successful %s..)" % (prim, val)
            if bound:
                if gval(pc["guards"], bound) is not False:
                    bad = "reaches %s without the bounds test %s being false" % (prim, bound)
        n += 1
        ctx.ob("R11.2", "checked-before-unchecked/" + fn, bad is None and k > 0, bad or "%d path(s) reach the unchecked primitive, all after validation%s" % (k, " and the bounds test" if bound else ""), "tendril " + fn)
    # the unchecked primitives are unsafe fns; transmuting format views requires validate / subset
    for fn in ("try_as_subset", "try_into_subset", "try_reinterpret_view", "try_reinterpret"):
        key, pcs = nfq.cells(ctx, AREA, T + fn)
        ok = all(any(v and re.search(r"validate\w*\(", g) for g, v in pc["guards"].items()) for pc in nfq.feasible(pcs) if "transmute" in " ".join(nfq.texts(pc)) + str(pc["ret"]))
        n += 1
        ctx.ob("R11.2", "checked-before-unchecked/" + fn, ok, "the format is re-labelled only after validate() succeeded")
    ctx.floor("R11.2", "wrappers", n, 10)
    mir = ctx.mir
    unsafe_expected = ("reinterpret_view_without_validating", "reinterpret_without_validating", "from_byte_slice_without_validating", "push_bytes_without_validating",
                       "unsafe_subtendril", "unsafe_pop_front", "unsafe_pop_back", "push_uninitialized")
    for f in mir.by_crate["tendril"]:
        if f.name in unsafe_expected and "Tendril" in f.path:
            ctx.ob("R11.2", "unchecked-primitive-is-unsafe-fn/" + f.name, bool(f.d.get("unsafe")), "declared unsafe (calling it from safe code is E0133)" if f.d.get("unsafe") else "an unchecked primitive is a safe fn")


def r11_3(ctx):
    for fmtname in ("UTF8", "WTF8"):
        try:
            key, pcs = nfq.cells(ctx, AREA, "fmt::%s[Format]::validate_subseq" % fmtname)
        except AnchorMissing:
            continue
        blob = " ".join(" ".join(nfq.texts(pc)) + " ".join(pc["guards"]) for pc in pcs)
        ok = "validate_prefix(p1)" in blob and "validate_suffix(p1)" in blob
        ctx.ob("R11.3", "subseq-checks-both-ends/" + fmtname, ok, "validate_subseq = validate_prefix AND validate_suffix" if ok else "validate_subseq does not check both ends of the slice: a subtendril may start or end inside a code point")
        yes = [pc for pc in nfq.feasible(pcs) if str(pc["ret"]) in ("true",) or "validate_suffix" in str(pc["ret"])]
    key, pcs = nfq.cells(ctx, AREA, "fmt::UTF8[Format]::validate")
    fe = nfq.feasible(pcs)
    ok = bool(fe) and all(gval(pc["guards"], "from_utf8(p1) matches Ok(_)") is not None and str(pc["ret"]) == ("true" if gval(pc["guards"], "from_utf8(p1) matches Ok(_)") else "false") and not nfq.texts(pc) for pc in fe)
    ctx.ob("R11.3", "utf8-validate-is-from_utf8", ok, "UTF8::validate(buf) = str::from_utf8(buf).is_ok()")


def r11_6(ctx):
    """futf (character boundaries of pop_front_char / char-run pops): byte classes and decode thresholds are UTF-8's"""
    from lib.flat import scalar_consts, Config, explore, run_body, showv
    its = [it for it in ctx.ast.walkable("tendril") if it["k"] == "Fn" and it["name"] == "classify" and (it.get("self_ty") or "").strip() == "Byte" and it.get("body") is not None]
    if len(its) != 1:
        raise AnchorMissing("futf::Byte::classify not found")
    it = its[0]
    pname = [p["pat"]["name"] for p in it["sig"]["params"] if p.get("name") != "self"][0]
    want = lambda v: "Some(Ascii)" if v < 0x80 else "Some(Cont)" if v < 0xC0 else "Some(Start(2))" if v < 0xE0 else "Some(Start(3))" if v < 0xF0 else "Some(Start(4))" if v < 0xF8 else "None"
    bad = None
    for v in range(256):
        cfg = Config(acquire={}, primitives=set(), inline={}, guards=set(), samples=[], accessors=set(), full_call_text=True, generic_loops=True, consts=scalar_consts(ctx.ast.walkable("tendril")))
        paths = explore(cfg, lambda run, v=v: run_body(run, it["body"], {pname: v}))
        outs = {showv(p["outcome"][1]) if len(p["outcome"]) > 1 else str(p["outcome"]) for p in paths}
        if outs != {want(v)} and bad is None:
            bad = "byte 0x%02X is classified %s, UTF-8 says %s" % (v, sorted(outs), want(v))
    ctx.ob("R11.6", "futf-byte-classes", bad is None, bad or "the table of Byte::classify over all 256 byte values (extracted by partial evaluation of the syntax tree) is UTF-8's: 00-7F ASCII, 80-BF continuation, C0-DF / E0-EF / F0-F7 lead of 2 / 3 / 4, F8-FF invalid",
           "tendril futf.rs Byte::classify")
    key, pcs = nfq.cells(ctx, "tendril_decode", "futf::decode")
    facts = {2: False, 3: False, 4: False}
    probs = []
    for pc in nfq.feasible(pcs):
        g = pc["guards"]
        ln = [int(k.rsplit(" ", 1)[1]) for k, v in g.items() if v and re.fullmatch(r"p1\.len\(\) matches [234]", k)]
        if not ln:
            continue
        ln = ln[0]
        txt = " ".join(g) + " " + str(pc["ret"])
        mask = {2: "& 31) as u32) << 6", 3: "& 15) as u32) << 12", 4: "& 7) as u32) << 18"}[ln]
        if mask not in txt:
            probs.append("length %d: lead byte mask/shift is not %s" % (ln, mask))
        if txt.count("& 63)") < 1:
            probs.append("length %d: continuation bytes are not masked with 0x3F" % ln)
        thr = {2: ["< 128)"], 3: ["0..=2047", "55296..=56319", "56320..=57343"], 4: ["< 65536)"]}[ln]
        if any(t in txt for t in thr):
            facts[ln] = True
        if str(pc["ret"]).startswith("from_u32(") and "map(" not in str(pc["ret"]):
            probs.append("length %d: the scalar value is not checked by char::from_u32" % ln)
    allthr = " ".join(" ".join(pc["guards"]) for pc in pcs)
    for t in ("< 128)", "0..=2047", "55296..=56319", "56320..=57343", "< 65536)"):
        if t not in allthr:
            probs.append("threshold %s is missing" % t)
    ctx.ob("R11.6", "futf-decode-thresholds", not probs and all(facts.values()), "; ".join(probs) or "overlong forms (< 0x80, < 0x800, < 0x10000) rejected, surrogates D800-DBFF / DC00-DFFF reported as such, the rest through char::from_u32",
           "tendril futf.rs decode")


def utf8_boundary_validators(ctx, rule):
    """UTF8::validate_prefix / validate_suffix: a non-empty slice ends / starts at a code point boundary iff the code point that
    futf finds at its last / first byte is whole (the classification itself is the table of R11.6); the empty slice is valid"""
    for fn, at in (("validate_suffix", "0"), ("validate_prefix", "(p1.len() - 1)")):
        key, pcs = nfq.cells(ctx, AREA, "fmt::UTF8[Format]::" + fn)
        fe = nfq.feasible(pcs)
        bad = None
        for pc in fe:
            g = pc["guards"]
            empty = gval(g, "p1.is_empty()")
            whole = [v for k, v in g.items() if re.fullmatch(r"classify\(p1,%s\) matches Some\(Codepoint\{meaning:Whole\(_\)(,\.\.|,[^}]*)?\}\)(#\d+)?" % re.escape(at), k)]
            want = "true" if (empty is True or whole == [True]) else "false" if whole == [False] else None
            if want is None or str(pc["ret"]) != want:
                bad = "%s answers %s under %s: it is not 'empty, or the code point at %s is whole'" % (fn, pc["ret"], {k[-60:]: v for k, v in g.items()}, "the first byte" if at == "0" else "the last byte")
        ctx.ob(rule, "utf8-%s-is-code-point-boundary" % fn, bad is None and len(fe) >= 3, bad or "empty, or futf classifies the code point at the boundary as whole", "tendril fmt UTF8::" + fn)


def wtf8_boundary_validators(ctx, rule):
    """WTF8::validate_prefix / validate_suffix: the empty slice is valid (popping everything, an empty subtendril); otherwise the
    code point futf finds at the last / first byte must be meaningful for WTF-8"""
    for fn, at in (("validate_suffix", "0"), ("validate_prefix", "(p1.len() - 1)")):
        key, pcs = nfq.cells(ctx, AREA, "fmt::WTF8[Format]::" + fn)
        fe = nfq.feasible(pcs)
        bad = None
        seen = set()
        for pc in fe:
            g = pc["guards"]
            empty = gval(g, "p1.is_empty()")
            if empty is None:
                empty = gval(g, "p1.len() == 0")
            found = [v for k, v in g.items() if re.fullmatch(r"classify\(p1,%s\) matches Some\(_\)(#\d+)?" % re.escape(at), k)]
            mean = [v for k, v in g.items() if re.fullmatch(r"wtf8_meaningful\(classify\(p1,%s\)\.0\.meaning\)(#\d+)?" % re.escape(at), k)]
            if empty is True:
                want = "true"
                seen.add("empty")
            elif empty is None:
                want = None
            elif found == [True] and mean:
                want = "true" if mean[-1] else "false"
                seen.add("meaning")
            elif found == [False]:
                want = "false"
            else:
                want = None
            if want is None or str(pc["ret"]) != want:
                bad = "%s answers %s under %s: it is not 'empty, or the code point at %s is meaningful' - without the emptiness test an empty slice (pop everything, subtendril of length 0) is rejected" % (
                    fn, pc["ret"], {k[-50:]: v for k, v in g.items()}, "the first byte" if at == "0" else "the last byte")
        ctx.ob(rule, "wtf8-%s-empty-or-meaningful" % fn, bad is None and {"empty", "meaning"} <= seen, bad or "empty, or futf classifies the code point at the boundary as meaningful", "tendril fmt WTF8::" + fn)


def _range_test(ctx, fn_item, bound=None):
    """the single `if <number> <cmp> <constant> { Err }` of a function body, as (python expression, variable, constants, then_is_err);
    None when the body has no such test.  `bound`: parameter name -> literal value at the call site"""
    from lib.ast import walk
    conds = []

    def f(n):
        if n.get("k") == "If" and n["cond"].get("k") == "Binary" and n["cond"]["op"] in ("<", ">", "<=", ">=", "==", "!="):
            conds.append(n)
    walk(fn_item["body"], f)
    if len(conds) != 1:
        return None
    c = conds[0]["cond"]
    names = []

    def g(n):
        if n.get("k") == "Path" and "::" not in n["path"] and n["path"] not in names:
            names.append(n["path"])
    walk(c, g)
    consts = dict(bound or {})

    def lets(n):
        # `let max = 0x7F;` - how a written-out helper call binds a literal argument to the helper's parameter
        if n.get("k") == "Let" and (n.get("pat") or {}).get("k") == "PIdent" and n.get("init") is not None:
            v = _py_expr(n["init"], [])
            if v is not None and n["pat"]["name"] in names:
                consts.setdefault(n["pat"]["name"], eval(v))
    walk(fn_item["body"], lets)
    for x in names:
        if x.isupper():
            try:
                consts[x] = int(_const_val(ctx, x))
            except Exception:
                pass
    var = [x for x in names if x not in consts]
    e = _py_expr_cmp(c, var[:1] + list(consts))
    if e is None or len(var) != 1:
        return None
    return e, var[0], consts, "Err" in str(conds[0]["then"])


def ascii_bound(ctx, rule):
    """the ASCII format: validate accepts exactly the bytes 0..=0x7F, and encode_char accepts exactly the characters 0..=0x7F: its
    one range test (its own, or that of the private helper it hands the character and a literal bound to) is evaluated on both
    sides of the boundary.  A byte >= 0x80 in an ASCII tendril makes its free view as UTF-8 invalid"""
    from lib.ast import walk
    fns = {}
    for x in ctx.ast.walkable("tendril"):
        if x["k"] == "Fn" and x.get("body") is not None:
            fns.setdefault(x["name"], []).append(x)
    its = [x for x in fns.get("encode_char", []) if "ASCII" in (x.get("self_ty") or "")]
    if len(its) != 1:
        raise AnchorMissing("ASCII::encode_char")
    t = _range_test(ctx, its[0])
    if t is None:
        # the test may live in a helper that gets the character and the bound
        calls = []

        def f(n):
            if n.get("k") == "Call" and (n.get("f") or {}).get("k") == "Path":
                nm = n["f"]["path"].split("::")[-1]
                if nm in fns and len(fns[nm]) == 1 and nm != "encode_char":
                    calls.append((fns[nm][0], n["args"]))
        walk(its[0]["body"], f)
        for callee, args in calls:
            ps = [p_["pat"]["name"] for p_ in callee["sig"]["params"] if (p_.get("pat") or {}).get("k") == "PIdent"]
            bound = {}
            for pn, a in zip(ps, args):
                v = _py_expr(a, [])
                if v is not None:
                    bound[pn] = eval(v)
                elif a.get("k") == "Path" and a["path"].isupper():
                    try:
                        bound[pn] = int(_const_val(ctx, a["path"]))
                    except Exception:
                        pass
            t = _range_test(ctx, callee, bound)
            if t is not None:
                break
    bad = None
    if t is None:
        bad = "encode_char's range test cannot be found (neither in the function nor in a helper it passes a literal bound to)"
    else:
        e, var, consts, then_err = t
        for n in (0, 0x41, 0x7E, 0x7F, 0x80, 0x81, 0xFF, 0x100, 0x10FFFF):
            env = dict(consts)
            env[var] = n
            rejected = bool(eval(e, {}, env)) if then_err else not bool(eval(e, {}, env))
            if rejected != (n > 0x7F):
                bad = "encode_char %s U+%04X; ASCII is U+0000..=U+007F" % ("rejects" if rejected else "accepts", n)
                break
    ctx.ob(rule, "ascii-encode_char-bound", bad is None, bad or "accepts exactly U+0000..=U+007F", "tendril fmt ASCII::encode_char")
    key, pcs = nfq.cells(ctx, AREA, "fmt::ASCII[Format]::validate")
    bad = None
    n = 0
    for pc in nfq.feasible(pcs):
        for k in pc["guards"]:
            if re.fullmatch(r"p1\.is_ascii\(\)(#\d+)?", k):
                n += 1  # <[u8]>::is_ascii: all bytes <= 0x7F by definition
                continue
            m = re.search(r"\.all\(\|\.\.\|\{?\(?(a1 <= (\d+)|a1 < (\d+)|\((\d+) < a1\))", k)
            if m:
                n += 1
                lim = int(m.group(2)) if m.group(2) else int(m.group(3)) - 1 if m.group(3) else None
                if lim != 127:
                    bad = "validate accepts bytes up to %s" % lim
    ctx.ob(rule, "ascii-validate-bound", bad is None and n >= 1, bad or "all bytes <= 0x7F", "tendril fmt ASCII::validate")
    # every byte is examined: a path that answers true has tested the whole buffer - p1.iter().all(..) / p1.is_ascii() - or, when the
    # buffer is cut up (align_to: unaligned head, words, tail; chunks_exact + remainder), every part of it
    bad = None
    nt = 0
    for pc in nfq.feasible(pcs):
        ret = str(pc["ret"])
        if ret == "false":
            continue
        nt += 1
        pos = [k for k, v in pc["guards"].items() if v is True] + [ret]
        txt = " ".join(pos)
        if re.search(r"\bp1\.iter\(\)\.(copied\(\)\.|cloned\(\)\.)?all\(", txt) or "p1.is_ascii()" in txt:
            continue
        parts = set(re.findall(r"p1\.align_to(?:::<\w+>)?\(\)\.(\d)\b", txt))
        if parts:
            if parts != {"0", "1", "2"}:
                bad = "validate answers true after examining only part(s) %s of align_to's (head, words, tail): the bytes of the unexamined part may be >= 0x80" % sorted(parts)
            continue
        if "chunks_exact" in txt and "remainder()" in txt:
            continue
        bad = bad or "validate answers true on a path that has not examined the whole buffer (tests: %s)" % (pos[:2],)
    ctx.ob(rule, "ascii-validate-examines-every-byte", bad is None and nt >= 1, bad or "%d accepting path(s), each over the whole buffer" % nt, "tendril fmt ASCII::validate")


def _const_val(ctx, name):
    for it in ctx.ast.walkable("tendril"):
        if it["k"] in ("Const", "Static") and it.get("name") == name and it.get("init") is not None:
            e = it["init"]
            while e.get("k") in ("Paren", "Cast"):
                e = e["e"]
            if e.get("k") == "Lit":
                return e["v"]
    raise AnchorMissing(name)


def _py_expr_cmp(e, names):
    if e.get("k") == "Paren":
        return _py_expr_cmp(e["e"], names)
    if e.get("k") == "Binary" and e["op"] in ("<", ">", "<=", ">=", "==", "!="):
        l, r = _py_expr(e["l"], names), _py_expr(e["r"], names)
        return None if l is None or r is None else "((%s) %s (%s))" % (l, e["op"], r)
    return None


def _py_expr(e, names):
    """translate a pure integer expression of the syntax tree to a Python expression over `names`; None when it is not one"""
    k = e.get("k")
    if k == "Paren":
        return _py_expr(e["e"], names)
    if k == "Lit" and e.get("t") == "int":
        return str(int(e["v"]))
    if k == "Path" and e["path"] in names:
        return e["path"]
    if k == "Cast":
        inner = _py_expr(e["e"], names)
        bits = {"u8": 8, "u16": 16, "u32": 32, "u64": 64, "usize": 64}.get(e["ty"].replace(" ", ""))
        return None if inner is None or bits is None else "((%s) & %d)" % (inner, (1 << bits) - 1)
    if k == "Call" and len(e.get("args", [])) == 1 and re.fullmatch(r"(u8|u16|u32|u64|usize|i32|i64)::from", (e.get("f") or {}).get("path", "")):
        return _py_expr(e["args"][0], names)  # a widening conversion: the number itself
    if k == "MethodCall" and e["m"] == "into" and not e["args"]:
        return _py_expr(e["recv"], names)
    if k == "Binary" and e["op"] in ("+", "-", "|", "&", "^", "<<", ">>", "*"):
        l, r = _py_expr(e["l"], names), _py_expr(e["r"], names)
        return None if l is None or r is None else "((%s) %s (%s))" % (l, e["op"], r)
    return None


def r11_7(ctx):
    """WTF-8 surrogate joining (WTF8::fixup): the code point built from a lead surrogate's payload hi and a trail surrogate's payload
    lo (10 bits each, from futf) is 0x10000 + (hi << 10) + lo - the expression is taken from the syntax tree and its table over all
    1024 x 1024 pairs is compared (a finite domain, evaluated completely; nothing of the crate is run)"""
    from lib.ast import walk
    its = [it for it in ctx.ast.walkable("tendril") if it["k"] == "Fn" and it["name"] == "fixup" and "WTF8" in (it.get("self_ty") or "") and it.get("body") is not None]
    if len(its) != 1:
        raise AnchorMissing("WTF8::fixup")
    pats = {}

    def pf(n):
        if n.get("k") == "PTupleStruct" and n["path"].split("::")[-1] in ("LeadSurrogate", "TrailSurrogate") and len(n["elems"]) == 1 and n["elems"][0].get("k") == "PIdent":
            pats[n["path"].split("::")[-1]] = n["elems"][0]["name"]
    walk(its[0]["body"], pf)
    if set(pats) != {"LeadSurrogate", "TrailSurrogate"}:
        raise AnchorMissing("WTF8::fixup: the lead / trail surrogate payloads are not bound by patterns")
    hi, lo = pats["LeadSurrogate"], pats["TrailSurrogate"]
    cands = []

    def lf(n):
        if n.get("k") == "Let" and n.get("init") is not None:
            used = set()
            walk(n["init"], lambda m: used.add(m["path"]) if m.get("k") == "Path" and m["path"] in (hi, lo) else None)
            if used == {hi, lo}:
                py = _py_expr(n["init"], {hi, lo})
                if py is not None:
                    cands.append(py)
    walk(its[0]["body"], lf)
    if len(cands) != 1:
        raise AnchorMissing("WTF8::fixup: %d integer expressions over both surrogate payloads" % len(cands))
    fn = eval("lambda %s, %s: %s" % (hi, lo, cands[0]), {"__builtins__": {}})
    bad = None
    for h in range(1024):
        base = 0x10000 + (h << 10)
        for l in range(1024):
            if fn(h, l) != base + l:
                bad = (h, l, fn(h, l))
                break
        if bad:
            break
    ctx.ob("R11.7", "wtf8-surrogate-pair-joins-to-its-code-point", bad is None,
           "0x10000 + (hi << 10) + lo for all 1 048 576 payload pairs" if bad is None else
           "lead payload 0x%X, trail payload 0x%X join to U+%X, the pair encodes U+%X: text pushed in two pieces differs from the same text pushed at once" % (bad[0], bad[1], bad[2], 0x10000 + (bad[0] << 10) + bad[1]),
           "tendril fmt WTF8::fixup")


def r11_9(ctx):
    """make_owned: a tendril that is inline or SHARED becomes an owned copy of exactly its own bytes (as_byte_slice: offset and
    length applied); only an already owned tendril is left alone.  A shared buffer is never taken over in place - the view's
    offset into the buffer would be lost, and other views may still exist"""
    key, pcs = nfq.cells(ctx, AREA, "Tendril<F,A>::make_owned")
    bad = None
    seen = set()
    for pc in nfq.feasible(pcs):
        acts = [(a, tuple(str(x) for x in args)) for a, args in pc["actions"]]
        names = [a for a, _ in acts]
        if "panic!" in names:
            continue
        copies = [args for a, args in acts if a in ("assign self", "assign *self") and args and re.fullmatch(r"(Tendril::|Self::)?owned_copy\(self\.as_byte_slice\(\)\)", args[0])]
        others = [a for a in names if a not in ("self.as_byte_slice", "call owned_copy", "assign self", "assign *self", "call Self::owned_copy", "self.ptr.get", "self.header")]
        if copies and not others and len(copies) == 1:
            seen.add("copy")
            continue
        if not acts:
            # untouched: must be the owned case - heap (tag above the inline range) and the shared bit clear
            shared_clear = any((v is False and re.search(r"& 1\) matches 1$", g)) or (v is True and re.search(r"& 1\) matches 0$", g)) for g, v in pc["guards"].items())
            if shared_clear:
                seen.add("owned")
                continue
            bad = "a tendril that is not known to be owned is left as it is (%s)" % [g[:50] for g in pc["guards"]][:3]
            continue
        bad = "make_owned does %s: a buffer that is (or may be) shared is taken over in place instead of being copied - the view's offset into it is dropped and other views of it change under their owners" % (others or names)[:4]
    ctx.ob("R11.9", "make_owned-copies-unless-owned", bad is None and seen == {"copy", "owned"}, bad or "inline / shared -> owned_copy(as_byte_slice()); owned -> untouched", "tendril Tendril::make_owned")


def r11_11(ctx):
    """WTF8::validate: a sequence is rejected exactly for an un-meaningful code point or a trail surrogate DIRECTLY after a lead
    surrogate.  "Directly after" is carried from one iteration to the next: after every code point - ASCII included - the flag
    is 'this code point was a lead surrogate', never the flag of an earlier iteration; and the index advances by the whole
    code point"""
    key, pcs = nfq.cells(ctx, AREA, "fmt::WTF8[Format]::validate")
    bad = None
    n = 0
    for pc in nfq.feasible(pcs):
        acts = [(a, tuple(str(x) for x in args)) for a, args in pc["actions"]]
        ends = [args for a, args in acts if a == "loop-end"]
        if not ends or ends[-1][0] not in ("end", "continue"):
            continue
        n += 1
        carried = ends[-1][1:]
        lead = [v for g, v in pc["guards"].items() if re.search(r"matches LeadSurrogate\(_\)", g)]
        is_lead = bool(lead and lead[-1])
        flags = [c for c in carried if c in ("true", "false") or re.fullmatch(r"φ\((true|false)\)", c)]
        if len(flags) != 1 or flags[0] != ("true" if is_lead else "false"):
            bad = "after a code point that is %s lead surrogate the flag carried into the next iteration is %s: a lead surrogate, then other characters, then a trail surrogate is rejected although the two are not adjacent (or an adjacent pair is accepted)" % (
                "a" if is_lead else "not a", flags or carried)
        if not any(re.search(r"\+ classify\(.*\)\.0\.bytes\.len\(\)\)$", c) for c in carried):
            bad = bad or "the index advances by %s, not by the length of the code point just classified" % (carried[:1],)
    ctx.ob("R11.11", "wtf8-validate-adjacency-flag", bad is None and n >= 3, bad or "%d iteration paths: flag := (this code point is a lead surrogate); index += its length" % n, "tendril fmt WTF8::validate")


def run(ctx):
    ctx.rule("R11.14", "futf::classify answers a code point for a continuation byte only if the sequence found by looking back contains that byte")
    ctx.guard("R11.14", "lookback", lambda: r11_14(ctx))
    ctx.rule("R11.12", "WTF8's boundary validators accept the empty slice; ASCII accepts exactly U+0000..=U+007F in both validate and encode_char")
    ctx.guard("R11.12", "wtf8-boundary", lambda: wtf8_boundary_validators(ctx, "R11.12"))
    ctx.guard("R11.12", "ascii", lambda: ascii_bound(ctx, "R11.12"))
    ctx.rule("R11.11", "WTF8::validate rejects a trail surrogate only directly after a lead surrogate: the adjacency flag is recomputed after every code point")
    ctx.guard("R11.11", "wtf8-validate", lambda: r11_11(ctx))
    ctx.rule("R11.9", "make_owned: inline or shared tendrils become an owned copy of their own bytes; nothing is taken over in place")
    ctx.guard("R11.9", "make_owned", lambda: r11_9(ctx))
    ctx.rule("R11.13", "= R12.7 under this property: the heap branch of push_bytes_without_validating writes the inserted bytes where the dropped bytes were (stored length - drop_left), like the inline branch - a WTF-8 surrogate join on a long tendril must produce the joined code point, not leave the lead surrogate")
    from .C12 import r12_7
    ctx.guard("R11.13", "append-layout", lambda: ctx.under("R11.13", lambda: r12_7(ctx)))
    ctx.rule("R11.10", "an inline tendril is built only from at most MAX_INLINE_LEN bytes (shared with R12.10)")
    from .C12 import r12_10
    ctx.guard("R11.10", "inline-bound", lambda: r12_10(ctx, "R11.10"))
    ctx.rule("R11.8", "UTF8::validate_prefix / validate_suffix test the code point at the boundary with futf::classify; an inline tag overwrites the pointer only over an inline tendril (shared with R12.5)")
    ctx.guard("R11.8", "boundary", lambda: utf8_boundary_validators(ctx, "R11.8"))
    def inline_tag():
        from . import C12 as c12
        before = len(ctx.obs)
        c12.r12_5(ctx)
        for o in ctx.obs[before:]:
            if o["rule"] == "R12.5":
                o["rule"] = "R11.8"
        for k in [k for k in ctx.floors if k.startswith("R12.5.")]:
            ctx.floors["R11.8." + k[len("R12.5."):]] = ctx.floors.pop(k)
    ctx.guard("R11.8", "inline-tag", inline_tag)
    ctx.rule("R11.7", "WTF8::fixup joins a surrogate pair to 0x10000 + (hi << 10) + lo (complete table over the 2^20 payload pairs)")
    ctx.guard("R11.7", "join", lambda: r11_7(ctx))
    ctx.rule("R11.6", "futf: byte classes over all 256 values and the decode thresholds are UTF-8's")
    ctx.guard("R11.6", "futf", lambda: r11_6(ctx))
    ctx.rule("R11.1", "every write into heap storage is preceded by make_owned* (or targets a buffer created in the same function)")
    ctx.rule("R11.1b", "every set_len site belongs to a reviewed class (grow after own, shrink, unshared clear)")
    ctx.rule("R11.2", "safe methods reach unchecked primitives only after the bounds test and F::validate*; the primitives are unsafe fns")
    ctx.rule("R11.3", "subsequence validators check both ends; UTF8::validate is str::from_utf8")
    ctx.rule("R11.4", "push_tendril's zero-copy merge is guarded by all four sharing / adjacency conditions")
    ctx.rule("R11.5", "normal forms of tendril::{tendril, buf32, fmt, util} equal the reviewed reference")
    ctx.guard("R11.1", "cow", lambda: r11_1(ctx))
    ctx.guard("R11.1b", "set_len", lambda: r11_1b(ctx))
    ctx.guard("R11.2", "checked", lambda: r11_2(ctx))
    ctx.guard("R11.3", "validators", lambda: r11_3(ctx))
    ctx.guard("R11.5", "nf", lambda: nf_common.nf_rule(ctx, "R11.5", AREA, floor=170))

    def witnesses():
        from lib.witness import run_witnesses

        res = [w for w in run_witnesses() if w[0] in ('UncheckedPrimitivesAreUnsafe', 'Utf8TendrilNeedsValidation')]
        for k, (item, kind, ok, line) in enumerate(sorted(res)):
            ctx.ob("R11.3w", "witness/%s/%s#%d" % (item, kind, k), ok, ("does not compile, with the expected error code" if kind == "compile_fail" else "compiling twin compiles") if ok else "witness %s (%s, engines/witness/src/lib.rs:%d) did not behave as required" % (item, kind, line))
        ctx.floor("R11.3w", "witnesses", len(res), 7)

    if ctx.tier == "thorough":
        ctx.rule("R11.3w", "compile-fail witnesses with compiling twins (rustdoc, nightly, error codes checked)")
        ctx.guard("R11.3w", "witness", witnesses)



def r11_14(ctx):
    """futf::classify, looking back from a continuation byte: when it finds the start byte of an n-byte sequence `checked` bytes
    before idx, it may describe that sequence as the code point containing idx only if checked < n.  With checked >= n the
    sequence ends before idx - the byte at idx continues nothing and the answer is None.  (WTF8::validate walks the buffer with
    classify and advances by the answered sequence's length: a stray continuation byte answered with the PREVIOUS sequence
    lets `C5 91 91` pass as WTF-8.)"""
    cur = nf_common.area_current(ctx, "tendril_decode")
    ks = [k for k in cur if k.endswith("futf::classify")]
    if len(ks) != 1 or cur[ks[0]]["kind"] != "paths":
        raise AnchorMissing("futf::classify has no path normal form")
    bad = None
    n = 0
    for pc in cur[ks[0]]["cells"]:
        g = pc["guards"]
        lookback_start = [k for k, v in g.items() if v is True and re.search(r"classify\(p1\.get_unchecked\(\(φ\(p2\) - 1\)\)\)\.0 matches Start\(_\)", k)]
        if not lookback_start or not str(pc["ret"]).startswith("Some(Codepoint("):
            continue
        if "Prefix(" in str(pc["ret"]):
            continue  # the sequence runs past the end of the buffer: it contains idx by construction (avail > checked)
        n += 1
        inside = [v for k, v in g.items() if re.fullmatch(r"\(\(φ\(0\) \+ 1\) < classify\(p1\.get_unchecked\(\(φ\(p2\) - 1\)\)\)\.0\.0\)(#\d+)?", k)]
        if inside and len(set(inside)) > 1:
            continue  # the same comparison of unchanged values answered both ways: infeasible
        if not inside or not all(inside):
            bad = "a sequence found %s is answered as the code point containing idx although it ends before idx (checked >= n): a stray continuation byte after a complete sequence is accepted" % (
                "without comparing the distance with its length" if not inside else "with checked >= n")
    ctx.ob("R11.14", "futf-lookback-sequence-contains-idx", bad is None and n >= 1, bad or "%d look-back answers, each with checked < n" % n, "tendril futf::classify")
