"""R16.10 (= R17.15): which attributes xml5ever treats as namespace declarations.

Namespaces in XML: an attribute is a declaration iff its prefix is `xmlns`, or it is the unprefixed attribute `xmlns`.
`p:xmlns` is an ordinary attribute (local name xmlns in p's namespace).  `process_namespaces` makes two passes over the tag's
attributes, each through a filter: the first hands declarations to `declare_ns`, the second binds the others and keeps them.
The two filter predicates are read from the syntax tree as boolean functions of (prefix in {xmlns, none, other}, local in
{xmlns, other}) - all six points - and must be (a) the definition above and (b) complements of each other, so that no attribute
is both declared and kept, or neither.  A predicate that looks at anything else (the `ns` field, which `declare_ns` writes for
accepted declarations only) is not a function of these and is reported."""
from lib.ast import walk
from lib.core import AnchorMissing


class Unrecognised(Exception):
    pass


def _atom(path):
    tail = path.split("::")[-1]
    if "__" in tail and tail.startswith("ATOM_"):
        try:
            return bytes(int(h, 16) for h in tail.split("__", 1)[1].split("_") if h).decode()
        except ValueError:
            return None
    return None


def _field_chain(e):
    names = []
    while isinstance(e, dict) and e.get("k") in ("Field", "Paren", "Ref", "Unary") :
        if e["k"] == "Field":
            names.append(e["name"])
        e = e["e"]
    if isinstance(e, dict) and e.get("k") == "Path":
        names.append(e["path"])
        return list(reversed(names))
    return None


def _value(e, param, env):
    """-> ('prefix',) / ('local',) / ('const', x) ; x in {'xmlns', None, ('some','xmlns'), other strings}"""
    while e.get("k") in ("Paren", "Ref") or (e.get("k") == "Unary" and e.get("op") in ("*", "&")):
        e = e["e"]
    ch = _field_chain(e)
    if ch and ch[0] == param:
        if ch[1:] == ["name", "prefix"]:
            return ("prefix",)
        if ch[1:] == ["name", "local"]:
            return ("local",)
        raise Unrecognised("the predicate reads %s" % ".".join(ch))
    if e.get("k") == "Path":
        if e["path"] == "None":
            return ("const", None)
        a = _atom(e["path"])
        if a is not None:
            return ("const", a)
    if e.get("k") == "Call" and e["f"].get("k") == "Path" and e["f"]["path"] == "Some" and len(e["args"]) == 1:
        inner = _value(e["args"][0], param, env)
        if inner[0] == "const":
            return ("const", ("some", inner[1]))
    raise Unrecognised("operand %s" % str(e)[:80])


def _pat(p, cur):
    """does the pattern match the value cur (None | ('some', x) | a string)"""
    k = p.get("k")
    if k == "PWild":
        return True
    if k == "PRef":
        return _pat(p["pat"], cur)
    if k == "POr":
        return any(_pat(c, cur) for c in p["cases"])
    if k == "PIdent":
        if p["name"] == "None":
            return cur is None
        return True  # a binding
    if k == "PPath":
        if p["path"] == "None":
            return cur is None
        a = _atom(p["path"])
        if a is not None:
            return cur == a
        raise Unrecognised("pattern path %s" % p["path"])
    if k == "PTupleStruct" and p["path"] == "Some" and len(p["elems"]) == 1:
        return isinstance(cur, tuple) and cur[0] == "some" and _pat(p["elems"][0], cur[1])
    if k == "PLit":
        raise Unrecognised("literal pattern")
    raise Unrecognised("pattern %s" % k)


def _eval(e, param, env, fns, depth=0):
    k = e.get("k")
    if k in ("Paren",):
        return _eval(e["e"], param, env, fns, depth)
    if k == "Block":
        body = [s for s in e["body"]]
        # `let x = attr;` in front (a helper written out at the call site) renames the attribute
        while len(body) > 1 and body[0].get("k") == "Let" and (body[0].get("pat") or {}).get("k") == "PIdent" and (_field_chain(body[0].get("init") or {}) or [None]) == [param]:
            param = body[0]["pat"]["name"]
            body = body[1:]
        if len(body) == 1 and body[0].get("k") == "ExprStmt" and not body[0].get("semi"):
            return _eval(body[0]["e"], param, env, fns, depth)
        raise Unrecognised("block with statements")
    if k == "Unary" and e.get("op") == "!":
        return not _eval(e["e"], param, env, fns, depth)
    if k == "Binary" and e["op"] in ("&&", "||"):
        l = _eval(e["l"], param, env, fns, depth)
        if e["op"] == "&&":
            return l and _eval(e["r"], param, env, fns, depth)
        return l or _eval(e["r"], param, env, fns, depth)
    if k == "Binary" and e["op"] in ("==", "!="):
        a, b = _value(e["l"], param, env), _value(e["r"], param, env)
        if a[0] == "const" and b[0] != "const":
            a, b = b, a
        if b[0] != "const":
            raise Unrecognised("comparison of two fields")
        if a == ("prefix",):
            cur = None if env["prefix"] is None else ("some", env["prefix"])
            res = cur == b[1]
        else:
            res = env["local"] == b[1]
        return res if e["op"] == "==" else not res
    if k == "Match":
        v = _value(e["e"], param, env)
        if v == ("prefix",):
            cur = None if env["prefix"] is None else ("some", env["prefix"])
        elif v == ("local",):
            cur = env["local"]
        else:
            raise Unrecognised("match on %s" % (v,))
        for arm in e["arms"]:
            if _pat(arm["pat"], cur):
                if arm.get("guard") is not None:
                    if not _eval(arm["guard"], param, env, fns, depth):
                        continue
                return _eval(arm["body"], param, env, fns, depth)
        raise Unrecognised("no arm matches")
    if k == "Lit" and e.get("t") == "bool":
        return bool(e["v"]) if not isinstance(e["v"], str) else e["v"] == "true"
    if k == "Path" and e.get("path") in ("true", "false"):
        return e["path"] == "true"
    if k == "If" and e.get("else") is not None:
        c = _eval(e["cond"], param, env, fns, depth)
        br = e["then"] if c else e["else"]
        return _eval(br if isinstance(br, dict) else {"k": "Block", "body": br}, param, env, fns, depth)
    if k == "MethodCall" and e["m"] in ("is_none", "is_some") and not e["args"]:
        v = _value(e["recv"], param, env)
        if v == ("prefix",):
            return (env["prefix"] is None) == (e["m"] == "is_none")
        raise Unrecognised(e["m"] + " on " + str(v))
    if k in ("Call", "MethodCall") and depth < 3:
        # a helper of the crate applied to the attribute
        name = e["f"]["path"].split("::")[-1] if k == "Call" and e["f"].get("k") == "Path" else e.get("m")
        args = e["args"]
        cand = [f for f in fns.get(name, []) if f.get("body") is not None]
        if len(cand) == 1:
            ps = [p for p in (cand[0].get("sig") or {}).get("params", []) if "pat" in p]
            attr_args = [i for i, a in enumerate(args) if (_field_chain(a) or [None]) == [param]]
            if len(attr_args) == 1 and len(ps) == len(args):
                pn = ps[attr_args[0]]
                pname = (pn.get("pat") or pn).get("name")
                if pname:
                    return _eval({"k": "Block", "body": cand[0]["body"] if isinstance(cand[0]["body"], list) else cand[0]["body"].get("body", [])}, pname, env, fns, depth + 1)
        raise Unrecognised("call of %s" % name)
    raise Unrecognised("construct %s" % k)


def _predicate(arg, fns):
    """the filter's argument -> function env -> bool"""
    if arg.get("k") == "Closure" and len(arg["params"]) == 1:
        p = arg["params"][0]
        while p.get("k") in ("PRef", "PType") and "pat" in p:
            p = p["pat"]
        pname = p.get("name")
        if not pname:
            raise Unrecognised("closure parameter pattern")
        body = arg["body"]
        return lambda env: _eval(body, pname, env, fns)
    if arg.get("k") == "Path":
        name = arg["path"].split("::")[-1]
        call = {"k": "Call", "f": {"k": "Path", "path": name}, "args": [{"k": "Path", "path": "__attr"}]}
        return lambda env: _eval(call, "__attr", env, fns)
    raise Unrecognised("filter argument %s" % arg.get("k"))


POINTS = [(p, l) for p in ("xmlns", None, "other") for l in ("xmlns", "other")]


def declaration_predicates(ctx, rule):
    items = ctx.ast.walkable("xml5ever")
    fns = {}
    for it in items:
        if it["k"] == "Fn":
            fns.setdefault(it["name"], []).append(it)
    its = [it for it in fns.get("process_namespaces", []) if it.get("body") is not None]
    if len(its) != 1:
        raise AnchorMissing("xml5ever process_namespaces")
    loops = {}

    def visit(n):
        if n.get("k") != "For":
            return
        flt = []

        def g(m):
            if m.get("k") == "MethodCall" and m["m"] == "filter" and len(m["args"]) == 1:
                flt.append(m["args"][0])
        walk(n["iter"], g)
        calls = set()

        def h(m):
            if m.get("k") == "MethodCall":
                calls.add(m["m"])
        for st in n["body"]:
            walk(st, h)
        role = "declare" if "declare_ns" in calls else "bind" if "bind_attr_qname" in calls else None
        if role and len(flt) == 1:
            loops[role] = flt[0]
        elif role and not flt and n["pat"].get("k") == "PIdent":
            # `for attr in attrs { if pred(attr) { .. } }`  or  `for attr in attrs { if pred(attr) { continue; } .. }`
            body = n["body"]
            first = body[0]["e"] if body and body[0].get("k") == "ExprStmt" else None
            if first is not None and first.get("k") == "If" and first.get("else") is None:
                then = first["then"]
                is_continue = len(then) == 1 and (then[0].get("e") or {}).get("k") == "Continue"
                cond = first["cond"]
                if is_continue and len(body) > 1:
                    cond = {"k": "Unary", "op": "!", "e": cond}
                elif len(body) != 1:
                    return
                loops[role] = {"k": "Closure", "params": [n["pat"]], "body": cond}
    walk(its[0]["body"] if isinstance(its[0]["body"], dict) else {"k": "Block", "body": its[0]["body"]}, visit)
    # the iterator-chain form: `attrs.iter_mut().filter(P).filter_map(|a| .. bind_attr_qname ..).collect()` /
    # `.filter(P).for_each(|a| self.declare_ns(a))` - one statement with exactly one filter and the pass's call
    for st in (its[0]["body"] if isinstance(its[0]["body"], list) else its[0]["body"].get("body", [])):
        flt, calls = [], set()

        def g2(m):
            if m.get("k") == "MethodCall":
                calls.add(m["m"])
                if m["m"] == "filter" and len(m["args"]) == 1:
                    flt.append(m["args"][0])
        walk(st, g2)
        role = "declare" if "declare_ns" in calls and "bind_attr_qname" not in calls else "bind" if "bind_attr_qname" in calls and "declare_ns" not in calls else None
        if role and role not in loops and len(flt) == 1:
            loops[role] = flt[0]
    if set(loops) != {"declare", "bind"}:
        raise AnchorMissing("process_namespaces: the declaring and the binding pass over the filtered attributes (found %s)" % sorted(loops))
    table = {}
    for role, arg in loops.items():
        try:
            pred = _predicate(arg, fns)
            table[role] = {pt: bool(pred({"prefix": pt[0], "local": pt[1]})) for pt in POINTS}
        except Unrecognised as e:
            ctx.ob(rule, "namespace-declaration-predicate/%s-pass" % role, False,
                   "the filter of the %s pass is not a function of the attribute's prefix and local name (%s): which attributes are declarations is a syntactic matter - "
                   "a declaration that insert_ns rejects must not come back as an attribute" % (role, e), "xml5ever tree_builder process_namespaces")
            table[role] = None
    show = lambda pt: "%s%s" % ((pt[0] + ":") if pt[0] else "", "xmlns" if pt[1] == "xmlns" else "y") if pt[0] != "other" else "p:%s" % ("xmlns" if pt[1] == "xmlns" else "y")
    if table.get("declare") is not None:
        for pt in POINTS:
            want = pt[0] == "xmlns" or (pt[0] is None and pt[1] == "xmlns")
            got = table["declare"][pt]
            ctx.ob(rule, "namespace-declaration-predicate/declare/%s" % show(pt), got == want,
                   "%s is %streated as a namespace declaration" % (show(pt), "" if got else "not ") + ("" if got == want else
                   "; Namespaces in XML: a declaration has the prefix xmlns or is the unprefixed attribute xmlns" + (" - an attribute p:xmlns is an ordinary attribute and must reach the tree" if got else "")),
                   "xml5ever tree_builder process_namespaces")
    if table.get("declare") is not None and table.get("bind") is not None:
        both = [show(pt) for pt in POINTS if table["declare"][pt] and table["bind"][pt]]
        neither = [show(pt) for pt in POINTS if not table["declare"][pt] and not table["bind"][pt]]
        ctx.ob(rule, "namespace-declaration-predicate/passes-are-complements", not both and not neither,
               "every attribute is either declared or bound and kept" if not both and not neither else
               "declared AND kept as attribute: %s; neither (silently lost): %s" % (both, neither), "xml5ever tree_builder process_namespaces")
    return len(POINTS)
