"""C15 — XML5 parse result independent of chunking and diagnostic options (DESIGN 4.C15)."""
from . import tokrules as tr
from . import tok_common, nf_common

MANIFEST = {
    "text": "The chunk-independence and option-independence rules of C03/C08 applied to xml5ever's tokenizer tables (50 states x exact char partition): fast-path sets contain every character the preprocessing rewrites, BOM flag cleared at stream start, only raw text is pushed back by the char-ref code, eat() resolves a pending CR, no effect before suspension, temp_buf empty at eat(); all tables equal the reviewed reference.",
    "note": "Decides R15.1-R15.6 (necessary conditions). Not decided: BufferQueue arithmetic, tree builder reaction. The XML reference table is a reviewed snapshot of the code (xml5 has no normative algorithm to compare with). Round 6: runs only appended + finish_attribute buffers (R15.8), driver feeds until done (R15.9). Round 8: end() runs before eof_step (R15.10), input stream preprocessing transcription incl. U+0000 -> U+FFFD for the character behind a skipped LF (R15.11), feed facts (R15.12), no attribute value without a name (F30, R15.13).",
    "technique": "rules over decision-tree-flattened transition tables + reviewed normal-form comparison",
}
LEVEL = "other"
EXPLANATION = """
Same rule set as C03/C08 on XmlTokenizer::step / eof_step / helpers / char_ref, extracted by decision-tree
flattening: R15.1 fast-path set completeness (CR, NUL), R15.2 BOM, R15.3 raw push-back, R15.4 pending-CR handling
in eat(), R15.5 suspend-before-effect and temp_buf dataflow, R15.6 option invariance and equality with the reviewed
normal forms.
"""
ASSUMPTIONS = ["ref/xml_tokenizer.json reviewed (snapshot of the code after the fix: commits)", "BufferQueue primitives (C13)"]


def run(ctx):
    ctx.rule("R15.13", "no attribute value without a name (xml5ever): see R16.12")
    from . import tokrules as _tr13
    ctx.guard("R15.13", "value-without-name", lambda: _tr13.no_value_without_name(ctx, "R15.13", "xml"))
    ctx.rule("R15.12", "= R03.17 / R08.7 for xml5ever's feed()")
    from . import tokrules as _tr12
    ctx.guard("R15.12", "feed/xml", lambda: _tr12.feed_facts(ctx, "R15.12", "xml"))
    ctx.rule("R15.11", "= R03.16 for xml5ever, with U+0000 -> U+FFFD also for the character read in place of a skipped LF")
    from . import tokrules as _tr11
    ctx.guard("R15.11", "preprocessing/xml", lambda: _tr11.preprocess_transcription(ctx, "R15.11", "xml"))
    ctx.rule("R15.10", "= R03.15 for xml5ever: end() runs the machine over the queue before eof_step")
    from . import tokrules as _tr10
    ctx.guard("R15.10", "end-runs/xml", lambda: _tr10.end_runs_before_eof(ctx, "R15.10", "xml"))
    ctx.rule("R15.9", "XmlParser::process feeds the tokenizer until it is done: a script suspension does not leave the rest of the chunk queued")
    from . import tokrules as _tr9
    ctx.guard("R15.9", "driver", lambda: _tr9.driver_feeds_until_done(ctx, "R15.9", "xml_driver", "XmlParser<Sink>[TendrilSink<tendril::fmt::UTF8>]::process", "xml5ever driver process"))
    ctx.rule("R15.8", "a run of characters is only appended (R03.10); finish_attribute empties both attribute buffers (R01.7)")
    from . import tokrules as _tr8
    ctx.guard("R15.8", "runs/xml", lambda: _tr8.runs_only_concatenate(ctx, "R15.8", "xml"))
    ctx.guard("R15.8", "attr-buffers/xml", lambda: _tr8.attr_buffers_emptied(ctx, "R15.8", "xml"))
    ctx.rule("R15.7", "the tokenizer takes attribute value characters verbatim (no folding of line breaks or other characters inside a value)")
    from . import tokrules as _trv
    for _w in ('xml',):
        ctx.guard("R15.7", "attr-verbatim/" + _w, lambda _w=_w: _trv.attr_values_kept_verbatim(ctx, "R15.7", _w))
    ctx.rule("R15.1", "every pop_except_from set contains what get_preprocessed_char rewrites (CR, NUL) and what the arm treats specially: fast path == slow path")
    ctx.rule("R15.2", "feed() clears discard_bom after the first character; no other reader")
    ctx.rule("R15.3", "text pushed back by the char-ref code was read raw (peek), never through get_char")
    ctx.rule("R15.4", "ignore_lf cleared only with a known next character; eat() resolves a pending CR before comparing")
    ctx.rule("R15.5", "no effect before a suspension; temp_buf empty where eat() starts")
    ctx.rule("R15.6", "exact_errors/profile change error reports and counters only; all tables equal the reviewed reference")
    ctx.guard("R15.1", "sets", lambda: tr.fastpath_sets(ctx, "R15.1", "xml", 4))
    ctx.guard("R15.2", "bom", lambda: tr.bom_rule(ctx, "R15.2", "xml"))
    ctx.guard("R15.3", "pushback", lambda: tr.pushback_taint(ctx, "R15.3", "xml"))
    ctx.guard("R15.4", "ignore_lf", lambda: tr.ignore_lf_rule(ctx, "R15.4", "xml"))
    ctx.guard("R15.1", "wrapper-gate", lambda: tr.wrapper_fast_path_gate(ctx, "R15.1", "xml"))
    ctx.guard("R15.4", "ignore_lf-consumed", lambda: tr.ignore_lf_consumed_when_seen(ctx, "R15.4", "xml"))
    ctx.guard("R15.5", "suspend", lambda: tr.suspend_before_effect(ctx, "R15.5", "xml"))
    ctx.guard("R15.5", "charref-stuck", lambda: tr.charref_needs_more_input_means_stuck(ctx, "R15.5", "xml"))
    ctx.guard("R15.5", "temp_buf", lambda: tr.temp_buf_dataflow(ctx, "R15.5", "xml"))
    ctx.guard("R15.5", "eat-stash", lambda: tr.eat_drains_queue(ctx, "R15.5", "xml"))
    ctx.guard("R15.6", "options", lambda: tr.option_invariance(ctx, "R15.6", "xml", exempt={"pop_except_from": "selects the character-by-character path; equivalence is R15.1"}))

    def nf():
        T = ctx.tables("xml")
        R = ctx.ref("xml_tokenizer.json")
        for sec, lab in (("step", "state"), ("eof_step", "state"), ("helpers", "fn"), ("charref", "fn")):
            tok_common.compare_section(ctx, "R15.6", "xml", sec, T, R, lab)
        tok_common.not_tabulated(ctx, "R15.6", T, R)
        ctx.floor("R15.6", "states", len(T["states"]), 50)

    ctx.guard("R15.6", "normal-forms", nf)
    ctx.guard("R15.6", "nf-misc", lambda: nf_common.nf_rule(ctx, "R15.6", "xml_tokenizer_misc", floor=6))
