"""placeholder while building: NF of all areas (temporary survey module)"""
from . import nf_common

LEVEL = "other"
MANIFEST = {"not_applicable": "under construction"}


def run(ctx):
    for a in nf_common.AREAS:
        ctx.guard("NF", a, lambda a=a: nf_common.nf_rule(ctx, "NF", a))
