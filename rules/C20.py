"""C20 — RcDom materialises sink operations faithfully (DESIGN 4.C20)."""
import re

from lib import machine as mc
from lib.ast import walk
from lib.flat import show
from lib.mir import AnchorMissing
from . import nf_common, nfq

MANIFEST = {
    "text": 'Pairing and dependence rules on rcdom: every function that mutates a children vector also writes the parent link of the affected children on the same paths (parent link <=> child list); every search loop that stores its candidate tests the candidate (not an unrelated value); text merging precedes node creation; plus equality of every rcdom function (TreeSink impl, Serialize, Drop, helpers) with its reviewed normal form. Child vectors are changed only by order-preserving operations and reparent_children appends (R20.5).',
    "note": 'Decides R20.1-R20.5. Not decided: equality with an abstract DOM for arbitrary call sequences. Also decided: the deep clone feeds its LIFO work list reversed at every site (R20.6). Also decided: append_based_on_parent_node decides on \'has any parent\' only (R20.7). Round 6: selectedcontent search in tree order (R20.10, defect F25 fixed). Round 8: R20.11 the option -> nearest ancestor select walk examines every ancestor, the root-most included. R20.12: append / append_before_sibling / reparent_children as DOM operations (merge target, index, detach, parent, move).',
    "technique": 'pairing / def-use dependence rules over the syntax tree and function normal forms',
}
LEVEL = "other"
EXPLANATION = """
R20.1 parent link <=> child list: mutators of `children` pair with `parent` writes in the same function; R20.2 text
is merged into a preceding Text node before a new node is created (append and append_before_sibling); R20.3 in a
find-first loop the guarding condition depends on the loop's candidate; R20.4 reviewed normal forms of all of
rcdom (36 functions).
R20.5 order-preserving vector operations (MIR callees); reparent_children appends.
"""
ASSUMPTIONS = ["Rc/Weak/RefCell/Vec behave as documented"]
AREA = "rcdom"
MUTATORS = ("push", "insert", "remove", "extend", "retain", "truncate", "clear", "pop", "drain", "swap_remove", "append")


def r20_1(ctx):
    cur = nf_common.area_current(ctx, AREA)
    n = 0
    for key, v in sorted(cur.items()):
        fname = key.rsplit("::", 1)[-1]
        if v["kind"] != "paths":
            continue
        if "[Drop]" in key or fname in ("new", "fmt"):
            continue
        pcs = mc.from_json({key: v["cells"]})[key]
        mutates = False
        bad = None
        for pc in nfq.feasible(pcs):
            acts = pc["actions"]
            muts = [(a, args) for a, args in acts if (re.search(r"\.children\.(%s)$" % "|".join(MUTATORS), a) or a.startswith("assign") and a.endswith(".children"))]
            # a node constructed with a non-empty child list
            built = [x for a, args in acts for x in map(str, args) if re.search(r"children:|Node\(|Self\(", x) and False]
            if not muts:
                continue
            mutates = True
            pw = [a for a, _ in acts if re.search(r"\.parent\.(set|replace|take)$", a)]
            if not pw:
                bad = muts[0][0]
        if mutates:
            n += 1
            ctx.ob("R20.1", "children-mutation-pairs-with-parent-write/" + fname, bad is None,
                   "%s changes a child list on a path that writes no parent link: the affected nodes' parent pointers no longer name the node whose child list contains them" % bad if bad
                   else "every path that changes a child list also writes the parent link of the affected children", "rcdom " + fname)
    # clone: a copied node must not inherit the original's parent link
    it = [x for x in ctx.ast.walkable("markup5ever_rcdom") if x["k"] == "Fn" and x["name"] == "clone_with_subtree" and x.get("body") is not None]
    if it:
        n += 1
        txt = show_body(it[0]["body"])
        copies_parent = bool(re.search(r"parent:Cell::new\(self\.parent\(\)\)|parent:.{0,20}self\.parent", txt))
        ctx.ob("R20.1", "clone-does-not-copy-parent-link/clone_with_subtree", not copies_parent,
               "the clone is constructed with the *original's* parent link: the copy claims a parent whose child list does not contain it" if copies_parent else "clones start without a parent and are linked by whoever inserts them")
    ctx.floor("R20.1", "child-list-mutators", n, 5)


def show_body(body):
    from lib.nf import tree_form

    return tree_form({"sig": {"params": []}, "body": body}).replace(" ", "")


def _deps(expr, env):
    """variable names an expression depends on (through let-bound names)"""
    out = set()

    def f(n):
        if n.get("k") == "Path":
            p = n["path"]
            if p in env:
                out.update(env[p])
            else:
                out.add(p.split("::")[0])

    walk(expr, f)
    return out


def _pat_vars(p, out):
    k = p.get("k")
    if k == "PIdent":
        out.append(p["name"])
    for v in p.values():
        if isinstance(v, dict):
            _pat_vars(v, out)
        elif isinstance(v, list):
            for x in v:
                if isinstance(x, dict):
                    _pat_vars(x, out)


def r20_3(ctx):
    """find-first loops: the condition guarding `result = Some(candidate)` depends on the candidate"""
    n = 0
    for it in ctx.ast.walkable("markup5ever_rcdom"):
        if it["k"] != "Fn" or it.get("body") is None:
            continue
        loops = []

        def f(nd):
            if nd.get("k") in ("While", "For"):
                loops.append(nd)

        walk(it["body"], f)
        for lp in loops:
            cand = []
            if lp["k"] == "While" and lp["cond"].get("k") == "LetCond":
                _pat_vars(lp["cond"]["pat"], cand)
            elif lp["k"] == "For":
                _pat_vars(lp["pat"], cand)
            if not cand:
                continue
            # walk the body in order, tracking let-bound dependencies and the conditions in force
            found = []

            def visit(stmts, env, conds):
                for s in stmts:
                    if s["k"] == "Let" and s.get("init") is not None:
                        vs = []
                        _pat_vars(s["pat"], vs)
                        d = _deps(s["init"], env)
                        for v in vs:
                            env[v] = d
                        if s.get("else") is not None:
                            conds = conds + [d]
                    elif s["k"] == "ExprStmt":
                        ve(s["e"], env, conds)

            def ve(e, env, conds):
                k = e.get("k")
                if k == "If":
                    c = e["cond"]
                    d = _deps(c["e"], env) if c.get("k") == "LetCond" else _deps(c, env)
                    env2 = dict(env)
                    if c.get("k") == "LetCond":
                        vs = []
                        _pat_vars(c["pat"], vs)
                        for v in vs:
                            env2[v] = d
                    visit(e["then"], env2, conds + [d])
                    if e.get("else"):
                        ve(e["else"], dict(env), conds + [d])
                elif k == "Block":
                    visit(e["body"], dict(env), conds)
                elif k == "Match":
                    d = _deps(e["e"], env)
                    for a in e["arms"]:
                        env2 = dict(env)
                        vs = []
                        _pat_vars(a["pat"], vs)
                        for v in vs:
                            env2[v] = d
                        ve(a["body"], env2, conds + [d])
                elif k == "Assign":
                    rd = _deps(e["rhs"], env)
                    if set(cand) & rd and e["rhs"].get("k") == "Call" and show(e["rhs"]["f"]) == "Some":
                        found.append((show(e["lhs"]), conds))
                elif k in ("Return", "Break") and e.get("e") is not None:
                    # the same search written with an early `return Some(candidate)` / `break Some(candidate)`
                    rd = _deps(e["e"], env)
                    if set(cand) & rd and e["e"].get("k") == "Call" and show(e["e"]["f"]) == "Some":
                        found.append(("result", conds))

            visit(lp["body"], {c: {c} for c in cand}, [])
            for lhs, conds in found:
                n += 1
                ok = (not conds) or any(set(cand) & d for d in conds)
                ctx.ob("R20.3", "find-first-tests-its-candidate/%s/%s" % (it["name"], lhs), ok,
                       "the loop stores its candidate into `%s` under conditions that depend only on %s, never on the candidate `%s`: the search tests the same unrelated value on every iteration" % (lhs, sorted(set().union(*conds)), cand[0])
                       if not ok else "the guarding condition depends on the candidate", "rcdom " + it["name"])
    ctx.floor("R20.3", "find-first-loops", n, 1)


def r20_2(ctx):
    for fname in ("[TreeSink]::append", "[TreeSink]::append_before_sibling"):
        key, pcs = nfq.cells(ctx, AREA, "::RcDom" + fname)
        bad = None
        n = 0
        for pc in nfq.feasible(pcs):
            t = nfq.texts(pc)
            creates = [i for i, x in enumerate(t) if "Text(" in x and ("call new(" in x or "new(Text" in x)]
            is_text = any(v and "AppendText" in g for g, v in pc["guards"].items())
            if not (creates and is_text):
                continue
            n += 1
            merges = [i for i, x in enumerate(t) if x.startswith("call append_to_existing_text(")]
            has_prev = any(v and ("last() matches Some" in g) for g, v in pc["guards"].items()) or any((not v) and "matches (AppendText(_),0)" in g for g, v in pc["guards"].items())
            if has_prev and not (merges and merges[0] < creates[0]):
                bad = t
        ctx.ob("R20.2", "text-merge-before-create/" + fname.split("::")[-1], bad is None and n > 0,
               "a Text node is created although a preceding sibling exists and no merge was attempted" if bad else "%d text-creating paths try append_to_existing_text first whenever a previous sibling exists" % n)
    key, pcs = nfq.cells(ctx, AREA, "[TreeSink]::add_attrs_if_missing")
    bad = None
    pushes = 0
    for pc in nfq.feasible(pcs):
        t = nfq.texts(pc)
        if any(x.startswith("panic!") for x in t):
            continue
        names_from_existing = any(re.search(r"\.push\(item\.name\)$|\.insert\(item\.name\)$", x) for x in t) and any(x.startswith("loop-begin for _ in p1.data.attrs.iter()") for x in t)
        for a, args in pc["actions"]:
            if re.search(r"p1\.data\.attrs\)?\.(push|insert)$", a):
                pushes += 1
                guarded = any((not v) and re.search(r"\.contains\(item\.name\)(#\d+)?$", g) for g, v in pc["guards"].items())
                if not (guarded and names_from_existing):
                    bad = "an attribute is added to the element although %s" % ("its name was not tested against the existing names" if not guarded else "the tested set is not the set of the element's existing attribute names")
            elif re.search(r"^(assign|set) p1\.data\.attrs|p1\.data\.attrs\)?\.(clear|remove|retain|truncate|swap|drain)$", a):
                bad = "add_attrs_if_missing changes the element's existing attributes (%s)" % a
    ctx.ob("R20.2", "add_attrs_if_missing-filters-by-name", bad is None and pushes >= 1, bad or "a new attribute is appended only when no existing attribute has its name; existing attributes are never touched")


ORDER_BREAKING = ("swap_remove", "swap", "reverse", "sort", "sort_by", "sort_by_key", "sort_unstable", "sort_unstable_by", "sort_unstable_by_key", "rotate_left", "rotate_right",
                  "dedup", "dedup_by", "dedup_by_key", "swap_remove_back", "swap_remove_front", "select_nth_unstable")


def r20_5(ctx):
    """children order: the vectors of RcDom are mutated only by order-preserving operations; reparenting appends"""
    n = 0
    for f in ctx.mir.by_crate["markup5ever_rcdom"]:
        for bb, c, t in f.calls():
            if c is None:
                continue
            p = c["path"]
            if not ("Vec::<" in p or "VecDeque::<" in p or "slice::<impl [T]>" in p):
                continue
            m = p.rsplit("::", 1)[-1]
            if m in ("iter", "len", "last", "first", "is_empty", "new", "with_capacity", "reserve", "get", "iter_mut"):
                continue
            n += 1
            fname = f.name if f.d["kind"] != "Closure" else f.d.get("closure_of", "").rsplit("::", 1)[-1]
            ok = m not in ORDER_BREAKING
            ctx.ob("R20.5", "vector-op-keeps-order/%s/%s" % (fname, m), ok, "%s keeps the relative order of the remaining elements" % m if ok else
                   "%s calls %s on a node vector: the order of the other children changes, so the tree no longer lists them in document order" % (fname, p), f.where(bb))
    ctx.floor("R20.5", "vector-mutations", n, 8)
    key, pcs = nfq.cells(ctx, AREA, "::reparent_children")
    texts = [t for pc in nfq.feasible(pcs) for t in nfq.texts(pc)]
    appends = [t for t in texts if re.search(r"p2\.children(\.borrow_mut\(\))?\.(extend|append)\(", t)]
    replaces = [t for t in texts if re.search(r"(assign|set) p2\.children|p2\.children\.(replace|set|swap)\(|p2\.children(\.borrow_mut\(\))?\.(clear|truncate|drain)\(", t)]
    ctx.ob("R20.5", "reparent-appends", bool(appends) and not replaces, "the moved children are appended to the new parent's existing children" if appends and not replaces else
           "reparent_children does not append to the new parent's child list (%s): children it already had are lost or reordered" % (replaces[:1] or "no extend/append found"), "markup5ever_rcdom reparent_children")


def r20_6(ctx):
    """deep clone through a work list: the list is consumed from its end (pop), so every place that puts a node's children on it
    must do so in reverse - otherwise the clones are appended to their parent in reverse document order at that level"""
    key, pcs = nfq.cells(ctx, AREA, "::clone_with_subtree")
    bad = None
    feeds = 0
    lifo = fifo = False
    for pc in nfq.feasible(pcs):
        for x in nfq.texts(pc):
            if re.search(r"\.pop\(\)$", x):
                lifo = True
            if re.search(r"\.(pop_front\(\)|remove\(0\))$", x):
                fifo = True
            if x.startswith("loop-begin for _ in") or ".extend(" in x or ".collect" in x:
                feeds += len(re.findall(r"children\.iter\(\)", x))
    # decide once the consumption order is known
    for pc in nfq.feasible(pcs):
        for x in nfq.texts(pc):
            if not (x.startswith("loop-begin for _ in") or ".extend(" in x or ".collect" in x):
                continue
            for m in re.finditer(r"children\.iter\(\)(\.rev\(\))?", x):
                rev = m.group(1) is not None
                if lifo and not fifo and not rev:
                    bad = "children are put on the work list in document order (%s) while the list is consumed from its end: that level of the copy comes out reversed" % x[:110]
                if fifo and not lifo and rev:
                    bad = "children are put on the work list reversed while the list is consumed from its front"
    if not (lifo or fifo):
        raise AnchorMissing("clone_with_subtree: no work list consumption (pop / pop_front) found")
    ctx.ob("R20.6", "deep-clone-preserves-child-order", bad is None and feeds >= 2, bad or "%d feeding sites, all reversed for a list consumed by pop()" % feeds, "rcdom Node::clone_with_subtree")


def r20_7(ctx):
    """append_based_on_parent_node(element, prev_element, child): the child goes before `element` iff `element` has a parent - any
    parent (an element, a document, template contents) - else it is appended to `prev_element`; nothing else decides"""
    key, pcs = nfq.cells(ctx, AREA, "[TreeSink]::append_based_on_parent_node")
    fe = nfq.feasible(pcs)
    bad = None
    seen = set()
    for pc in fe:
        g = pc["guards"]
        other = [k for k in g if not re.fullmatch(r"p1\.parent(\.take\(\)|\.get\(\)|\(\))?( matches Some\(_\))?(#\d+)?|p1\.parent\(\) matches Some\(_\)(#\d+)?", k)]
        has = [v for k, v in g.items() if k not in other]
        names = nfq.names(pc)
        if other:
            bad = "whether the child goes before the element depends on more than the element having a parent: %s" % [k[:70] for k in other][:2]
            continue
        if len(has) != 1:
            bad = "the parent test is not made exactly once on a path"
            continue
        want = "self.append_before_sibling" if has[0] else "self.append"
        seen.add(has[0])
        if [a for a in names if a in ("self.append_before_sibling", "self.append")] != [want]:
            bad = "with has-parent = %s the function calls %s" % (has[0], [a for a in names if a.startswith("self.append")])
    ctx.ob("R20.7", "append_based_on_parent_node-decides-on-parent-only", bad is None and seen == {True, False}, bad or "has a parent -> append_before_sibling(element, child); no parent -> append(prev_element, child)",
           "rcdom RcDom::append_based_on_parent_node")


def r20_8(ctx):
    """append_before_sibling(sibling, text): the text node it may merge into is the one directly BEFORE the sibling - child number
    (index of sibling) - 1 of the sibling's parent - never the sibling itself or anything behind it"""
    key, pcs = nfq.cells(ctx, AREA, "::RcDom[TreeSink]::append_before_sibling")
    k = 0
    bad = None
    for pc in nfq.feasible(pcs):
        for x in nfq.texts(pc):
            m = re.match(r"call append_to_(existing|preceding)_text\((.*),p2\.0\)$", x)
            if not m:
                continue
            k += 1
            tgt = m.group(2)
            idx = r"get_parent_and_index\(p1\)(\.expect\(\"[^\"]*\"\))?\.1"
            ok = re.search(r"\.children\[\(%s - 1\)\]$" % idx, tgt) or re.search(r"\.children\[\.\.%s\]\.last\(\)(\.0)?$" % idx, tgt)
            if not ok:
                bad = "the merge target is %s, not the child directly before the sibling (children[index - 1])" % tgt[-90:]
    ctx.ob("R20.8", "text-merges-into-the-node-before-the-sibling", bad is None and k >= 1, bad or "%d merge attempts, all into children[index of sibling - 1]" % k, "rcdom RcDom::append_before_sibling")


def r20_10(ctx):
    """get_a_selects_enabled_selectedcontent: 'the first selectedcontent element descendant of select in TREE ORDER' - the search
    visits descendants depth first, parents before children, siblings left to right.  With a work list that means: the children
    of the node just taken are put at the end nodes are taken FROM, in an order that makes the first child the next one taken"""
    key, pcs = nfq.cells(ctx, AREA, "::get_a_selects_enabled_selectedcontent")
    bad = None
    n = 0
    for pc in nfq.feasible(pcs):
        acts = [(a, tuple(str(x) for x in args)) for a, args in pc["actions"]]
        names = [a for a, _ in acts]
        takes = [a for a in names if re.search(r"\.(pop_front|pop_back|pop)$", a)]
        if not takes or any(v is False and re.search(r"\.(pop_front|pop_back|pop)\(\) matches Some\(_\)", g) for g, v in pc["guards"].items()):
            continue
        n += 1
        front = takes[0].endswith(".pop_front")
        i0 = names.index(takes[0])
        # how the children of the taken node are added (after the take, inside the loop)
        adds = []
        src_rev = None
        for a, args in acts[i0 + 1:]:
            if a.startswith("loop-begin for _ in ") and ".children" in a:
                src_rev = ".rev()" in a
            elif re.search(r"\.(extend|append)$", a) and args and ".children" in args[0]:
                adds.append(("back", ".rev()" in args[0]))
            elif re.search(r"\.(push_back|push)$", a) and src_rev is not None:
                adds.append(("back", src_rev))
            elif a.endswith(".push_front") and src_rev is not None:
                adds.append(("front", src_rev))
            elif a.endswith(".extend_front") or a.endswith(".prepend"):
                adds.append(("front?", None))
        if not adds:
            bad = "the children of a visited node are not added to the work list"
            continue
        end, rev = adds[0]
        ok = (front and end == "front" and rev is True) or ((not front) and end == "back" and rev is True)
        if not ok:
            how = "level by level (children appended behind the waiting siblings)" if front and end == "back" else "right to left" if rev is False and ((front and end == "front") or (not front and end == "back")) else "in an order that is not tree order"
            bad = "nodes are taken from the %s of the work list and the children of a node are added at the %s%s: descendants are visited %s, so 'the first selectedcontent descendant' is not the first in tree order (a shallow later one wins over a nested earlier one)" % (
                "front" if front else "back", end, " reversed" if rev else "", how)
    ctx.ob("R20.10", "selectedcontent-search-in-tree-order", bad is None and n >= 2, bad or "depth first, parents before children, left to right", "rcdom Node::get_a_selects_enabled_selectedcontent")


def r20_9(ctx):
    """clone_an_option_into_selectedcontent(selectedcontent): 'replace all' - on EVERY path the old children of selectedcontent are
    taken out (and lose their parent link) and the clones of the option's children are put in their place; an option without
    children still empties the target"""
    key, pcs = nfq.cells(ctx, AREA, "::clone_an_option_into_selectedcontent")
    bad = None
    k = 0
    for pc in nfq.feasible(pcs):
        names = nfq.names(pc)
        if "panic!" in names:
            continue
        k += 1
        repl = [a for a in names if a in ("replace p1.children", "take p1.children", "assign p1.children", "set p1.children", "p1.children.replace", "p1.children.take", "p1.children.swap")]
        if not repl:
            bad = "a path (%s) does not replace the children of the target element: stale content survives when the selected option is empty" % [g[:50] for g, v in pc["guards"].items() if v][:2]
        elif not any(x.endswith(".parent.set(None)") for x in nfq.texts(pc)):
            bad = "the removed children keep their parent link"
    ctx.ob("R20.9", "selectedcontent-is-replaced-on-every-path", bad is None and k >= 1, bad or "%d path(s): old children removed (parent := None), clones installed" % k, "rcdom Node::clone_an_option_into_selectedcontent")


def run(ctx):
    ctx.rule("R20.12", "append merges text into the last child only; append_before_sibling detaches, links to the sibling's parent and inserts at the sibling's index; reparent_children takes the old list")
    ctx.guard("R20.12", "mutators", lambda: r20_12(ctx))
    ctx.rule("R20.11", "the option -> nearest ancestor select walk examines every ancestor, the root-most included")
    ctx.guard("R20.11", "ancestor-walk", lambda: r20_11(ctx))
    ctx.rule("R20.10", "the select's selectedcontent is the first such descendant in tree order (depth-first search)")
    ctx.guard("R20.10", "tree-order", lambda: r20_10(ctx))
    ctx.rule("R20.9", "cloning an option into selectedcontent replaces all of the target's children on every path")
    ctx.guard("R20.9", "replace-all", lambda: r20_9(ctx))
    ctx.rule("R20.8", "append_before_sibling merges text only into the node directly before the sibling")
    ctx.guard("R20.8", "merge-target", lambda: r20_8(ctx))
    ctx.rule("R20.7", "append_based_on_parent_node: before the element iff it has any parent, else under the previous element")
    ctx.guard("R20.7", "based-on-parent", lambda: r20_7(ctx))
    ctx.rule("R20.6", "clone_with_subtree: children are fed to the LIFO work list in reverse at every site, so the copy keeps document order at every depth")
    ctx.guard("R20.6", "clone-order", lambda: r20_6(ctx))
    ctx.rule("R20.5", "child vectors are changed only by order-preserving operations; reparent_children appends to the new parent")
    ctx.guard("R20.5", "order", lambda: r20_5(ctx))
    ctx.rule("R20.1", "every function that mutates a children vector writes the parent link of the affected children; a clone does not inherit the original's parent link")
    ctx.rule("R20.2", "text merging precedes Text-node creation; add_attrs_if_missing filters by existing names and never overwrites")
    ctx.rule("R20.3", "in a find-first loop the condition guarding `result = Some(candidate)` depends on the candidate")
    ctx.rule("R20.4", "normal forms of all rcdom functions equal the reviewed reference")
    ctx.guard("R20.1", "pairing", lambda: r20_1(ctx))
    ctx.guard("R20.2", "merge", lambda: r20_2(ctx))
    ctx.guard("R20.3", "search", lambda: r20_3(ctx))
    ctx.guard("R20.4", "nf", lambda: nf_common.nf_rule(ctx, "R20.4", AREA, floor=34))


def r20_11(ctx):
    """the walk from an option up to its nearest ancestor select examines EVERY ancestor, the root-most included: a path that
    leaves the loop because the current ancestor has no parent has looked at that ancestor first (a select that is the root
    of a detached subtree is an ancestor like any other)"""
    key, pcs = nfq.cells(ctx, AREA, "::get_option_element_nearest_ancestor_select")
    bad = None
    n = 0
    for pc in nfq.feasible(pcs):
        g = pc["guards"]
        examined = any(re.search(r"^φ\(.*\)\.data matches Element", k) or re.search(r"\.data matches Element", k) for k in g)
        if examined:
            n += 1
        # the parent of the loop's current node is looked up and found missing (a loop whose variable already IS the next
        # ancestor - `while let Some(current) = next` - tests the variable itself and has examined the node the turn before)
        no_parent = [k for k, v in g.items() if v is False and re.search(r"^φ\(.*\)\.parent\(\).*matches Some\(_\)(#\d+)?$", k)]
        if not no_parent:
            continue
        if not examined:
            bad = "the walk ends at an ancestor without a parent that was never examined (guards %s): a select at the root of a detached subtree is not found" % [k[-60:] for k in g][:2]
    ctx.ob("R20.11", "ancestor-walk-examines-the-root-most-ancestor", bad is None and n >= 1, bad or "%d paths examine an ancestor; none leaves at a parentless ancestor it has not examined" % n, "rcdom Node::get_option_element_nearest_ancestor_select")


def r20_12(ctx):
    """the TreeSink mutators, as the standard's DOM operations:
    append: text is merged only into the parent's LAST child; otherwise the node goes through the one appending primitive.
    append_before_sibling: (parent, i) = the sibling's parent and index; the node is detached from wherever it is, its parent
      link is set to THAT parent and it is inserted at index i exactly (text merges into children[i - 1], R20.8).
    reparent_children: every child's parent link is replaced and the old list is TAKEN (emptied) into the new parent's list."""
    PI = r'get_parent_and_index\(p1\)(\.expect\("[^"]*"\)|\.unwrap\(\))?'
    key, pcs = nfq.cells(ctx, AREA, "[TreeSink]::append_before_sibling")
    bad = None
    n = 0
    for pc in nfq.feasible(pcs):
        t = nfq.texts(pc)
        ins = [x for x in t if re.search(r"children\.insert\(", x)]
        if not ins:
            continue
        n += 1
        m = re.search(r"children\.insert\((.*)\)$", ins[0])
        args = m.group(1) if m else ""
        if not re.match(PI + r"\.1,", args):
            bad = bad or "the node is inserted at %s, not at the sibling's own index" % args[:70]
        node = args.split(",")[-1]
        det = [x for x in t if x.startswith("call remove_from_parent(")]
        if not det or t.index(det[0]) > t.index(ins[0]):
            bad = bad or "the node is inserted without having been detached from its old parent first: it would be in two child lists"
        sets = [x for x in t if re.search(r"(^|\.)set\(Some\(downgrade\(", x) or re.search(r"parent\.(set|replace)\(Some\(downgrade\(", x)]
        if not sets or not re.search(r"downgrade\(" + PI + r"\.0\)", sets[0]):
            bad = bad or "the node's parent link is set to %s, not to the sibling's parent" % (sets[0][-80:] if sets else "nothing")
    ctx.ob("R20.12", "append_before_sibling-inserts-at-the-siblings-index", bad is None and n >= 2, bad or "%d inserting paths: detached, parent := sibling's parent, inserted at the sibling's index" % n, "rcdom append_before_sibling")
    key, pcs = nfq.cells(ctx, AREA, "[TreeSink]::append")
    bad = None
    n = 0
    for pc in nfq.feasible(pcs):
        for x in nfq.texts(pc):
            m = re.match(r"call append_to_existing_text\((.*),p2\.0\)$", x)
            if m:
                n += 1
                if m.group(1) != "p1.children.last().0":
                    bad = "appended text is merged into %s, not into the parent's last child" % m.group(1)
    ctx.ob("R20.12", "append-merges-into-the-last-child", bad is None and n >= 1, bad or "text merges into parent.children.last() only", "rcdom append")
    key, pcs = nfq.cells(ctx, AREA, "[TreeSink]::reparent_children")
    bad = None
    n = 0
    for pc in nfq.feasible(pcs):
        if str(pc["ret"]) == "!":
            continue
        n += 1
        t = " ; ".join(nfq.texts(pc))
        moved = re.search(r"p2\.children\.(extend|append)\((take\(p1\.children\)|p1\.children\.drain\(\.\.\)|p1\.children)\)", t)
        if not moved or (moved.group(1) == "extend" and moved.group(2) == "p1.children"):
            bad = bad or "the children are added to the new parent without being taken out of the old list (%s): they are children of both" % t[-90:]
        if not re.search(r"item\.parent\.(replace|set)\(Some\(downgrade\(p2\)\)\)", t):
            bad = bad or "the children's parent links are not set to the new parent"
    ctx.ob("R20.12", "reparent-children-moves", bad is None and n >= 1, bad or "parent links replaced, old list taken into the new parent's", "rcdom reparent_children")
