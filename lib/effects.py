"""Field-level effect (mod/ref) summaries of the methods of a crate, and a canonical order for the actions of a
normal-form path that is insensitive to swapping two *independent* effects.

Two actions are independent when neither is a barrier (loop marker, panic), neither is unknown, they are not both calls on
the sink / writer / an object outside `self`, they do not touch a common `self` field with at least one write, and neither
uses the other's result.  The canonical form of a path is the lexicographically least linear extension of the dependence
order, so `a(); b.set(..)` and `b.set(..); a()` have the same normal form when `a` does not touch `b`.

Summaries are syntactic: `self.F.get()/borrow()/...` reads F, `self.F.set()/borrow_mut()/take()/...` and assignments write F,
`self.sink.m()` / `self.writer.m()` are ordered external effects, `self.m()` imports m's summary (methods are looked up by
name among the methods of the same self type), anything else that receives `self` is unknown.
"""
import re

READ_METHODS = {"get", "borrow", "len", "is_empty", "iter", "last", "first", "clone", "as_ref", "as_deref", "is_some", "is_none", "contains", "peek", "front", "to_owned", "get_ref",
                "as_slice", "as_bytes", "as_str", "eq", "ne", "cloned", "copied"}
EXTERNAL_FIELDS = {"sink", "writer", "inner_sink", "tokenizer", "input_buffer", "inner"}
BARRIER = re.compile(r"^(loop-begin|loop-end|panic!)")
FIELD_IN_TEXT = re.compile(r"\bself\.([a-z_][a-z_0-9]*)")


class Summary:
    __slots__ = ("r", "w", "ext", "unknown", "calls")

    def __init__(self):
        self.r, self.w, self.ext, self.unknown, self.calls = set(), set(), False, False, set()


def _walk(n, f, parents=()):
    if isinstance(n, dict):
        if "k" in n:
            f(n, parents)
            parents = parents + (n,)
        for v in n.values():
            if isinstance(v, (dict, list)):
                _walk(v, f, parents)
    elif isinstance(n, list):
        for v in n:
            _walk(v, f, parents)


def _is_self(n):
    return isinstance(n, dict) and n.get("k") == "Path" and n.get("path") == "self"


def _self_field(n):
    """Field(self, F) possibly under Ref/Unary/Paren -> F"""
    while isinstance(n, dict) and n.get("k") in ("Ref", "Paren", "Unary") and "e" in n:
        n = n["e"]
    if isinstance(n, dict) and n.get("k") == "Field" and _is_self(n.get("e")):
        return n.get("name")
    return None


def direct_summary(item):
    s = Summary()

    def f(n, parents):
        k = n.get("k")
        if k == "MethodCall":
            recv = n.get("recv")
            fld = _self_field(recv)
            if fld is not None:
                if fld in EXTERNAL_FIELDS:
                    s.ext = True
                elif n["m"] in READ_METHODS:
                    s.r.add(fld)
                else:
                    s.w.add(fld)
                    s.r.add(fld)
            elif _is_self(recv):
                s.calls.add(n["m"])
        elif k == "Call":
            p = (n.get("f") or {}).get("path", "")
            if p.startswith("Self::") or p.startswith("self::"):
                s.calls.add(p.split("::")[-1])
            if any(_is_self(a) or (isinstance(a, dict) and a.get("k") == "Ref" and _is_self(a.get("e"))) for a in n.get("args", [])):
                if not p.startswith("Self::"):
                    s.unknown = True
        elif k == "Assign" or (k == "Binary" and str(n.get("op", "")).endswith("=") and n.get("op") not in ("==", "<=", ">=", "!=")):
            fld = _self_field(n.get("lhs") or n.get("l") or {})
            if fld is not None:
                s.w.add(fld)
        elif k == "Field" and _is_self(n.get("e")):
            par = parents[-1] if parents else None
            if not (par is not None and par.get("k") == "MethodCall" and par.get("recv") is n):
                if n.get("name") in EXTERNAL_FIELDS:
                    s.ext = True
                else:
                    s.r.add(n.get("name"))
        elif k in ("Macro", "MacroCall"):
            for m in FIELD_IN_TEXT.finditer(str(n)):
                if m.group(1) in EXTERNAL_FIELDS:
                    s.ext = True
                else:
                    s.r.add(m.group(1))
    _walk(item["body"], f)
    return s


def summaries(items):
    """(self type base name, method name) -> Summary, transitively closed"""
    direct = {}
    for it in items:
        if it.get("k") == "Fn" and it.get("body") is not None:
            st = (it.get("self_ty") or "").replace(" ", "").split("<")[0]
            direct.setdefault((st, it["name"]), direct_summary(it))
    changed = True
    rounds = 0
    while changed and rounds < 30:
        changed = False
        rounds += 1
        for (st, name), s in direct.items():
            for c in list(s.calls):
                t = direct.get((st, c))
                if t is None:
                    if not s.unknown:
                        s.unknown = True
                        changed = True
                    continue
                before = (len(s.r), len(s.w), s.ext, s.unknown)
                s.r |= t.r
                s.w |= t.w
                s.ext = s.ext or t.ext
                s.unknown = s.unknown or t.unknown
                if before != (len(s.r), len(s.w), s.ext, s.unknown):
                    changed = True
    return direct


def classify(action, self_ty, summ):
    """-> dict(r, w, ext, unknown, barrier)"""
    name, args = action[0], [str(x) for x in action[1]]
    out = {"r": set(), "w": set(), "ext": False, "unknown": False, "barrier": False}
    argtxt = " ".join(args)
    for m in FIELD_IN_TEXT.finditer(argtxt):
        if m.group(1) in EXTERNAL_FIELDS:
            out["ext"] = True
        else:
            out["r"].add(m.group(1))
    if BARRIER.match(name):
        out["barrier"] = True
        return out
    m = re.fullmatch(r"(set|assign) self\.([a-z_0-9]+)(\..*)?", name)
    if m:
        out["w"].add(m.group(2))
        return out
    m = re.fullmatch(r"self\.([a-z_0-9]+)\.([A-Za-z_0-9]+)", name)
    if m:
        if m.group(1) in EXTERNAL_FIELDS:
            out["ext"] = True
        elif m.group(2) in READ_METHODS:
            out["r"].add(m.group(1))
        else:
            out["w"].add(m.group(1))
            out["r"].add(m.group(1))
        return out
    m = re.fullmatch(r"self\.([a-z_0-9]+)", name)
    if m:
        s = summ.get((self_ty, m.group(1)))
        if s is None:
            out["unknown"] = True
        else:
            out["r"] |= s.r
            out["w"] |= s.w
            out["ext"] = out["ext"] or s.ext
            out["unknown"] = s.unknown
        return out
    if name.startswith("call "):
        if "self" in argtxt and FIELD_IN_TEXT.search(argtxt) is None:
            out["unknown"] = True
        return out
    if name.startswith("self."):
        # deeper paths (self.a.b.c.m): a write to the first field
        f0 = name.split(".")[1]
        if f0 in EXTERNAL_FIELDS:
            out["ext"] = True
        else:
            out["w"].add(f0)
            out["r"].add(f0)
        return out
    # effects on parameters, locals, loop items: ordered among themselves
    out["ext"] = True
    return out


def dependent(a, ca, b, cb):
    if ca["barrier"] or cb["barrier"] or ca["unknown"] or cb["unknown"]:
        return True
    if ca["ext"] and cb["ext"]:
        return True
    if ca["w"] & (cb["r"] | cb["w"]) or cb["w"] & ca["r"]:
        return True
    ta = a[0] + "("
    tb = b[0] + "("
    if any(ta in str(x) for x in b[1]) or any(tb in str(x) for x in a[1]):
        return True
    if a[0] == b[0]:
        return True
    return False


def canonical_order(actions, self_ty, summ):
    acts = list(actions)
    n = len(acts)
    if n < 2:
        return tuple(acts)
    cls = [classify(a, self_ty, summ) for a in acts]
    preds = [set() for _ in range(n)]
    for j in range(n):
        for i in range(j):
            if dependent(acts[i], cls[i], acts[j], cls[j]):
                preds[j].add(i)
    done = []
    emitted = set()
    remaining = set(range(n))
    while remaining:
        avail = [i for i in remaining if preds[i] <= emitted]
        pick = min(avail, key=lambda i: (acts[i][0], tuple(str(x) for x in acts[i][1]), i))
        done.append(acts[pick])
        emitted.add(pick)
        remaining.discard(pick)
    return tuple(done)
