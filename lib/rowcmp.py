"""Compare the rows of TreeBuilder::step (normal form extracted from the source) with the transcription of the standard's
insertion-mode rows in ref/whatwg_rows.py: for every (insertion mode, token class) and every valuation of the conditions
either side tests, the sequence of steps must be the same.

Code paths are translated into the standard's vocabulary by ACTIONS (one helper call = one step of the standard), a few
MACROS (regions that implement one multi-step paragraph: the li/dd loop, the script element set-up, pending table text,
"process with the head element on the stack", template insertion) and GUARDS (guard label -> condition of the standard).
A guard or action that has no translation is reported: the table has to be extended deliberately.
Parse errors are not compared (C02 is about the tree).
"""
import importlib.util
import itertools
import os
import re

from . import dispatchcmp as dc

ROOT = os.path.dirname(os.path.dirname(os.path.abspath(__file__)))


def load_rows():
    spec = importlib.util.spec_from_file_location("whatwg_rows", os.path.join(ROOT, "ref", "whatwg_rows.py"))
    m = importlib.util.module_from_spec(spec)
    spec.loader.exec_module(m)
    return m


# ------------------------------------------------------------------ conditions
COND_DEFS = {
    "body-start-ignorable": "!has-body-elem | stack-has-one-element | template-on-stack",
    "frameset-ignorable": "!frameset-ok | !has-body-elem",
    "form-pointer-set-and-no-template": "form-pointer-set & !template-on-stack",
    "template-on-stack-or-form-pointer-set": "template-on-stack | form-pointer-set",
    "current-node:rtc-or-ruby": "current-node:rtc | current-node:ruby",
    "current-node-is-root-html": "stack-has-one-element",
    "not-fragment-and-current-not-frameset": "!fragment & !current-node:frameset",
    "template-modes-nonempty": "!template-modes-empty",
}

GUARDS = [
    (r"self\.quirks_mode\.get\(\) matches Quirks", "quirks-mode"),
    (r"self\.opts\.iframe_srcdoc", "iframe-srcdoc"),
    (r"self\.opts\.scripting_enabled", "scripting"),
    (r"self\.in_html_elem_named\(atom:template\)", "template-on-stack"),
    (r"self\.template_modes\.is_empty\(\)", "template-modes-empty"),
    (r"self\.is_fragment\(\)", "fragment"),
    (r"self\.current_node_named\(atom:([\w-]+)\)", r"current-node:\1"),
    (r"self\.current_node_named\(p2\.0\.name\)", "current-node:token"),
    (r"self\.current_node_in\(heading_tag\)", "current-node:heading"),
    (r"self\.in_scope_named\(button_scope,atom:p\)", "p-in-button-scope"),
    (r"self\.in_scope_named\(default_scope,atom:([\w-]+)\)", r"\1-in-scope"),
    (r"self\.in_scope_named\(default_scope,p2\.0\.name\)", "token-name-in-scope"),
    (r"self\.in_scope_named\(list_item_scope,p2\.0\.name\)", "token-name-in-list-item-scope"),
    (r"self\.in_scope_named\(table_scope,atom:([\w-]+)\)", r"\1-in-table-scope"),
    (r"self\.in_scope_named\(table_scope,p2\.0\.name\)", "token-name-in-table-scope"),
    (r"self\.in_scope\(default_scope,\|\.\.\|\{self\.elem_in\(a1,heading_tag\).*", "heading-in-scope"),
    (r"self\.in_scope\(table_scope,\|\.\.\|\{self\.elem_in\(a1,td_th\).*", "td-or-th-in-table-scope"),
    (r"self\.in_scope\(table_scope,\|\.\.\|\{self\.elem_in\(a1,table_outer\).*", "tbody-thead-tfoot-in-table-scope"),
    (r"self\.is_type_hidden\(p2\.0\)", "input-type-hidden"),
    (r"self\.form_elem matches Some\(_\)", "form-pointer-set"),
    (r"self\.form_elem\.take\(\) matches Some\(_\)", "form-pointer-set"),
    (r"self\.in_scope\(default_scope,\|\.\.\|\{self\.sink\.same_node\(self\.form_elem\.take\(\)\.0,a1\).*", "form-node-in-scope"),
    (r"self\.frameset_ok\.get\(\)", "frameset-ok"),
    (r"self\.body_elem\(\)(\.(cloned\(\)|map\(\|\.\.\|\{a1\}\)))? matches Some\(_\)", "has-body-elem"),
    (r"self\.open_elems\.len\(\) matches 1", "stack-has-one-element"),
]
# guards that belong to a macro region / are decided by the token class and are not conditions of the row
DROP_GUARDS = [
    r"any_not_whitespace\(p2\.1\)", r"empty_set\(", r"loop\(", r"self\.sink\.elem_name\(item\)", r"special_tag\(", r"self\.pending_table_text", r"self\.foster_parent_in_body\(Characters",
    r"p2\.0\.get_attribute\(", r"extract_a_character_encoding_from_a_meta_element\(", r"self\.should_attach_declarative_shadow", r"self\.attach_declarative_shadow",
    r"self\.sink\.same_node\(self\.current_node\(\),self\.form_elem\.take\(\)\.0\)",  # only decides a parse error
]


def map_guard(label):
    lab = re.sub(r"#\d+$", "", label)
    for pat in DROP_GUARDS:
        if re.match(pat, lab):
            return "drop"
    for pat, name in GUARDS:
        m = re.fullmatch(pat, lab)
        if m:
            return m.expand(name)
    return None


def eval_formula(f, val):
    """formula over atoms with ! & | (no parentheses; | binds weaker than &)"""
    def atom(a):
        a = a.strip()
        neg = a.startswith("!")
        if neg:
            a = a[1:].strip()
        v = cond_value(a, val)
        return (not v) if neg else v
    return any(all(atom(x) for x in part.split("&")) for part in f.split("|"))


def cond_value(name, val):
    if name in COND_DEFS:
        return eval_formula(COND_DEFS[name], val)
    return val[name]


def cond_atoms(name):
    name = name.lstrip("!")
    if name in COND_DEFS:
        out = set()
        for part in re.split(r"[|&]", COND_DEFS[name]):
            out |= cond_atoms(part.strip())
        return out
    return {name}


# ------------------------------------------------------------------ spec side
SPEC_EXPAND = {
    "insert-void": ["insert-pop", "ack"],
    "ignore": [],
    "err": [],
    "to-original": ["pop", "mode:original"],
    "script-end": ["pop", "mode:original", "script"],
    "insert-rcdata-textarea": ["ignore-lf", "frameset-ok=no", "raw:rcdata"],
}
UNORDERED = ("head=", "form=", "form=null", "frameset-ok=no", "ignore-lf")


def body_atoms(body):
    out = set()
    for st in body:
        if st == "close-p":
            out.add("p-in-button-scope")
        if isinstance(st, tuple):
            out |= cond_atoms(st[1])
            out |= body_atoms(st[2])
            if len(st) > 3:
                out |= body_atoms(st[3])
    return out


def run_body(body, val):
    out = []
    for st in body:
        if st == "close-p":
            # "if the stack of open elements has a p element in button scope, then close a p element"
            st = ("if", "p-in-button-scope", ["close-p!"])
        if isinstance(st, tuple):
            c = st[1]
            v = cond_value(c.lstrip("!"), val)
            if c.startswith("!"):
                v = not v
            out += run_body(st[2] if v else (st[3] if len(st) > 3 else []), val)
        else:
            out += SPEC_EXPAND.get(st, [st])
    return out


# ------------------------------------------------------------------ code side
QUERY = re.compile(r"self\.(debug_step|in_scope|in_scope_named|current_node|current_node_named|current_node_in|in_html_elem_named|is_fragment|is_type_hidden|html_elem_named|body_elem|"
                   r"should_attach_declarative_shadow|orig_mode\.take|reset_insertion_mode)$|call (empty_set|special_tag|any_not_whitespace|current_node|html_elem|extract_a_character_encoding_from_a_meta_element)$|"
                   r"self\.sink\.(elem_name|same_node)$|self\.pending_table_text\.take(\(\)\.into_iter)?$")


class Untranslated(Exception):
    pass


PURE_SUMM = None  # effect summaries of html5ever (set by compare): a helper without writes / external effects is not a step


def _is_pure_helper(a):
    m = re.fullmatch(r"self\.([a-z_0-9]+)", a)
    if not m or PURE_SUMM is None:
        return False
    s = PURE_SUMM.get(("TreeBuilder", m.group(1)))
    return s is not None and not s.w and not s.ext and not s.unknown


def translate(cell, mode, tok):
    """-> (steps, extra markers)"""
    acts = [(a[0], [str(x) for x in a[1]]) for a in cell["actions"]]
    names = [a for a, _ in acts]
    ret = str(cell["ret"])
    steps = []
    i = 0
    n = len(acts)
    # macro: script element set-up
    script = any(a == "self.to_raw_text_mode" for a in names)
    while i < n:
        a, args = acts[i]
        i += 1
        if QUERY.match(a):
            continue
        if a in ("self.unexpected", "self.sink.parse_error"):
            continue
        if a.startswith("loop-begin for _ in self.open_elems.iter().rev()"):
            # the li / dd-dt loop: up to loop-end, plus the implied-end / pop-until on the loop result
            while i < n and not acts[i][0].startswith("loop-end"):
                i += 1
            i += 1
            while i < n and acts[i][0] in ("self.generate_implied_end_except", "self.expect_to_close") and acts[i][1] and (acts[i][1][0].startswith("loop(") or "(item)" in acts[i][1][0]):
                i += 1
            steps.append("close-item-loop")
            continue
        if a.startswith("loop-begin for _ in self.pending_table_text"):
            while i < n and not acts[i][0].startswith("loop-end"):
                i += 1
            i += 1
            if "flush-pending" not in steps:
                steps.append("flush-pending")
            continue
        if a.startswith("loop-end"):
            continue
        if script and a in ("call create_element_with_flags", "self.insert_appropriately", "self.open_elems.push", "self.sink.mark_script_already_started"):
            continue
        if a == "self.to_raw_text_mode" and args == ["ScriptData"]:
            steps.append("raw:script")
        elif a == "self.insert_element_for":
            steps.append("insert")
        elif a == "self.insert_and_pop_element_for":
            steps.append("insert-pop")
        elif a == "self.insert_phantom":
            steps.append("insert:" + args[0].replace("atom:", ""))
        elif a == "self.create_root":
            steps.append("create-root")
        elif a == "assign self.head_elem":
            steps.append("head=")
        elif a == "assign self.form_elem":
            steps.append("form=")
        elif a == "self.form_elem.take":
            steps.append("form=null")
        elif a == "set self.frameset_ok" and args == ["false"]:
            steps.append("frameset-ok=no")
        elif a == "set self.ignore_lf" and args == ["true"]:
            steps.append("ignore-lf")
        elif a == "set self.mode":
            if "orig_mode" in args[0]:
                steps.append("mode:original")
            elif "reset_insertion_mode" in args[0]:
                steps.append("reset-mode")
            else:
                steps.append("mode:" + args[0])
        elif a == "self.step":
            if len(args) == 2 and args[1] == "p2":
                steps.append("using:" + args[0])
            elif args[0] == "InBody" and "StartTag" in args[1]:
                # "drop the attributes from the token and act as described in the next entry": the re-dispatched start tag is the
                # end tag token with kind := StartTag AND attrs := empty
                if re.search(r"Tag\{attrs:new\(\),kind:StartTag,\.\.", args[1]):
                    steps.append("as-br-start")
                else:
                    steps.append("as-br-start-keeping-attributes")
            elif args[0] == "InBody" and "atom:img" in args[1]:
                steps.append("as-img-start")
            else:
                raise Untranslated("self.step(%s)" % ",".join(args))
        elif a == "self.close_p_element_in_button_scope":
            steps.append("close-p")
        elif a == "self.close_p_element":
            steps.append("close-p!")
        elif a == "self.reconstruct_active_formatting_elements":
            steps.append("reconstruct")
        elif a == "self.pop":
            steps.append("pop")
        elif a == "self.assert_named":
            continue
        elif a in ("self.expect_to_close", "self.pop_until_named"):
            steps.append("pop-until:" + ("token" if args[0] == "p2.0.name" else args[0].replace("atom:", "")))
        elif a == "self.pop_until" and args == ["heading_tag"]:
            steps.append("pop-until-heading")
        elif a == "self.generate_implied_end_tags":
            steps.append("implied" if args == ["cursory_implied_end"] else "implied-thorough" if args == ["thorough_implied_end"] else "implied?" + args[0])
        elif a == "self.generate_implied_end_except":
            steps.append("implied-except:" + ("token" if args[0] == "p2.0.name" else args[0].replace("atom:", "")))
        elif a == "self.active_formatting.push" and args == ["Marker"]:
            steps.append("push-marker")
        elif a == "self.clear_active_formatting_to_marker":
            steps.append("clear-to-marker")
        elif a == "self.create_formatting_element_for":
            steps.append("push-formatting")
        elif a == "self.adoption_agency":
            steps.append("adoption")
        elif a == "self.handle_misnested_a_tags":
            steps.append("a-misnested")
        elif a == "self.parse_raw_data":
            steps.append("raw:" + args[1].lower())
        elif a == "self.stop_parsing":
            steps.append("stop")
        elif a == "self.check_body_end":
            steps.append("check-body-end")
        elif a == "self.enter_foreign":
            steps.append("foreign:" + ("mathml" if "MathML" in args[1] else "svg" if "svg" in args[1] else args[1]))
        elif a == "self.pop_until_current":
            steps.append({"table_scope": "clear-stack:table", "table_body_context": "clear-stack:tbody", "table_row_context": "clear-stack:row"}.get(args[0], "clear-stack?" + args[0]))
        elif a == "self.close_the_cell":
            steps.append("close-cell")
        elif a == "self.template_modes.push":
            steps.append("push-tmode:" + args[0])
        elif a == "self.template_modes.pop":
            steps.append("pop-tmode")
        elif a == "self.set_quirks_mode" and args == ["Quirks"]:
            steps.append("quirks")
        elif a == "self.foster_parent_in_body":
            steps.append("foster:in-body")
        elif a == "self.sink.add_attrs_if_missing":
            steps.append("add-attrs:html" if "html_elem" in args[0] else "add-attrs:body" if "body_elem" in args[0] else "add-attrs?")
        elif a == "self.sink.remove_from_parent" and "body_elem" in args[0]:
            steps.append("replace-body")
        elif a == "self.open_elems.truncate" and args == ["1"]:
            continue  # second half of replace-body
        elif a == "self.pending_table_text.push":
            steps.append("pending-chars")
        elif a == "self.process_chars_in_table":
            steps.append("table-text-or-else")
        elif a == "self.process_end_tag_in_body":
            steps.append("any-other-end")
        elif a == "self.push" and "head_elem" in args[0]:
            steps.append("push-head")
        elif a == "self.remove_from_stack" and "head_elem" in args[0]:
            steps.append("remove-head")
        elif a == "self.remove_from_stack" and "form_elem" in args[0]:
            steps.append("remove-form")
        elif a == "self.append_text":
            steps.append("char")
        elif a == "self.append_comment":
            steps.append("comment")
        elif a == "self.append_comment_to_doc":
            steps.append("comment:doc")
        elif a == "self.append_comment_to_html":
            steps.append("comment:html")
        elif a == "self.sink.mark_script_already_started":
            steps.append("script-already-started")
        elif a in ("self.insert_foreign_element", "self.attach_declarative_shadow"):
            if "insert-template" not in steps:
                steps.append("insert-template")
        elif a == "self.sink.maybe_clone_an_option_into_selectedcontent":
            steps.append("clone-option")
        elif a == "panic!":
            return None
        elif _is_pure_helper(a):
            continue
        else:
            raise Untranslated("%s(%s)" % (a, ",".join(args))[:120])
    # results
    m = re.match(r"Reprocess\((.*?),(p2|Tag\(p2\.0\))\)$", ret)
    if m:
        t = m.group(1)
        steps.append("reprocess:original" if "orig_mode" in t else "reset-mode-reprocess" if "reset_insertion_mode" in t else "reprocess:" + t)
    elif ret == "DoneAckSelfClosing":
        steps.append("ack")
    elif ret == "ToPlaintext":
        steps.append("plaintext")
    elif ret.startswith("Script("):
        steps.append("script")
    elif ret.startswith("EncodingIndicator("):
        steps += ["ack", "meta-encoding!"]
    elif ret.startswith("SplitWhitespace("):
        return None
    elif ret == "!":
        return None
    # macros over the translated steps
    s2 = []
    j = 0
    while j < len(steps):
        if steps[j:j + 3] == ["push-head", "using:InHead", "remove-head"]:
            s2.append("with-head")
            j += 3
        else:
            s2.append(steps[j])
            j += 1
    steps = s2
    if mode == "InHead" and tok == "S:template":
        # the template element is inserted either plainly or through the declarative-shadow-root steps
        steps = ["insert-template" if x in ("insert", "pop") else x for x in steps]
        out = []
        for x in steps:
            if not (x == "insert-template" and out and out[-1] == "insert-template"):
                out.append(x)
        steps = out
    if mode == "InHead" and tok == "S:meta":
        steps = [x for x in steps if x != "meta-encoding!"] + ["meta-encoding"]
    return steps


def canon(steps):
    """order-insensitive markers are moved to the end, sorted; 'insert' directly followed by 'pop' is 'insert-pop';
    resetting the insertion mode twice in a row is resetting it once"""
    seq = []
    for s in steps:
        if s in UNORDERED:
            continue
        if s == "pop" and seq and seq[-1] == "insert":
            seq[-1] = "insert-pop"
        elif s == "reset-mode-reprocess" and seq and seq[-1] == "reset-mode":
            seq[-1] = s
        else:
            seq.append(s)
    return tuple(seq), tuple(sorted(s for s in steps if s in UNORDERED))


# ------------------------------------------------------------------ token classes
def token_kinds(tok):
    if tok.startswith("S:"):
        return "StartTag", (dc.FRESH if tok == "S:*" else tok[2:])
    if tok.startswith("E:"):
        return "EndTag", (dc.FRESH if tok == "E:*" else tok[2:])
    return {"ws": "Characters(Whitespace)", "chars": "Characters(NotWhitespace)", "null": "NullCharacter", "comment": "Comment", "eof": "Eof"}[tok], ""


def code_paths(cells, mode, tok, report_unmapped):
    kind, name = token_kinds(tok)
    out = []
    for c in cells:
        ok = True
        conds = {}
        for g, v in c["guards"].items():
            if g.startswith("p1 matches "):
                if (mode in [a.strip() for a in g[len("p1 matches "):].split("|")]) != v:
                    ok = False
                    break
                continue
            lab = re.sub(r"#\d+$", "", g)
            if lab == "any_not_whitespace(p2.1)":
                want = tok == "chars"
                if tok in ("ws", "chars") and v != want:
                    ok = False
                    break
                continue
            d = dc.decide(g, mode, kind, name)
            if d is not None:
                if d != v:
                    ok = False
                    break
                continue
            mg = map_guard(g)
            if mg is None:
                report_unmapped(g)
                continue
            if mg == "drop":
                continue
            neg = mg.startswith("!")
            cname = mg.lstrip("!")
            val = (not v) if neg else v
            if cname in conds and conds[cname] != val:
                ok = False  # the same condition tested twice with different answers: infeasible
                break
            conds[cname] = val
        if ok:
            out.append((conds, c))
    return out


def compare(cells, modes_in_code, report_ok, report_bad, notes=None, summaries=None, only_modes=None, extra_tokens=None):
    global PURE_SUMM
    PURE_SUMM = summaries
    spec = load_rows()
    n = 0
    unmapped = set()
    names_in_code = dc.names_in(cells)
    for mode in sorted(spec.ROWS):
        restrict = None
        if only_modes is not None and mode not in only_modes:
            if not extra_tokens:
                continue
            restrict = set(extra_tokens)  # of the other modes only these token classes
        if mode not in modes_in_code:
            report_bad("mode:" + mode, "mode-missing", "insertion mode %s of the standard does not exist in the code" % mode)
            continue
        skip = set(spec.NOT_TRANSCRIBED.get(mode, []))
        seen_tokens = set()
        rows = spec.ROWS[mode]
        listed = set()
        for toks, body in rows:
            listed |= set(toks)
        for toks, body in rows:
            expanded = []
            for t in toks:
                if t == "*":
                    for cand in ["S:*", "E:*", "ws", "chars", "null", "comment", "eof"]:
                        if cand not in listed:
                            expanded.append(cand)
                else:
                    expanded.append(t)
            for tok in expanded:
                if tok in skip or (mode, tok) in seen_tokens:
                    continue
                if restrict is not None and tok not in restrict:
                    continue
                seen_tokens.add((mode, tok))
                key = "row:%s/%s" % (mode, tok)
                if mode == "Text" and tok.startswith("S:"):
                    continue
                try:
                    cps = code_paths(cells, mode, tok, unmapped.add)
                    trans = []
                    for conds, c in cps:
                        st = translate(c, mode, tok)
                        if st is None:
                            continue
                        if "close-p" in st and "p-in-button-scope" not in conds:
                            # the helper close_p_element_in_button_scope = the conditional paragraph of the standard
                            trans.append((dict(conds, **{"p-in-button-scope": True}), canon(["close-p!" if x == "close-p" else x for x in st])))
                            trans.append((dict(conds, **{"p-in-button-scope": False}), canon([x for x in st if x != "close-p"])))
                        else:
                            trans.append((conds, canon(st)))
                except Untranslated as e:
                    report_bad(key, "untranslated", "code action %s has no counterpart in the vocabulary of the standard's steps (extend lib/rowcmp.py deliberately)" % e)
                    continue
                except ValueError as e:
                    report_bad(key, "undecided", str(e))
                    continue
                if not trans:
                    if tok in ("ws", "chars", "null") and mode in ("Text",) and tok == "null":
                        continue
                    report_bad(key, "no-handling", "no path of step handles %s in mode %s" % (tok, mode))
                    continue
                atoms = sorted(body_atoms(body) | {k for conds, _ in trans for k in conds})
                if len(atoms) > 12:
                    report_bad(key, "too-many-conditions", "more than 12 conditions: %s" % atoms)
                    continue
                bad = None
                compared = 0
                for bits in itertools.product([False, True], repeat=len(atoms)):
                    val = dict(zip(atoms, bits))
                    got = {t for conds, t in trans if all(val[k] == v for k, v in conds.items())}
                    if not got:
                        continue  # the code cannot be in this situation (correlated tests)
                    want = canon(run_body(body, val))
                    compared += 1
                    n += 1
                    if got != {want} and got == {((), ())} and len(want[0]) == 1 and want[0][0].startswith("using:") and not want[1]:
                        # "process using the rules for M" where M's row for this token is "ignore the token"
                        tm = want[0][0][len("using:"):]
                        tb = [b for ts, b in spec.ROWS.get(tm, []) if tok in ts]
                        if tb and not body_atoms(tb[0]) and canon(run_body(tb[0], {})) == ((), ()):
                            continue
                    if got != {want}:
                        g1 = sorted(got)[0]
                        bad = "when %s: the standard does [%s]%s, the code does [%s]%s%s" % (
                            ", ".join("%s=%s" % (k, "yes" if v else "no") for k, v in val.items()) or "always",
                            " ; ".join(want[0]), (" + {" + ",".join(want[1]) + "}") if want[1] else "", " ; ".join(g1[0]), (" + {" + ",".join(g1[1]) + "}") if g1[1] else "",
                            " (and %d other variants)" % (len(got) - 1) if len(got) > 1 else "")
                        break
                if bad:
                    report_bad(key, "row-differs", "%s, %s: %s" % (mode, tok, bad))
                elif compared == 0:
                    report_bad(key, "no-comparable-situation", "no valuation of %s is possible in the code" % atoms)
                else:
                    report_ok(key, "%d situation(s) over %s: same steps as the standard" % (compared, atoms or "no conditions"))
    for g in sorted(unmapped):
        report_bad("guard:" + g[:100], "unmapped-guard", "guard '%s' of TreeBuilder::step has no counterpart among the standard's conditions (extend lib/rowcmp.py deliberately)" % g[:200])
    return n
