"""Fact extraction and caching.

ensure_facts() returns a directory holding, for the *current* working tree of
/repo, per workspace library crate:
  <crate>.expanded.rs   macro-expanded source (rustc -Zunpretty=expanded, build's own flags)
  <crate>.mir.json      MIR facts written by engines/hx-mir (rustc_private driver)
  <crate>.ast.json      syn AST of the expanded source (engines/hx-ast)
  raw/<path>.json       syn AST of selected raw source files (cfg-blind view)
The directory is keyed by a content hash of /repo's sources and of the engines,
so any edit to /repo triggers a full re-extraction.
"""
import fcntl
import hashlib
import json
import os
import shutil
import subprocess
import sys
import time

VERIF = os.path.dirname(os.path.dirname(os.path.abspath(__file__)))
REPO = os.environ.get("HX_REPO", "/repo")
WORK = os.environ.get("HX_WORK") or os.path.join(VERIF, ".work")  # HX_WORK / HX_REPO: used by tools/seedsweep.py to analyse scratch copies in parallel
# optional features that add or change library code (serde only derives impls on atoms)
ALL_FEATURES = "tendril/encoding_rs html5ever/trace_tokenizer xml5ever/trace_tokenizer"
CRATES = ["html5ever", "xml5ever", "markup5ever", "tendril", "markup5ever_rcdom", "web_atoms"]
MEMBER_PKGS = ["html5ever", "xml5ever", "markup5ever", "tendril", "markup5ever_rcdom", "markup5ever-rcdom", "web_atoms"]
HX_MIR = os.path.join(VERIF, "engines/hx-mir/target/debug/hx-mir")
HX_AST = os.path.join(VERIF, "engines/hx-ast/target/debug/hx-ast")

# raw (cfg-blind) files: parsed with syn without expansion, so that code the host
# configuration compiles out is still seen
RAW_FILES = [
    "html5ever/src/tokenizer/mod.rs",
    "xml5ever/src/tokenizer/mod.rs",
    "web_atoms/build.rs",
    "web_atoms/entities.rs",
    "tendril/src/tendril.rs",
]


def _iter_source_files(root):
    for dp, dns, fns in os.walk(root):
        dns[:] = sorted(d for d in dns if d not in ("target", ".git"))
        for fn in sorted(fns):
            if fn.endswith(".rs") or fn in ("Cargo.toml", "Cargo.lock"):
                yield os.path.join(dp, fn)


def tree_hash(extra=""):
    h = hashlib.sha256()
    for p in _iter_source_files(REPO):
        h.update(os.path.relpath(p, REPO).encode())
        h.update(b"\0")
        with open(p, "rb") as f:
            h.update(hashlib.sha256(f.read()).digest())
    for eng in ("engines/hx-mir/src/main.rs", "engines/hx-ast/src/main.rs"):
        with open(os.path.join(VERIF, eng), "rb") as f:
            h.update(hashlib.sha256(f.read()).digest())
    h.update(extra.encode())
    return h.hexdigest()[:20]


def _sysroot():
    return subprocess.check_output(["rustc", "+nightly", "--print", "sysroot"], text=True).strip()


def build_engines():
    env = dict(os.environ, CARGO_NET_OFFLINE="true")
    for eng in ("hx-mir", "hx-ast"):
        subprocess.check_call(["cargo", "build", "--offline", "-q"], cwd=os.path.join(VERIF, "engines", eng), env=env)


def _extract(out, features=None):
    if not (os.path.exists(HX_MIR) and os.path.exists(HX_AST)):
        build_engines()
    os.makedirs(out, exist_ok=True)
    target = os.path.join(WORK, "target")
    os.makedirs(target, exist_ok=True)
    # cargo's freshness cache would skip the wrapper: drop the members' fingerprints
    fp = os.path.join(target, "debug", ".fingerprint")
    if os.path.isdir(fp):
        for d in os.listdir(fp):
            if any(d.startswith(m + "-") for m in MEMBER_PKGS):
                shutil.rmtree(os.path.join(fp, d), ignore_errors=True)
    env = dict(os.environ)
    env.update(
        HX_OUT=out,
        LD_LIBRARY_PATH=os.path.join(_sysroot(), "lib"),
        RUSTFLAGS="-Zmir-opt-level=0 -Awarnings",
        RUSTC_WORKSPACE_WRAPPER=HX_MIR,
        CARGO_TARGET_DIR=target,
        CARGO_NET_OFFLINE="true",
    )
    cmd = ["cargo", "+nightly", "check", "--offline", "--workspace", "-q"]
    if features:
        cmd += ["--features", features]
    r = subprocess.run(cmd, cwd=REPO, env=env, stdout=subprocess.PIPE, stderr=subprocess.STDOUT, text=True)
    if r.returncode != 0:
        sys.stderr.write(r.stdout[-4000:])
        raise RuntimeError("fact extraction: cargo check failed (does /repo build?)")
    for c in CRATES:
        exp = os.path.join(out, c + ".expanded.rs")
        mir = os.path.join(out, c + ".mir.json")
        if not (os.path.exists(exp) and os.path.exists(mir)):
            raise RuntimeError("fact extraction: no facts for crate %s (wrapper skipped?)" % c)
        subprocess.check_call([HX_AST, exp, os.path.join(out, c + ".ast.json")])
    rawdir = os.path.join(out, "raw")
    os.makedirs(rawdir, exist_ok=True)
    for rf in RAW_FILES:
        src = os.path.join(REPO, rf)
        if os.path.exists(src):
            subprocess.check_call([HX_AST, src, os.path.join(rawdir, rf.replace("/", "__") + ".json")])
    # generated sources of the build (web_atoms OUT_DIR)
    gen = os.path.join(out, "generated")
    os.makedirs(gen, exist_ok=True)
    bdir = os.path.join(target, "debug", "build")
    cands = []
    for d in os.listdir(bdir):
        if d.startswith("web_atoms-"):
            p = os.path.join(bdir, d, "out", "named_entities.rs")
            if os.path.exists(p):
                cands.append((os.path.getmtime(p), os.path.join(bdir, d, "out")))
    if cands:
        cands.sort()
        o = cands[-1][1]
        for fn in os.listdir(o):
            shutil.copy(os.path.join(o, fn), os.path.join(gen, fn))
    with open(os.path.join(out, "DONE"), "w") as f:
        f.write(time.strftime("%Y-%m-%dT%H:%M:%S"))


def ensure_facts(features=None):
    os.makedirs(os.path.join(WORK, "facts"), exist_ok=True)
    lock = open(os.path.join(WORK, "lock"), "w")
    fcntl.flock(lock, fcntl.LOCK_EX)
    try:
        h = tree_hash(features or "")
        out = os.path.join(WORK, "facts", h)
        if not os.path.exists(os.path.join(out, "DONE")):
            if os.path.isdir(out):
                shutil.rmtree(out)
            t0 = time.time()
            _extract(out, features)
            sys.stderr.write("[facts] extracted %s in %.1fs\n" % (h, time.time() - t0))
            # prune older fact dirs (keep the 4 most recent)
            base = os.path.join(WORK, "facts")
            ds = sorted((os.path.getmtime(os.path.join(base, d)), d) for d in os.listdir(base))
            for _, d in ds[:-12]:
                shutil.rmtree(os.path.join(base, d), ignore_errors=True)
        return out, h
    finally:
        fcntl.flock(lock, fcntl.LOCK_UN)
        lock.close()


if __name__ == "__main__":
    print(ensure_facts())
