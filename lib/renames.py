"""Private fields and private functions that were renamed since the review are read under their reviewed names.

ref/names.json records, per crate, the fields of every named-field struct and the signature of every function of the reviewed
tree.  A struct that lost exactly one field and gained exactly one, or a private function that is gone while exactly one new
private function has its signature, is a rename: the new name is replaced by the reviewed one in the syntax trees and in the MIR
facts before any rule looks at them (a rename changes no behaviour; a rename combined with a behavioural change is still
analysed, under the reviewed vocabulary)."""
import json
import re

PRIVATE_VIS = ("", "pub(crate)", "pub(super)", "pub(self)", "pub(in crate)")


def snapshot(items):
    """what mkref stores for one crate"""
    structs = {}
    fns = {}
    for it in items:
        if it.get("k") == "Struct" and it.get("fields") and all(not str(f.get("name", "0")).isdigit() for f in it["fields"]):
            structs.setdefault(it["name"], []).append([(f["name"], (f.get("ty") or "").replace(" ", "")) for f in it["fields"]])
        if it.get("k") == "Fn" and it.get("sig"):
            sig = ((it.get("self_ty") or "").replace(" ", ""), tuple((p.get("ty") or "").replace(" ", "") for p in it["sig"]["params"]), (it["sig"].get("ret") or "").replace(" ", ""))
            fns.setdefault(it["name"], []).append([list(sig[:1]) + [list(sig[1])] + [sig[2]], (it.get("vis") or ""), bool(it.get("trait"))])
    return {"structs": {k: v[0] for k, v in structs.items() if len(v) == 1}, "fns": fns}


def detect(items, ref):
    """-> (field renames {new: old}, function renames {new: old}) for one crate"""
    cur = snapshot(items)
    fr = {}
    all_cur_fields = {f for fs in cur["structs"].values() for f, _ in fs}
    all_ref_fields = {f for fs in ref.get("structs", {}).values() for f, _ in fs}
    for name, rfields in ref.get("structs", {}).items():
        cfields = cur["structs"].get(name)
        if cfields is None:
            continue
        rn, cn = [f for f, _ in rfields], [f for f, _ in cfields]
        gone = [f for f in rn if f not in cn]
        new = [f for f in cn if f not in rn]
        if len(gone) == 1 and len(new) == 1:
            tg = dict(rfields)[gone[0]]
            tn = dict(cfields)[new[0]]
            elsewhere = sum(1 for fs in cur["structs"].values() for f, _ in fs if f == new[0])
            if tg == tn and new[0] not in all_ref_fields and elsewhere == 1:
                fr[new[0]] = gone[0]
    fnr = {}
    rf, cf = ref.get("fns", {}), cur["fns"]
    gone = [n for n in rf if n not in cf and len(rf[n]) == 1 and rf[n][0][1] in PRIVATE_VIS and not rf[n][0][2]]
    new = [n for n in cf if n not in rf and len(cf[n]) == 1 and cf[n][0][1] in PRIVATE_VIS and not cf[n][0][2]]
    for n in new:
        cands = [g for g in gone if json.dumps(rf[g][0][0]) == json.dumps(cf[n][0][0])]
        others = [m for m in new if m != n and json.dumps(cf[m][0][0]) == json.dumps(cf[n][0][0])]
        if len(cands) == 1 and not others:
            fnr[n] = cands[0]
    return fr, fnr


def apply_ast(items, fr, fnr):
    def tr(n):
        if isinstance(n, list):
            for x in n:
                tr(x)
            return
        if not isinstance(n, dict):
            return
        k = n.get("k")
        if k == "Field" and n.get("name") in fr:
            n["name"] = fr[n["name"]]
        elif k in ("Struct", "PStruct") and isinstance(n.get("fields"), list):
            for f in n["fields"]:
                if isinstance(f, dict) and f.get("name") in fr:
                    f["name"] = fr[f["name"]]
        elif k == "MethodCall" and n.get("m") in fnr:
            n["m"] = fnr[n["m"]]
        elif k == "Path" and isinstance(n.get("path"), str) and n["path"].split("::")[-1] in fnr:
            parts = n["path"].split("::")
            parts[-1] = fnr[parts[-1]]
            n["path"] = "::".join(parts)
        elif k == "Fn" and n.get("name") in fnr:
            n["name"] = fnr[n["name"]]
        for v in n.values():
            if isinstance(v, (dict, list)):
                tr(v)
    tr(items)


def apply_mir_text(text, fr, fnr):
    for new, old in fr.items():
        text = text.replace('".%s"' % new, '".%s"' % old)
        text = re.sub(r'\["%s", ' % re.escape(new), '["%s", ' % old, text)
    for new, old in fnr.items():
        text = re.sub(r'::%s"' % re.escape(new), '::%s"' % old, text)
        text = re.sub(r'::%s::\{' % re.escape(new), '::%s::{' % old, text)
    return text
