"""Decision-tree flattening of state-machine code (DESIGN 3.1 / C01).

The tokenizers are written as finite decision trees: `match state { arm => loop {
match get_char { pattern => actions; to State } } }`.  This module tabulates such a
tree into a finite function

    (state, input event, guard valuation)  ->  (ordered actions, next state, outcome)

by partial evaluation of the *pure* part of the syntax tree (patterns, literals,
comparisons, small helper functions) over an exact finite partition of `char`,
forking at every construct it cannot decide (guards) and recording every
effectful construct as an action.  No tokenizer is run and no input string is
processed; what is evaluated are patterns on class representatives.

Values
  ('ch', 'x')  ('str', 's')  int  bool  ('unit',)
  ('ctor', Name, (args..))   enum / tuple-struct values, Option, SetResult, ...
  ('tuple', (..))
  ('obj', path)              self / input / tokenizer and places rooted there
  ('unk', text)              not decidable statically; text is a canonical rendering
"""
import re
from .ast import is_log_block, decode_atom


class Unsupported(Exception):
    pass


class NeedChoice(Exception):
    def __init__(self, kind, label, options):
        self.kind = kind
        self.label = label
        self.options = options


class _Return(Exception):
    def __init__(self, v):
        self.v = v


class _Break(Exception):
    def __init__(self, label, v=None):
        self.label = label
        self.v = v


class _Continue(Exception):
    def __init__(self, label):
        self.label = label


class _LoopBack(Exception):
    pass


UNIT = ("unit",)
NOISE_METHODS = {"borrow", "borrow_mut", "clone", "as_ref", "as_mut", "deref", "deref_mut", "as_str", "as_deref", "by_ref", "into", "to_owned", "to_string"}
PURE_METHODS = NOISE_METHODS | {
    "as_bytes", "as_slice", "as_ptr", "is_ascii_alphanumeric", "eq", "ne", "cmp", "min", "max", "checked_add", "checked_sub", "wrapping_add", "wrapping_sub", "wrapping_mul",
    "leading_zeros", "trailing_zeros", "count_ones", "is_char_boundary", "get_unchecked", "offset_from", "to_ascii_lowercase", "to_ascii_uppercase", "unwrap_or_else", "unwrap_or_default", "is_some_and", "and_then", "ok", "err", "is_ok", "is_err", "filter", "find", "enumerate", "skip", "rev", "peekable", "cloned", "copied", "zip", "rposition", "local_name", "ns", "expanded", "upgrade", "as_deref", "get_attribute",
    "len", "is_empty", "is_some", "is_none", "get", "chars", "next", "iter", "unwrap", "expect", "len32", "peek_nth", "contains",
    "unwrap_or", "map", "any", "all", "eq_ignore_ascii_case", "starts_with", "ends_with", "last", "first", "rev", "position", "count", "name_buf",
}


DISTINCT_PHI = False

_PURE_LABEL = re.compile(r"\bself\b|\bitem\b|φ|loop\(|\.(take|pop|pop_front|pop_back|next|get|borrow|eat|peek|read|recv|insert|remove|push)\(|\b(?!new\(|from\(|default\(|from_slice\()[a-z_]+\([^)]*\)\.")
OPTION_METHODS = {"or_else", "or", "filter", "ok_or", "ok_or_else", "is_some", "is_none", "is_ok", "is_err", "unwrap_or", "unwrap_or_else", "unwrap_or_default", "map_or", "map_or_else", "is_some_and", "is_ok_and", "is_none_or", "map", "and_then"}
# name -> 'Option' | 'Result' for the crates' own functions whose declared return type is one (set by lib.ast.Ast)
RET_FAMILY = {}


# struct name -> field names in definition order (named-field structs of the analysed crates, unique names only)
STRUCT_FIELDS = {}


def set_ret_family(items_by_crate):
    items_by_crate = list(items_by_crate)
    STRUCT_FIELDS.clear()
    dup = set()
    for items in items_by_crate:
        for it in items:
            if it.get("k") == "Struct" and it.get("fields") and all(not str(f.get("name", "0")).isdigit() for f in it["fields"]):
                if it["name"] in STRUCT_FIELDS:
                    dup.add(it["name"])
                STRUCT_FIELDS[it["name"]] = [f["name"] for f in it["fields"]]
    for n in dup:
        STRUCT_FIELDS.pop(n, None)
    RET_FAMILY.clear()
    seen = {}
    for items in items_by_crate:
        for it in items:
            if it.get("k") == "Fn" and it.get("sig"):
                ret = (it["sig"].get("ret") or "").replace(" ", "")
                fam = "Option" if ret.startswith("Option<") else "Result" if ret.startswith("Result<") else ""
                seen.setdefault(it["name"], set()).add(fam)
    for n, fs in seen.items():
        if len(fs) == 1 and "" not in fs:
            RET_FAMILY[n] = next(iter(fs))


_SHOW_ENV = [None]


def show_env(e, env):
    """like show(), but local names are replaced by the text of the value they hold"""
    old = _SHOW_ENV[0]
    _SHOW_ENV[0] = env
    try:
        return show(e)
    finally:
        _SHOW_ENV[0] = old


def show(e):
    """canonical, noise-free rendering of an expression (for guard labels and opaque arguments)"""
    if e is None:
        return ""
    k = e.get("k")
    if k == "Path":
        p = e["path"]
        if _SHOW_ENV[0] is not None and p in _SHOW_ENV[0]:
            v = _SHOW_ENV[0][p]
            if not (isinstance(v, tuple) and v and v[0] == "closure"):
                return showv(v)
        a = decode_atom(p)
        if a:
            return "atom:%s" % a[1]
        return p.split("::")[-1] if p.startswith("::") or "::" in p else p
    if k == "Lit":
        return repr(e["v"]) if e["t"] in ("str", "char") else str(e["v"])
    if k == "Field":
        return show(e["e"]) + "." + e["name"]
    if k == "MethodCall":
        if e["m"] in NOISE_METHODS and not e["args"]:
            return show(e["recv"])
        return "%s.%s(%s)" % (show(e["recv"]), e["m"], ",".join(show(a) for a in e["args"]))
    if k == "Call":
        return "%s(%s)" % (show(e["f"]), ",".join(show(a) for a in e["args"]))
    if k == "Ref":
        return show(e["e"])
    if k == "Unary":
        if e["op"] == "*":
            return show(e["e"])
        return e["op"] + show(e["e"])
    if k == "Binary":
        return "(%s %s %s)" % (show(e["l"]), e["op"], show(e["r"]))
    if k == "Index":
        return "%s[%s]" % (show(e["e"]), show(e["i"]))
    if k == "Range":
        return "%s..%s%s" % (show(e.get("lo")), "=" if e.get("closed") else "", show(e.get("hi")))
    if k == "Cast":
        return "(%s as %s)" % (show(e["e"]), e["ty"].replace(" ", ""))
    if k == "Tuple":
        return "(%s)" % ",".join(show(x) for x in e["elems"])
    if k == "Try":
        return show(e["e"]) + "?"
    if k == "Macro":
        return e["path"] + "!"
    if k == "Struct":
        return "%s{%s}" % (e["path"].split("::")[-1], ",".join("%s:%s" % (f["name"], show(f["e"])) for f in e["fields"]))
    if k == "Closure":
        return "|..|" + show(e["body"])
    if k == "Block":
        return "{..}"
    if k == "If":
        return "if(%s)" % show(e["cond"])
    if k == "Match":
        return "match(%s)" % show(e["e"])
    return k or "?"


_CLOSURE_RENDER = [None]


def _pnames(p, out):
    k = p.get("k")
    if k == "PIdent":
        out.append(p["name"])
        if p.get("sub"):
            _pnames(p["sub"], out)
    elif k == "PRef":
        _pnames(p["pat"], out)
    elif k in ("PTuple", "PTupleStruct", "PSlice"):
        for e in p["elems"]:
            _pnames(e, out)
    elif k == "PStruct":
        for f in p["fields"]:
            _pnames(f["pat"], out)
    elif k == "PType":
        _pnames(p["pat"], out)


def showv(v):
    if isinstance(v, tuple) and v and v[0] == "closure":
        r = _CLOSURE_RENDER[0]
        return r.closure_text(v) if r is not None else "|..|" + show(v[1]["body"])
    if isinstance(v, bool):
        return "true" if v else "false"
    if isinstance(v, int):
        return str(v)
    t = v[0]
    if t == "atom":
        return "atom:" + v[1]
    if t == "set":
        return "set{%s}" % "".join(sorted(v[1])).encode("unicode_escape").decode()
    if t == "ch":
        return repr(v[1])
    if t == "str":
        return '"%s"' % v[1]
    if t == "unit":
        return "()"
    if t == "ctor":
        if v[2]:
            return "%s(%s)" % (v[1], ",".join(showv(a) for a in v[2]))
        return v[1]
    if t == "tuple":
        return "(%s)" % ",".join(showv(a) for a in v[1])
    if t == "obj":
        return v[1]
    if t == "unk":
        return v[1]
    return str(v)


def is_unk(v):
    return isinstance(v, tuple) and v[0] in ("unk", "obj", "closure")


class Config:
    """per-machine configuration of the flattener"""

    def __init__(self, **kw):
        self.objects = kw.get("objects", ("self", "input", "tokenizer"))
        # acquisition methods: name -> handler kind
        self.acquire = kw.get("acquire", {})
        # methods / fields whose value is a guard (fork both ways); rendered canonically
        self.guards = kw.get("guards", set())
        # methods of the machine that are primitives: recorded as actions, never inlined
        self.primitives = kw.get("primitives", set())
        # AST fns that may be inlined: name -> fn item
        self.inline = kw.get("inline", {})
        # named scalar constants of the crate (name -> init expression): a use is replaced by the value, so that naming a
        # literal / inlining a constant does not change a normal form
        self.consts = kw.get("consts", None)
        if self.consts is None:
            self.consts = DEFAULT_CONSTS
        # pure free functions / constructors returning unknown values without being actions
        self.pure_fns = kw.get("pure_fns", {"from_u32", "from_char", "from_slice", "new", "from", "default", "take", "Borrowed", "Owned", "drop", "format", "conv", "must_use", "replace", "from_utf8", "with_capacity"})
        self.samples = kw.get("samples", [])
        self.known_fields = kw.get("known_fields", {})
        # methods that only hand out a place inside the machine (no effect of their own)
        self.accessors = kw.get("accessors", set())
        # integer-valued fields sampled over a finite partition: path -> list of sample ints
        self.int_fields = kw.get("int_fields", {})
        # render call results with their arguments (generic normal forms) or as f() (tokenizer tables)
        self.full_call_text = kw.get("full_call_text", False)
        # generic functions: `loop {}` is summarised like while/for instead of being the state machine's iteration
        self.generic_loops = kw.get("generic_loops", False)


class Run:
    """one deterministic evaluation under a script of choices"""

    def __init__(self, cfg, script):
        if _CLOSURE_RENDER[0] is None or not getattr(self, "no_choice", False):
            _CLOSURE_RENDER[0] = self
        self.cfg = cfg
        self.script = list(script)
        self.pos = 0
        self.choices = []  # (kind,label,chosen-render)
        self.actions = []
        self.fields = dict(cfg.known_fields)
        self.depth = 0
        self.varfam = {}

    no_choice = False

    def param_families(self, sig):
        for p in (sig or {}).get("params", []):
            ty = (p.get("ty") or "").replace(" ", "").lstrip("&")
            if ty.startswith("mut"):
                ty = ty[3:]
            fam = "Option" if ty.startswith("Option<") else "Result" if ty.startswith("Result<") else None
            if fam and p.get("pat", {}).get("k") == "PIdent":
                self.varfam[p["pat"]["name"]] = fam
        self.ret_ty = ((sig or {}).get("ret") or "").replace(" ", "")

    ret_ty = ""

    def choose(self, kind, label, options):
        if self.no_choice:
            raise NeedChoice(kind, label, options)
        if kind == "guard":
            if _PURE_LABEL.search(label) is None:
                # a test of the parameters / locals only: asked again on the same path it has the same answer
                for c in self.choices:
                    if c[0] == "guard" and c[1] == label:
                        return [o[1] for o in options if o[0] == c[2]][0]
            k = sum(1 for c in self.choices if c[0] == "guard" and (c[1] == label or c[1].startswith(label + "#")))
            if k:
                label = "%s#%d" % (label, k + 1)
        if self.pos < len(self.script):
            i = self.script[self.pos]
            self.pos += 1
            self.choices.append((kind, label, options[i][0]))
            return options[i][1]
        raise NeedChoice(kind, label, options)

    def act(self, name, args=()):
        if name.endswith("emit_error") or name.endswith("parse_error"):
            args = ()  # the wording of a parse error is not part of any property
        self.actions.append((name, tuple(args)))

    # ---------------------------------------------------------------- patterns
    def match(self, pat, v, env):
        """returns True/False/None(unknown); binds into env on success"""
        k = pat["k"]
        if k == "PWild" or k == "PRest":
            return True
        if k == "PIdent":
            name = pat["name"]
            if pat.get("sub") is not None:
                r = self.match(pat["sub"], v, env)
                if r is not False:
                    env[name] = v
                return r
            if name[0].isupper() and name not in env:
                # unit constructor used as a pattern (e.g. `Rcdata`)
                return self._match_ctor(name, [], v, env)
            env[name] = v
            return True
        if k == "PRef":
            return self.match(pat["pat"], v, env)
        if k == "PLit":
            lv = self.lit(pat["lit"])
            if is_unk(v):
                return None
            return lv == v
        if k == "PRange":
            if is_unk(v):
                return None
            lo = self.eval(pat["lo"], env) if pat.get("lo") else None
            hi = self.eval(pat["hi"], env) if pat.get("hi") else None
            x = self.ordv(v)
            if lo is not None and x < self.ordv(lo):
                return False
            if hi is not None:
                h = self.ordv(hi)
                if pat.get("closed"):
                    if x > h:
                        return False
                elif x >= h:
                    return False
            return True
        if k == "POr":
            unknown = False
            for c in pat["cases"]:
                e2 = dict(env)
                r = self.match(c, v, e2)
                if r:
                    env.update(e2)
                    return True
                if r is None:
                    unknown = True
            return None if unknown else False
        if k == "PPath":
            name = pat["path"].split("::")[-1]
            a = decode_atom(pat["path"])
            if a:
                if is_unk(v):
                    return None
                return v == ("atom", a[1])
            return self._match_ctor(name, [], v, env)
        if k == "PTupleStruct":
            name = pat["path"].split("::")[-1]
            return self._match_ctor(name, pat["elems"], v, env)
        if k == "PTuple":
            if is_unk(v):
                vs = [("unk", "%s.%d" % (showv(v), i)) for i in range(len(pat["elems"]))]
            elif v[0] == "tuple":
                vs = v[1]
            else:
                return None
            unknown = False
            for p, x in zip(pat["elems"], vs):
                r = self.match(p, x, env)
                if r is False:
                    return False
                if r is None:
                    unknown = True
            return None if unknown else True
        if k == "PStruct":
            if is_unk(v):
                for f in pat["fields"]:
                    self.match(f["pat"], ("unk", "%s.%s" % (showv(v), f["name"])), env)
                return None
            return None
        raise Unsupported("pattern " + k)

    def _match_ctor(self, name, elems, v, env):
        if is_unk(v):
            for i, p in enumerate(elems):
                self.match(p, ("unk", "%s.%d" % (showv(v), i)), env)
            return None
        if not (isinstance(v, tuple) and v[0] == "ctor"):
            return False
        if v[1] != name:
            return False
        if len(elems) != len(v[2]):
            # `..` rest or mismatch
            if any(e["k"] == "PRest" for e in elems):
                return True
            return False
        unknown = False
        for p, x in zip(elems, v[2]):
            r = self.match(p, x, env)
            if r is False:
                return False
            if r is None:
                unknown = True
        return None if unknown else True

    # ------------------------------------------------------------------ values
    def lit(self, l):
        t = l["t"]
        if t == "char":
            return ("ch", l["v"])
        if t == "str":
            return ("str", l["v"])
        if t == "int":
            return int(l["v"])
        if t == "bool":
            return bool(l["v"])
        if t == "byte":
            return int(l["v"])
        return ("unk", str(l["v"]))

    @staticmethod
    def ordv(v):
        if isinstance(v, bool):
            return int(v)
        if isinstance(v, int):
            return v
        if v[0] == "ch":
            return ord(v[1])
        raise Unsupported("ordv " + str(v))

    def resolve(self, v):
        """a place rooted at an object whose current value is known -> that value"""
        if isinstance(v, tuple) and v[0] == "obj":
            if v[1] in self.fields:
                return self.fields[v[1]]
            if v[1] in self.cfg.int_fields:
                n = self.choose("acq", "field " + v[1], [("#%d" % x, x) for x in self.cfg.int_fields[v[1]]])
                self.fields[v[1]] = n
                return n
            if v[1] in self.cfg.guards:
                return ("unk", v[1])
        return v

    def truth(self, v, label):
        """decide a condition, forking when unknown"""
        v = self.resolve(v)
        if isinstance(v, bool):
            return v
        if is_unk(v):
            lab, neg = canon_cond(showv(v) if label is None else label)
            r = self.choose("guard", lab, [("true", True), ("false", False)])
            if lab in self.cfg.guards and lab.startswith("self.") and "(" not in lab:
                self.fields[lab] = r
            return (not r) if neg else r
        return self.choose("guard", "cond:" + showv(v), [("true", True), ("false", False)])

    # ------------------------------------------------------------- expressions
    def eval(self, e, env):
        k = e["k"]
        m = getattr(self, "e_" + k, None)
        if m is None:
            raise Unsupported("expr " + k)
        return m(e, env)

    def e_Lit(self, e, env):
        return self.lit(e)

    def e_Path(self, e, env):
        p = e["path"]
        if p in env:
            return env[p]
        if self.cfg.consts and p.split("::")[-1] in self.cfg.consts and (p.split("::")[-1] == p or p.startswith("Self::") or p.startswith("self::") or p.startswith("super::") or p.startswith("crate::")):
            return self.eval(self.cfg.consts[p.split("::")[-1]], {})
        a = decode_atom(p)
        if a:
            return ("atom", a[1])
        last = p.split("::")[-1]
        if p in self.cfg.objects:
            return ("obj", p)
        if last[:1].isupper() and not last.isupper():
            return ("ctor", last, ())
        it = self.cfg.inline.get(last) if isinstance(self.cfg.inline, dict) else None
        if it is not None and it.get("new_private") and it.get("sig") and it.get("body") is not None and not any(p.get("name") == "self" for p in it["sig"]["params"]):
            # a function used as a value (`.any(pred)`) is the closure `|a..| pred(a..)`
            return ("closure", {"k": "Closure", "params": [p["pat"] for p in it["sig"]["params"]], "body": {"k": "Block", "body": it["body"]}}, {})
        return ("unk", show(e))

    def e_Ref(self, e, env):
        return self.eval(e["e"], env)

    def e_Unary(self, e, env):
        v = self.eval(e["e"], env)
        if e["op"] == "*":
            return v
        v = self.resolve(v)
        if e["op"] == "!":
            if isinstance(v, bool):
                return not v
            if is_unk(v):
                return ("unk", "!" + showv(v))
        if e["op"] == "-" and isinstance(v, int):
            return -v
        return ("unk", e["op"] + showv(v))

    def e_Cast(self, e, env):
        v = self.resolve(self.eval(e["e"], env))
        ty = e["ty"].replace(" ", "")
        if is_unk(v):
            return ("unk", "(%s as %s)" % (showv(v), ty))
        if ty == "char":
            return ("ch", chr(self.ordv(v)))
        if ty in ("u8",):
            return self.ordv(v) & 0xFF
        if ty in ("u32", "usize", "u64", "i32", "u16", "isize", "i64"):
            return self.ordv(v)
        return ("unk", "(%s as %s)" % (showv(v), ty))

    def e_Binary(self, e, env):
        op = e["op"]
        if op == "&&":
            l = self.eval(e["l"], env)
            if l is False:
                return False
            if l is True:
                return self.eval(e["r"], env)
            # unknown left operand: fork
            if self.truth(l, None):
                return self.eval(e["r"], env)
            return False
        if op == "||":
            l = self.eval(e["l"], env)
            if l is True:
                return True
            if l is False:
                return self.eval(e["r"], env)
            if self.truth(l, None):
                return True
            return self.eval(e["r"], env)
        if op.endswith("=") and op not in ("==", "!=", "<=", ">="):
            # compound assignment
            r = self.resolve(self.eval(e["r"], env))
            t = e["l"]
            while t["k"] in ("Unary", "Ref"):
                t = t["e"]
            if t["k"] == "Path" and t["path"] in env and not (isinstance(env[t["path"]], tuple) and env[t["path"]][0] == "obj"):
                old = env[t["path"]]
                if isinstance(old, int) and not isinstance(old, bool) and isinstance(r, int) and not isinstance(r, bool) and op in ("+=", "-="):
                    env[t["path"]] = old + r if op == "+=" else old - r
                else:
                    env[t["path"]] = ("unk", "(%s %s %s)" % (showv(old), op[:-1], showv(r)))
                return UNIT
            place = self.place_of(e["l"], env)
            self.act("assign%s %s" % (op[:-1], place), [r])
            return UNIT
        l = self.resolve(self.eval(e["l"], env))
        r = self.resolve(self.eval(e["r"], env))
        if is_unk(l) or is_unk(r):
            return ("unk", "(%s %s %s)" % (showv(l), op, showv(r)))
        if op in ("==", "!="):
            res = l == r
            return res if op == "==" else not res
        try:
            a, b = self.ordv(l), self.ordv(r)
        except Unsupported:
            return ("unk", "(%s %s %s)" % (showv(l), op, showv(r)))
        if op == "<":
            return a < b
        if op == "<=":
            return a <= b
        if op == ">":
            return a > b
        if op == ">=":
            return a >= b
        if op == "+":
            return a + b
        if op == "-":
            return a - b
        if op == "*":
            return a * b
        if op == "&":
            return a & b
        if op == "|":
            return a | b
        if op == "^":
            return a ^ b
        if op == "<<":
            return a << b
        if op == ">>":
            return a >> b
        if op == "/":
            return a // b if b else ("unk", "div0")
        if op == "%":
            return a % b if b else ("unk", "rem0")
        raise Unsupported("binop " + op)

    def e_Array(self, e, env):
        return ("ctor", "Array", tuple(self.eval(x, env) for x in e["elems"]))

    def e_Repeat(self, e, env):
        return ("ctor", "Repeat", (self.eval(e["e"], env), self.eval(e["len"], env)))

    def e_Tuple(self, e, env):
        if not e["elems"]:
            return UNIT
        return ("tuple", tuple(self.eval(x, env) for x in e["elems"]))

    def e_Block(self, e, env):
        if is_log_block(e):
            return UNIT
        lab = e.get("label")
        try:
            return self.block(e["body"], dict(env) if False else env)
        except _Break as b:
            if lab is not None and b.label == lab:
                return b.v if b.v is not None else UNIT
            raise

    def pat_guard(self, v, pat):
        """fork on an undecidable pattern test; `None` / `Err(_)` are spelled as the complement of `Some(_)` / `Ok(_)`"""
        pt = self.showpat(pat)
        comp = {"None": "Some(_)", "Err(_)": "Ok(_)"}.get(pt)
        r = self.choose("guard", "%s matches %s" % (showv(v), comp or pt), [("true", True), ("false", False)])
        return (not r) if comp else r

    def e_If(self, e, env):
        cond = e["cond"]
        if cond["k"] == "LetCond":
            v = self.eval(cond["e"], env)
            env2 = dict(env)
            r = self.match(cond["pat"], v, env2)
            if r is None:
                r = self.pat_guard(v, cond["pat"])
            if r:
                # the pattern's bindings live in the then-block only (they may shadow an outer name, which is intact afterwards)
                bound = []
                _pnames(cond["pat"], bound)
                env3 = dict(env)
                env3.update({k2: v2 for k2, v2 in env2.items() if k2 in bound})
                try:
                    return self.block(e["then"], env3)
                finally:
                    for k2 in list(env.keys()):
                        if k2 in env3 and k2 not in bound:
                            env[k2] = env3[k2]
            if e.get("else"):
                return self.eval(e["else"], env)
            return UNIT
        c = self.eval(cond, env)
        if self.truth(c, None):
            return self.block(e["then"], env)
        if e.get("else"):
            return self.eval(e["else"], env)
        return UNIT

    def showpat(self, p):
        k = p["k"]
        if k == "PLit":
            return showv(self.lit(p["lit"]))
        if k == "PIdent":
            if p["name"][:1].isupper():
                return p["name"]
            return "_" if p.get("sub") is None else self.showpat(p["sub"])
        if k == "PWild":
            return "_"
        if k == "PRest":
            return ".."
        if k in ("PPath",):
            a = decode_atom(p["path"])
            return ("atom:" + a[1]) if a else p["path"].split("::")[-1]
        if k == "PTupleStruct":
            return "%s(%s)" % (p["path"].split("::")[-1], ",".join(self.showpat(x) for x in p["elems"]))
        if k == "PTuple":
            return "(%s)" % ",".join(self.showpat(x) for x in p["elems"])
        if k == "POr":
            return "|".join(self.showpat(x) for x in p["cases"])
        if k == "PRef":
            return self.showpat(p["pat"])
        if k == "PRange":
            return "%s..=%s" % (show(p.get("lo")), show(p.get("hi")))
        if k == "PStruct":
            nm = p["path"].split("::")[-1]
            fl = list(p["fields"])
            order = STRUCT_FIELDS.get(nm)
            if order and sorted(order) == sorted(f["name"] for f in fl):
                fl.sort(key=lambda f: order.index(f["name"]))
            return "%s{%s}" % (nm, ",".join("%s:%s" % (f["name"], self.showpat(f["pat"])) for f in fl))
        return k

    def e_Match(self, e, env):
        v = self.resolve(self.eval(e["e"], env))
        arms = e["arms"]
        decided = {}
        for i, arm in enumerate(arms):
            env2 = dict(env)
            r = self.match(arm["pat"], v, env2)
            if r is False:
                continue
            if r is None and arm["pat"].get("k") == "PLit" and isinstance(self.lit(arm["pat"]["lit"]), bool) and is_unk(v):
                # `match c { true => .., false => .. }` is `if c`: same canonical guard as the if-form
                if "bool" not in decided:
                    decided["bool"] = self.truth(v, None)
                if decided["bool"] != self.lit(arm["pat"]["lit"]):
                    continue
                r = True
            if r is None:
                # undecidable pattern: fork "this arm's pattern matches" / "does not" (once per distinct pattern); a tuple of
                # scrutinees against a tuple pattern is decided component by component, like the nested matches it stands for
                def decide(pat, val):
                    while pat.get("k") == "PRef":
                        pat = pat["pat"]
                    if pat.get("k") == "PTuple" and isinstance(val, tuple) and val and val[0] == "tuple" and len(val[1]) == len(pat["elems"]):
                        for p_i, v_i in zip(pat["elems"], val[1]):
                            r_i = self.match(p_i, v_i, env2)
                            if r_i is False or (r_i is None and not decide(p_i, v_i)):
                                return False
                        return True
                    if pat.get("k") == "PTupleStruct" and isinstance(val, tuple) and val and val[0] == "ctor" and val[1] == pat["path"].split("::")[-1] \
                            and len(val[2]) == len(pat["elems"]) and not any(x.get("k") == "PRest" for x in pat["elems"]):
                        for p_i, v_i in zip(pat["elems"], val[2]):
                            r_i = self.match(p_i, v_i, env2)
                            if r_i is False or (r_i is None and not decide(p_i, v_i)):
                                return False
                        return True
                    if pat.get("k") == "PLit" and isinstance(self.lit(pat["lit"]), bool) and is_unk(val):
                        key = "truth:" + showv(val)
                        if key not in decided:
                            decided[key] = self.truth(val, None)
                        return decided[key] == self.lit(pat["lit"])
                    pt = self.showpat(pat)
                    # `None` is the complement of `Some(_)`, `Err(_)` of `Ok(_)`: one canonical guard for both spellings
                    comp = {"None": "Some(_)", "Err(_)": "Ok(_)"}.get(pt)
                    lab = "%s matches %s" % (showv(val), comp or pt)
                    if lab not in decided:
                        decided[lab] = self.choose("guard", lab, [("true", True), ("false", False)])
                    return decided[lab] != bool(comp)
                if not decide(arm["pat"], v):
                    continue
            if arm.get("guard") is not None:
                g = self.eval(arm["guard"], env2)
                if not self.truth(g, None):
                    continue
            env.update({k2: v2 for k2, v2 in env2.items() if k2 not in env or env[k2] is not v2})
            # arm-local bindings shadow; evaluate in env2 but propagate assignments to outer vars
            try:
                res = self.eval(arm["body"], env2)
            finally:
                # (also when the arm leaves by break / return: what it assigned to outer locals is visible afterwards)
                for k2 in list(env.keys()):
                    if k2 in env2:
                        env[k2] = env2[k2]
            return res
        # no arm matched (possible only through forks): infeasible path
        raise _Infeasible()

    def e_Loop(self, e, env):
        lab = e.get("label")
        if self.cfg.generic_loops:
            self.depth_loops += 1
            if self.depth_loops > 3:
                raise Unsupported("nested loop")
            try:
                return self._summary_loop("loop", e["body"], env)
            finally:
                self.depth_loops -= 1
        if self.depth_loops > 0:
            raise Unsupported("nested loop")
        self.depth_loops += 1
        try:
            # one iteration from an arbitrary state, bracketed by loop markers; an iteration that completes goes round (_LoopBack)
            return self._summary_loop("loop", e["body"], env, markers=False)
        finally:
            self.depth_loops -= 1

    depth_loops = 0

    def e_Return(self, e, env):
        v = self.eval(e["e"], env) if e.get("e") else UNIT
        raise _Return(v)

    def e_Break(self, e, env):
        v = self.eval(e["e"], env) if e.get("e") else None
        raise _Break(e.get("label"), v)

    def e_Continue(self, e, env):
        raise _Continue(e.get("label"))

    def e_Macro(self, e, env):
        if e["path"] in ("format_args", "format", "panic", "unreachable", "debug_assert", "assert"):
            if e["path"] in ("panic", "unreachable"):
                self.act("panic!")
                raise _Return(("unk", "!"))
            return ("unk", e["path"] + "!")
        return ("unk", e["path"] + "!")

    def e_Struct(self, e, env):
        name = e["path"].split("::")[-1]
        if name == "SmallCharSet":
            # bits: (1 << ('\r' as usize)) | ...
            bits = self.eval(e["fields"][0]["e"], env)
            if isinstance(bits, int):
                return ("set", frozenset(chr(i) for i in range(64) if bits >> i & 1))
        fs = tuple((f["name"], self.eval(f["e"], env)) for f in e["fields"])
        if e.get("rest") is not None:
            # functional update `S { a: x, ..base }`: which fields are replaced, by what, and from which base
            return ("unk", "%s{%s,..%s}" % (name, ",".join("%s:%s" % (n, showv(v)) for n, v in sorted(fs)), showv(self.eval(e["rest"], env))))
        order = STRUCT_FIELDS.get(name)
        if order and not e.get("rest") and sorted(order) == sorted(n for n, _ in fs):
            d = dict(fs)
            fs = tuple((n, d[n]) for n in order)  # (evaluated in source order, listed in definition order)
        return ("ctor", name, tuple(v for _, v in fs))

    @staticmethod
    def _no_usize(x):
        """an index (or a bound of an index range) with its widening `as usize` casts removed"""
        if not isinstance(x, dict):
            return x
        while x.get("k") in ("Cast", "Paren") and (x.get("k") == "Paren" or x["ty"].replace(" ", "") == "usize"):
            x = x["e"]
        if x.get("k") == "Range":
            x = dict(x, lo=Run._no_usize(x.get("lo")), hi=Run._no_usize(x.get("hi")))
        return x

    def e_Index(self, e, env):
        b = self.eval(e["e"], env)
        ix = self._no_usize(e["i"])
        i = self.resolve(self.eval(ix, env)) if ix["k"] != "Range" else ("unk", show_env(ix, env))
        if isinstance(b, tuple) and b[0] == "tuple" and isinstance(i, int):
            return b[1][i]
        return ("unk", "%s[%s]" % (showv(b), showv(i)))

    def e_Range(self, e, env):
        return ("unk", show_env(e, env))

    def e_Closure(self, e, env):
        return ("closure", e, dict(env))

    def closure_text(self, c):
        """canonical text of a closure: captured variables replaced by their values, parameters positional"""
        e, cenv = c[1], dict(c[2])
        for i, p in enumerate(e["params"]):
            names = []
            _pnames(p, names)
            for n in names:
                cenv[n] = ("unk", "a%d" % (i + 1) if len(names) == 1 else "a%d.%d" % (i + 1, names.index(n)))
        sub = Run(self.cfg, [])
        sub.fields = dict(self.fields)
        sub.no_choice = True
        sub.depth = self.depth + 1
        try:
            v = sub.eval(e["body"], cenv)
            acts = "; ".join("%s(%s)" % (a, ",".join(showv(x) for x in args)) for a, args in sub.actions)
            return "|..|{%s%s%s}" % (acts, " => " if acts else "", showv(v))
        except _Return as r:
            acts = "; ".join("%s(%s)" % (a, ",".join(showv(x) for x in args)) for a, args in sub.actions)
            return "|..|{%s => return %s}" % (acts, showv(r.v))
        except (NeedChoice, Unsupported, _Infeasible, _Break, _Continue, _LoopBack, KeyError, IndexError, TypeError):
            from .render import render

            subst = {}
            for n, v in c[2].items():
                if not (isinstance(v, tuple) and v and v[0] in ("closure", "obj")):
                    subst[n] = showv(v)
            return "|..|" + render(e["body"], e["params"], subst, show, "a")

    def apply_closure(self, c, args):
        e, cenv = c[1], dict(c[2])
        for p, a in zip(e["params"], args):
            self.match(p, a, cenv)
        self.depth += 1
        if self.depth > 8:
            raise Unsupported("closure depth")
        try:
            try:
                return self.eval(e["body"], cenv)
            except _Return as r:
                if r.v == ("unk", "!"):
                    raise  # a panic inside the closure ends the whole path, not just the closure
                return r.v
        finally:
            self.depth -= 1

    def _assigned_locals(self, body, env):
        """locals (present in env) that the loop body assigns or mutates through a non-pure method"""
        names = []

        def target(t):
            while t.get("k") in ("Unary", "Ref", "Index", "Field", "Paren"):
                t = t["e"]
            if t.get("k") == "Path" and t["path"] in env and not (isinstance(env[t["path"]], tuple) and env[t["path"]][0] == "obj"):
                if t["path"] not in names:
                    names.append(t["path"])

        def f(n):
            k = n.get("k")
            if k == "Assign":
                target(n["lhs"])
            elif k == "Binary" and n["op"].endswith("=") and n["op"] not in ("==", "!=", "<=", ">="):
                target(n["l"])
            elif k == "MethodCall" and n["m"] not in PURE_METHODS:
                target(n["recv"])
            elif k == "Closure":
                return False

        from .ast import walk

        walk(body, f)
        return names

    def _exit_assigned(self, body, name):
        """every write of the local `name` in the loop body is in a block whose last statement leaves the loop (break / return):
        the iteration that writes it is the last one, so at the head and on normal completion it still has its value from before
        the loop, and after a break it has exactly what that iteration wrote (`found = x; break` is `break x` / `return x`)"""
        def root(t):
            while t.get("k") in ("Unary", "Ref", "Index", "Field", "Paren"):
                t = t["e"]
            return t["path"] if t.get("k") == "Path" else None

        def writes_here(e):
            """does expression e (not descending into nested blocks) write name?"""
            hit = [False]
            ke = e.get("k")
            if ke == "If":
                return writes_here(e["cond"])
            if ke == "Match":
                return writes_here(e["e"])
            if ke in ("Block", "Loop", "While", "For", "Closure"):
                return False

            def f(n):
                k = n.get("k")
                if k in ("Block", "If", "Match", "Loop", "While", "For", "Closure"):
                    return False
                if k == "Assign" and root(n["lhs"]) == name:
                    hit[0] = True
                elif k == "Binary" and n["op"].endswith("=") and n["op"] not in ("==", "!=", "<=", ">=") and root(n["l"]) == name:
                    hit[0] = True
                elif k == "MethodCall" and n["m"] not in PURE_METHODS and root(n["recv"]) == name:
                    hit[0] = True
            from .ast import walk
            walk(e, f)
            return hit[0]

        def mentions_write(node):
            found = [False]

            def f(n):
                k = n.get("k")
                if k == "Closure":
                    return False
                if (k == "Assign" and root(n["lhs"]) == name) or (k == "Binary" and n["op"].endswith("=") and n["op"] not in ("==", "!=", "<=", ">=") and root(n["l"]) == name) or (
                        k == "MethodCall" and n["m"] not in PURE_METHODS and root(n["recv"]) == name):
                    found[0] = True
            from .ast import walk
            walk(node, f)
            return found[0]

        def leaves(stmts):
            if not stmts:
                return False
            last = stmts[-1]
            return last.get("k") == "ExprStmt" and last["e"].get("k") in ("Break", "Return")

        def check_block(stmts):
            for st in stmts:
                k = st.get("k")
                ex = st.get("e") if k == "ExprStmt" else st.get("init") if k == "Let" else None
                if ex is None:
                    continue
                if writes_here(ex) and not leaves(stmts):
                    return False
                if not check_expr(ex, leaves(stmts)):
                    return False
            return True

        def check_expr(ex, stmt_leaves=False):
            k = ex.get("k")
            if not stmt_leaves and writes_here(ex):
                return False  # a write in expression position (a match arm without a block, a condition): nothing leaves after it
            if k in ("Loop", "While", "For"):
                return not mentions_write(ex)
            if k == "Block":
                return check_block(ex["body"])
            if k == "If":
                return check_block(ex["then"]) and (ex.get("else") is None or check_expr(ex["else"]))
            if k == "Match":
                return all(check_expr(a["body"]) for a in ex["arms"])
            if k == "Closure":
                return True
            for v in ex.values():
                if isinstance(v, dict) and "k" in v and not check_expr(v):
                    return False
                if isinstance(v, list):
                    for x in v:
                        if isinstance(x, dict) and "k" in x and not check_expr(x):
                            return False
            return True

        return check_block(body)

    def _summary_loop(self, what, body, env, outer=None, markers=True, fresh=()):
        """a data-dependent loop: its body is evaluated once from an arbitrary iteration (loop-carried locals are
        unknown at the head), bracketed by loop markers; afterwards the carried locals hold 'whatever the loop left'"""
        carried = [n for n in self._assigned_locals(body, env) if n not in fresh]  # (the loop's own pattern variables are new in every iteration)
        exit_assigned = [n for n in carried if self._exit_assigned(body, n)]
        env2 = dict(env)
        for _i, n in enumerate(carried):
            if n not in exit_assigned:
                # DISTINCT_PHI (off by default; switched on by a rule for one function at a time): loop-carried locals with the
                # same initial value are told apart by their position - two counters that both start at 0 are phi1(0), phi2(0)
                env2[n] = ("unk", "\u03c6%s(%s)" % ((_i + 1) if DISTINCT_PHI else "", showv(env[n])))
        if markers:
            self.act("loop-begin " + what)
        how = "end"
        brk_val = UNIT
        try:
            self.block(body, env2)
        except _Break as b:
            how = "break"
            if b.v is not None:
                brk_val = b.v
        except _Continue:
            how = "end"  # `continue` = falling off the end of the body: the iteration is over either way
        except _Return:
            # leaving the function from inside the loop also leaves the loop
            if markers:
                self.act("loop-end", [("unk", "break")])
            raise
        if how == "end" and what == "loop":
            # an iteration of `loop` / `while` that completes goes round again: nothing after the loop follows from it; what the
            # iteration leaves in the loop-carried locals is part of its effect (positional, so that renaming a local is invisible)
            if markers:
                self.act("loop-end", [("unk", how)] + [("unk", showv(env2.get(n, env[n]))) for n in carried if n not in exit_assigned])
            raise _LoopBack()
        if markers:
            self.act("loop-end", [("unk", how)])
        for n in carried:
            if n in exit_assigned:
                val = env2.get(n, env[n]) if how == "break" else env[n]
            else:
                val = ("unk", "loop(%s)" % showv(env2.get(n, env[n])))
            env[n] = val
            if outer is not None and n in outer:
                outer[n] = val
        return brk_val

    def e_While(self, e, env):
        """`while c { B }` is `loop { if c { B } else { break } }` (and the `while let` form likewise): one canonical
        shape for both spellings, the test appears as an ordinary guard inside the loop"""
        brk = {"k": "Block", "body": [{"k": "ExprStmt", "e": {"k": "Break"}, "semi": True}]}
        body = [{"k": "ExprStmt", "e": {"k": "If", "cond": e["cond"], "then": e["body"], "else": brk}, "semi": False}]
        return self.e_Loop({"k": "Loop", "body": body, "label": e.get("label")}, env)

    _stage_n = 0

    ITER_SOURCES = {"iter", "iter_mut", "into_iter", "chars", "bytes", "char_indices", "rev", "enumerate", "chain", "drain", "values", "keys", "lines", "split", "skip", "take", "zip",
                    "filter", "map", "filter_map", "cloned", "copied", "peekable", "windows", "chunks", "take_while", "skip_while", "inspect"}

    def _iterish(self, ex):
        """is the receiver syntactically an iterator (a chain that starts at .iter() / .chars() / ...)"""
        return ex.get("k") == "MethodCall" and ex["m"] in self.ITER_SOURCES

    def _peel_stages(self, ex):
        """`SRC.filter(c).map(f).filter_map(g)` -> (SRC, [(kind, closure ast)...]) for the adaptors given as closure literals"""
        stages = []
        while ex.get("k") == "MethodCall" and ex["m"] in ("filter", "map", "filter_map", "inspect", "take_while") and len(ex["args"]) == 1 and ex["args"][0].get("k") == "Closure" \
                and len(ex["args"][0].get("params", [])) == 1:
            stages.insert(0, (ex["m"], ex["args"][0]))
            ex = ex["recv"]
        return ex, stages

    def _stage_stmts(self, stages, env, first):
        """statements that perform the adaptor stages on the loop item inside the loop body; -> (stmts, name of the final item)"""
        def path(n):
            return {"k": "Path", "path": n, "generics": None, "qself": None}

        def ident(n):
            return {"k": "PIdent", "name": n, "sub": None, "byref": False, "mut": False}

        stmts = []
        cur = first
        cont = {"k": "Block", "body": [{"k": "ExprStmt", "e": {"k": "Continue", "label": None}, "semi": True}], "label": None}
        for kind, cl in stages:
            Run._stage_n += 1
            fn = "__stage%d" % Run._stage_n
            env[fn] = self.eval(cl, env)
            call = {"k": "Call", "f": path(fn), "args": [path(cur)]}
            if kind == "filter":
                stmts.append({"k": "ExprStmt", "e": {"k": "If", "cond": {"k": "Unary", "op": "!", "e": call}, "then": cont["body"], "else": None}, "semi": False})
            elif kind == "take_while":
                brk = [{"k": "ExprStmt", "e": {"k": "Break", "label": None, "e": None}, "semi": True}]
                stmts.append({"k": "ExprStmt", "e": {"k": "If", "cond": {"k": "Unary", "op": "!", "e": call}, "then": brk, "else": None}, "semi": False})
            elif kind == "inspect":
                stmts.append({"k": "ExprStmt", "e": call, "semi": True})
            elif kind == "map":
                nxt = cur + "m"
                stmts.append({"k": "Let", "pat": ident(nxt), "init": call, "else": None})
                cur = nxt
            else:  # filter_map
                nxt = cur + "f"
                arms = [{"pat": {"k": "PTupleStruct", "path": "Some", "elems": [ident("__v")]}, "guard": None, "body": path("__v")},
                        {"pat": {"k": "PIdent", "name": "None", "sub": None, "byref": False, "mut": False}, "guard": None, "body": {"k": "Continue", "label": None}}]
                stmts.append({"k": "Let", "pat": ident(nxt), "init": {"k": "Match", "e": call, "arms": arms}, "else": None})
                cur = nxt
        return stmts, cur

    def _index_loop(self, e):
        """`for i in 0..N { .. X[i] .. }` where the counter is used only to index one base -> `for it in X[..N] { .. it .. }`"""
        it, pat = e["iter"], e["pat"]
        while it.get("k") == "Paren":
            it = it["e"]
        if it.get("k") != "Range" or pat.get("k") != "PIdent" or it.get("closed") or it.get("hi") is None:
            return None
        lo = it.get("lo")
        if not (lo is not None and lo.get("k") == "Lit" and str(lo.get("v")) == "0"):
            return None
        name = pat["name"]
        bases, other = [], [0]
        from .ast import walk

        def is_counter(x):
            x = self._no_usize(x)
            while x.get("k") in ("Cast", "Paren"):
                x = x["e"]
            return x.get("k") == "Path" and x["path"] == name

        def f(n):
            if n.get("k") == "Index" and is_counter(n["i"]):
                bases.append(n["e"])
                return False
            if n.get("k") == "Path" and n["path"] == name:
                other[0] += 1
            if n.get("k") == "Closure":
                return None
        walk(e["body"], f)
        if not bases or other[0] or len({show(b) for b in bases}) != 1:
            return None
        base = bases[0]
        if base.get("k") not in ("Path", "Field", "MethodCall", "Unary", "Ref"):
            return None
        Run._stage_n += 1
        el = "__el%d" % Run._stage_n

        def tr(n):
            if isinstance(n, list):
                return [tr(x) for x in n]
            if not isinstance(n, dict):
                return n
            if n.get("k") == "Index" and is_counter(n["i"]):
                return {"k": "Path", "path": el, "generics": None, "qself": None}
            return {k2: tr(v) for k2, v in n.items()}
        hi = self._no_usize(it["hi"])
        src = {"k": "Index", "e": base, "i": {"k": "Range", "lo": None, "hi": hi, "closed": False}}
        return {"k": "For", "pat": {"k": "PIdent", "name": el, "sub": None, "byref": False, "mut": False}, "iter": src, "body": tr(e["body"]), "label": e.get("label")}

    def e_For(self, e, env):
        il = self._index_loop(e)
        if il is not None:
            return self.e_For(il, env)
        src, stages = self._peel_stages(e["iter"]) if e["iter"].get("k") == "MethodCall" else (e["iter"], [])
        if stages:
            # `for x in SRC.filter(c).map(f) { B }` is `for it in SRC { if !c(it) { continue }; let x = f(it); B }`
            env2 = dict(env)
            Run._stage_n += 1
            first = "__it%d" % Run._stage_n
            stmts, last = self._stage_stmts(stages, env2, first)
            body = stmts + [{"k": "Let", "pat": e["pat"], "init": {"k": "Path", "path": last, "generics": None, "qself": None}, "else": None}] + list(e["body"])
            node = {"k": "For", "pat": {"k": "PIdent", "name": first, "sub": None, "byref": False, "mut": False}, "iter": src, "body": body, "label": e.get("label")}
            r = self.e_For(node, env2)
            for k2 in list(env.keys()):
                if k2 in env2:
                    env[k2] = env2[k2]
            return r
        env2 = dict(env)
        it = self.eval(e["iter"], env2) if e["iter"]["k"] != "Range" else ("unk", show_env(e["iter"], env2))
        self.match(e["pat"], ("unk", "item"), env2)
        fresh = []
        _pnames(e["pat"], fresh)
        return self._summary_loop("for _ in " + showv(it), e["body"], env2, env, fresh=fresh)

    def e_Try(self, e, env):
        """`x?` is `match x { Some(v) => v, None => return None }` (Ok / Err for a Result): the same canonical test"""
        v = self.eval(e["e"], env)
        fam = self.family(e["e"], v) or ("Result" if self.ret_ty.startswith("Result<") else "Option")
        ok, pay = self.present(v, fam)
        if ok:
            return pay
        if fam == "Option":
            raise _Return(("ctor", "None", ()))
        raise _Return(("unk", "Err(%s.err)" % showv(v)))

    def e_Field(self, e, env):
        b = self.eval(e["e"], env)
        if isinstance(b, tuple) and b[0] == "obj":
            path = b[1] + "." + e["name"]
            return ("obj", path)
        if isinstance(b, tuple) and b[0] == "tuple" and e["name"].isdigit():
            return b[1][int(e["name"])]
        return ("unk", showv(b) + "." + e["name"])

    def e_Assign(self, e, env):
        lhs = e["lhs"]
        v = self.eval(e["rhs"], env)
        # local variable?
        t = lhs
        while t["k"] in ("Unary", "Ref"):
            t = t["e"]
        if t["k"] == "Path" and t["path"] in env and not (isinstance(env[t["path"]], tuple) and env[t["path"]][0] == "obj"):
            env[t["path"]] = v
            return UNIT
        if t["k"] == "Index":
            base = t["e"]
            if base["k"] == "Path" and base["path"] in env:
                env[base["path"]] = ("unk", base["path"] + "'")
                return UNIT
        place = self.place_of(lhs, env)
        self.fields[place] = v
        self.act("assign " + place, [self.argv(v)])
        return UNIT

    def place_of(self, e, env):
        k = e["k"]
        if k in ("Unary", "Ref"):
            return self.place_of(e["e"], env)
        if k == "Path":
            v = env.get(e["path"])
            if isinstance(v, tuple) and v[0] == "obj":
                return v[1]
            if v is not None:
                return showv(v)
            return e["path"]
        if k == "Field":
            return self.place_of(e["e"], env) + "." + e["name"]
        if k == "MethodCall":
            if e["m"] in NOISE_METHODS:
                return self.place_of(e["recv"], env)
            return "%s.%s(%s)" % (self.place_of(e["recv"], env), e["m"], ",".join(showv(self.eval(a, env)) for a in e["args"]))
        if k == "Index":
            if DISTINCT_PHI:
                try:
                    return "%s[%s]" % (self.place_of(e["e"], env), showv(self.eval(e["i"], env)))
                except Exception:  # noqa
                    pass
            return "%s[..]" % self.place_of(e["e"], env)
        return show(e)

    def argv(self, v):
        """argument descriptor kept in an action"""
        return v

    def e_Call(self, e, env):
        f = e["f"]
        if f["k"] != "Path":
            args = [self.eval(a, env) for a in e["args"]]
            return ("unk", "indirect-call")
        p = f["path"]
        if p in env and isinstance(env[p], tuple) and env[p][0] == "closure":
            args = [self.eval(a, env) for a in e["args"]]
            return self.apply_closure(env[p], args)
        if p in env and isinstance(env[p], tuple) and env[p][0] == "unk" and re.fullmatch(r"[A-Za-z_][A-Za-z0-9_]*(::[A-Za-z_][A-Za-z0-9_]*)*", env[p][1]) and env[p][1] != p:
            # a local that holds a function (`let f: fn(..) = if c { g } else { h }; f(x)`): call what it holds
            return self.e_Call(dict(e, f=dict(f, path=env[p][1])), env)
        last = p.split("::")[-1]
        if last[:1].isupper() and not last.isupper() and p not in self.cfg.inline:
            args = tuple(self.eval(a, env) for a in e["args"])
            return ("ctor", last, args)
        if last in self.cfg.inline:
            args = [self.eval(a, env) for a in e["args"]]
            return self.inline_fn(self.cfg.inline[last], None, args)
        # method called with path syntax on the machine: Self::foo(..)
        if p.startswith("Self::"):
            args = [self.eval(a, env) for a in e["args"]]
            if last in self.cfg.guards:
                return ("unk", "Self::%s()" % last)
            self.act("call Self::" + last, [self.argv(a) for a in args])
            return ("unk", "Self::%s()" % last)
        if last in ("panic_fmt", "panic", "panic_display", "unreachable_display", "panic_explicit", "assert_failed", "begin_panic", "panic_str", "unreachable"):
            self.act("panic!")
            raise _Return(("unk", "!"))
        args = [self.eval(a, env) for a in e["args"]]
        if last == "from_u32" and len(args) == 1 and isinstance(self.resolve(args[0]), int):
            n = self.resolve(args[0])
            if 0 <= n <= 0x10FFFF and not (0xD800 <= n <= 0xDFFF):
                return ("ctor", "Some", (("ch", chr(n)),))
            return ("ctor", "None", ())
        if last in ("replace", "take") and len(args) in (1, 2) and (p.split("::")[0] in ("mem", "std", "core", last)) and self.cfg.generic_loops:
            # mem::replace / mem::take write the place they are given: an effect, and the old content as the value
            place = self.place_of(e["args"][0], env) if e["args"][0].get("k") in ("Ref", "Unary", "MethodCall", "Field", "Path") else showv(args[0])
            if last == "take" or showv(args[1]) in ("new()", "default()"):
                self.act("take " + place)
                return ("unk", "take(%s)" % place)
            self.act("replace " + place, [self.argv(args[1])])
            return ("unk", "replace(%s,%s)" % (place, showv(args[1])))
        if last == "replace" and len(args) == 2 and showv(args[1]) in ("new()", "default()"):
            # mem::replace(x, T::new() / Default::default()) is mem::take(x)
            return ("unk", "take(%s)" % showv(args[0]))
        if last in ("max", "min") and len(args) == 2 and p.split("::")[0] in ("cmp", "std", "core", last):
            return self.min_max(last, args[0], args[1])
        if last in self.cfg.pure_fns:
            return ("unk", "%s(%s)" % (last, ",".join(showv(a) for a in args)))
        # place arguments are rendered as places
        rargs = []
        for a, av in zip(e["args"], args):
            if isinstance(av, tuple) and av[0] in ("obj", "unk") and a["k"] in ("Ref", "MethodCall", "Field", "Unary"):
                rargs.append(("unk", self.place_of(a, env)))
            else:
                rargs.append(av)
        self.act("call " + last, [self.argv(a) for a in rargs])
        return ("unk", "%s(%s)" % (last, ",".join(showv(a) for a in rargs)) if self.cfg.full_call_text else "%s(..)" % last)

    def char_method(self, ch, m, args):
        c = ch[1]
        if m == "to_ascii_lowercase":
            return ("ch", c.lower() if c.isascii() else c)
        if m == "to_ascii_uppercase":
            return ("ch", c.upper() if c.isascii() else c)
        if m == "is_ascii_alphanumeric":
            return c.isascii() and c.isalnum()
        if m == "is_ascii_alphabetic":
            return c.isascii() and c.isalpha()
        if m == "is_ascii_digit":
            return c.isascii() and c.isdigit()
        if m == "is_ascii_hexdigit":
            return c in "0123456789abcdefABCDEF"
        if m == "is_ascii_uppercase":
            return c.isascii() and c.isupper()
        if m == "is_ascii_lowercase":
            return c.isascii() and c.islower()
        if m == "is_ascii_whitespace":
            return c in "\t\n\x0c\r "
        if m == "is_ascii":
            return c.isascii()
        if m == "to_digit":
            base = args[0]
            if not isinstance(base, int):
                return ("unk", "%r.to_digit(%s)" % (c, showv(base)))
            try:
                d = int(c, 36) if c.isascii() and c.isalnum() else None
            except ValueError:
                d = None
            if d is not None and d < base:
                return ("ctor", "Some", (d,))
            return ("ctor", "None", ())
        if m == "len_utf8":
            return len(c.encode("utf-8"))
        return None

    # ---------------------------------------------------------- Option / Result combinators as pattern tests
    OPT0 = {"pop", "pop_front", "pop_back", "last", "first", "next", "next_back", "peek", "take", "upgrade", "last_mut", "first_mut", "checked_neg"}
    OPT1 = {"get", "get_mut", "find", "position", "rposition", "checked_add", "checked_sub", "checked_mul", "checked_div", "strip_prefix", "strip_suffix", "nth", "to_digit", "find_map",
            "max_by_key", "min_by_key", "remove_entry"}
    KEEP_FAMILY = {"as_ref", "as_mut", "as_deref", "as_deref_mut", "cloned", "copied", "clone", "borrow", "borrow_mut", "filter", "or", "or_else", "map", "and_then", "inspect", "take"}

    def family(self, ex, v=None):
        """'Option' / 'Result' / None for the value of an expression (syntactic: constructors, declared return types of the
        crate's own functions, the std methods that return Option, locals bound to such values)"""
        if isinstance(v, tuple) and v and v[0] == "ctor":
            if v[1] in ("Some", "None"):
                return "Option"
            if v[1] in ("Ok", "Err"):
                return "Result"
        k = ex.get("k")
        while k in ("Ref", "Paren", "Unary"):
            ex = ex["e"]
            k = ex.get("k")
        if k == "Path":
            return self.varfam.get(ex["path"])
        if k == "Call" and ex["f"].get("k") == "Path":
            last = ex["f"]["path"].split("::")[-1]
            if last in ("Some",):
                return "Option"
            if last in ("Ok", "Err"):
                return "Result"
            if last in ("from_u32", "from_digit"):
                return "Option"
            return RET_FAMILY.get(last)
        if k == "MethodCall":
            m, n = ex["m"], len(ex["args"])
            if m in ("ok", "err"):
                return "Option"
            if m in ("ok_or", "ok_or_else"):
                return "Result"
            if (m in self.OPT0 and n == 0) or (m in self.OPT1 and n == 1):
                if m == "take" or m in ("map",):
                    pass
                return "Option"
            if m in self.KEEP_FAMILY:
                return self.family(ex["recv"])
            r = ex["recv"]
            while r.get("k") in ("Ref", "Paren", "Unary"):
                r = r["e"]
            # a method of the analysed crates whose every definition returns an Option (or a Result), whatever the receiver
            return RET_FAMILY.get(m)
        if k == "Try":
            return None
        if k == "Field":
            return None
        return None

    def present(self, v, fam):
        """fork on `v matches Some(_)` / `Ok(_)`; -> (is present, payload)"""
        pat = {"k": "PTupleStruct", "path": "Ok" if fam == "Result" else "Some", "elems": [{"k": "PIdent", "name": "__p", "sub": None}]}
        env2 = {}
        r = self.match(pat, v, env2)
        if r is None:
            r = self.pat_guard(v, pat)
        return bool(r), env2.get("__p")

    def call_value(self, c, args):
        if isinstance(c, tuple) and c and c[0] == "closure":
            return self.apply_closure(c, args)
        return ("unk", "%s(%s)" % (showv(c), ",".join(showv(a) for a in args)))

    def min_max(self, which, a, b):
        """a.max(b) / a.min(b) as the comparison they stand for: the same guard as `if a < b { b } else { a }`"""
        a, b = self.resolve(a), self.resolve(b)
        if isinstance(a, int) and isinstance(b, int) and not isinstance(a, bool) and not isinstance(b, bool):
            return max(a, b) if which == "max" else min(a, b)
        if which == "max":
            return b if self.truth(("unk", "(%s < %s)" % (showv(a), showv(b))), None) else a
        return b if self.truth(("unk", "(%s < %s)" % (showv(b), showv(a))), None) else a

    def option_method(self, e, recv, args):
        """models of the Option / Result combinators: the same canonical pattern test as the `match` / `if let` spelling.
        -> value, or NotImplemented"""
        m = e["m"]
        n = len(args)
        if not (is_unk(recv) or (isinstance(recv, tuple) and recv and recv[0] in ("ctor", "obj"))):
            return NotImplemented
        if isinstance(recv, tuple) and recv[0] == "obj" and (recv[1] in self.fields or m not in ("is_some", "is_none", "is_ok", "is_err")):
            return NotImplemented
        fam = self.family(e["recv"], recv)
        if m in ("is_some", "is_none") and n == 0:
            ok, _ = self.present(recv, "Option")
            return ok if m == "is_some" else not ok
        if m in ("is_ok", "is_err") and n == 0:
            ok, _ = self.present(recv, "Result")
            return ok if m == "is_ok" else not ok
        if m in ("or_else", "or", "filter", "xor") and n == 1 and fam == "Option" and m != "xor":
            ok, pay = self.present(recv, "Option")
            if m == "filter":
                if not ok:
                    return ("ctor", "None", ())
                keep = self.call_value(args[0], [pay])
                return ("ctor", "Some", (pay,)) if self.truth(keep, None) else ("ctor", "None", ())
            if ok:
                return ("ctor", "Some", (pay,))
            return args[0] if m == "or" else self.call_value(args[0], [])
        if m in ("ok_or", "ok_or_else") and n == 1 and (fam == "Option" or (isinstance(recv, tuple) and recv[0] == "ctor" and recv[1] in ("Some", "None"))):
            ok, pay = self.present(recv, "Option")
            if ok:
                return ("ctor", "Ok", (pay,))
            return ("ctor", "Err", (args[0] if m == "ok_or" else self.call_value(args[0], []),))
        if m in ("unwrap_or", "unwrap_or_else", "unwrap_or_default", "map_or", "map_or_else", "is_some_and", "is_ok_and", "is_none_or") or (m in ("map", "and_then") and fam is not None and n == 1):
            fam = fam or ("Result" if m == "is_ok_and" else "Option")
            ok, pay = self.present(recv, fam)
            if m == "unwrap_or" and n == 1:
                return pay if ok else args[0]
            if m == "unwrap_or_else" and n == 1:
                return pay if ok else self.call_value(args[0], [] if fam == "Option" else [("unk", showv(recv) + ".err")])
            if m == "unwrap_or_default" and n == 0:
                return pay if ok else ("unk", "default()")
            if m == "map_or" and n == 2:
                return self.call_value(args[1], [pay]) if ok else args[0]
            if m == "map_or_else" and n == 2:
                return self.call_value(args[1], [pay]) if ok else self.call_value(args[0], [])
            if m in ("is_some_and", "is_ok_and") and n == 1:
                return self.call_value(args[0], [pay]) if ok else False
            if m == "is_none_or" and n == 1:
                return self.call_value(args[0], [pay]) if ok else True
            if m == "map" and n == 1:
                if ok:
                    return ("ctor", "Ok" if fam == "Result" else "Some", (self.call_value(args[0], [pay]),))
                return ("ctor", "None", ()) if fam == "Option" else recv
            if m == "and_then" and n == 1:
                if ok:
                    return self.call_value(args[0], [pay])
                return ("ctor", "None", ()) if fam == "Option" else recv
        return NotImplemented

    def e_MethodCall(self, e, env):
        m = e["m"]
        if m == "extend" and len(e["args"]) == 1 and self.cfg.generic_loops and e["args"][0].get("k") == "MethodCall" and self._peel_stages(e["args"][0])[1]:
            # `v.extend(SRC.filter(c).map(f))` is `for it in SRC { if !c(it) { continue }; v.push(f(it)) }`
            Run._stage_n += 1
            k = Run._stage_n
            first = "__it%d" % k
            src, stages = self._peel_stages(e["args"][0])
            env2 = dict(env)
            stmts, last = self._stage_stmts(stages, env2, first)
            P = lambda n_: {"k": "Path", "path": n_, "generics": None, "qself": None}
            push = {"k": "ExprStmt", "e": {"k": "MethodCall", "recv": e["recv"], "m": "push", "args": [P(last)], "turbofish": None}, "semi": True}
            loop = {"k": "For", "pat": {"k": "PIdent", "name": first, "sub": None, "byref": False, "mut": False}, "iter": src, "body": stmts + [push], "label": None}
            self.e_For(loop, env2)
            for k2 in list(env.keys()):
                if k2 in env2:
                    env[k2] = env2[k2]
            return UNIT
        if m == "for_each" and len(e["args"]) == 1 and e["args"][0].get("k") == "Closure" and len(e["args"][0].get("params", [])) == 1 and self.cfg.generic_loops \
                and e["recv"].get("k") == "MethodCall" and self._iterish(e["recv"]):
            # `SRC.for_each(f)` is `for it in SRC { f(it) }`
            Run._stage_n += 1
            k = Run._stage_n
            first, fn = "__it%d" % k, "__each%d" % k
            src, stages = self._peel_stages(e["recv"])
            env2 = dict(env)
            stmts, last = self._stage_stmts(stages, env2, first)
            env2[fn] = self.eval(e["args"][0], env2)
            P = lambda n_: {"k": "Path", "path": n_, "generics": None, "qself": None}
            body = stmts + [{"k": "ExprStmt", "e": {"k": "Call", "f": P(fn), "args": [P(last)]}, "semi": True}]
            loop = {"k": "For", "pat": {"k": "PIdent", "name": first, "sub": None, "byref": False, "mut": False}, "iter": src, "body": body, "label": None}
            self.e_For(loop, env2)
            for k2 in list(env.keys()):
                if k2 in env2:
                    env[k2] = env2[k2]
            return UNIT
        if m in ("find_map", "find") and len(e["args"]) == 1 and e["args"][0].get("k") == "Closure" and len(e["args"][0].get("params", [])) == 1 \
                and self.cfg.generic_loops and e["recv"].get("k") in ("MethodCall", "Path", "Field") and self._iterish(e["recv"]):
            # a searching terminal is the loop it stands for: `SRC.find_map(f)` is
            # `{ let mut r = None; for it in SRC { if let Some(v) = f(it) { r = Some(v); break } } r }`, and likewise find / any / all
            def path(n):
                return {"k": "Path", "path": n, "generics": None, "qself": None}

            def ident(n, mut=False):
                return {"k": "PIdent", "name": n, "sub": None, "byref": False, "mut": mut}

            def lit(b):
                return {"k": "Lit", "t": "bool", "v": b}
            src, stages = self._peel_stages(e["recv"])
            Run._stage_n += 1
            k = Run._stage_n
            first, res, fn = "__it%d" % k, "__res%d" % k, "__term%d" % k
            env2 = dict(env)
            stmts, last = self._stage_stmts(stages, env2, first)
            env2[fn] = self.eval(e["args"][0], env2)
            call = {"k": "Call", "f": path(fn), "args": [path(last)]}
            brk = {"k": "ExprStmt", "e": {"k": "Break", "label": None, "e": None}, "semi": True}

            def assign(v):
                return {"k": "ExprStmt", "e": {"k": "Assign", "lhs": path(res), "rhs": v}, "semi": True}
            some = lambda x: {"k": "Call", "f": path("Some"), "args": [x]}
            if m == "find_map":
                init = path("None")
                body = [{"k": "ExprStmt", "e": {"k": "If", "cond": {"k": "LetCond", "pat": {"k": "PTupleStruct", "path": "Some", "elems": [ident("__v")]}, "e": call},
                                                "then": [assign(some(path("__v"))), brk], "else": None}, "semi": False}]
            elif m == "find":
                init = path("None")
                body = [{"k": "ExprStmt", "e": {"k": "If", "cond": call, "then": [assign(some(path(last))), brk], "else": None}, "semi": False}]
            elif m == "any":
                init = lit(False)
                body = [{"k": "ExprStmt", "e": {"k": "If", "cond": call, "then": [assign(lit(True)), brk], "else": None}, "semi": False}]
            elif m == "all":
                init = lit(True)
                body = [{"k": "ExprStmt", "e": {"k": "If", "cond": {"k": "Unary", "op": "!", "e": call}, "then": [assign(lit(False)), brk], "else": None}, "semi": False}]
            else:
                init = None
            if init is not None:
                loop = {"k": "For", "pat": ident(first), "iter": src, "body": stmts + body, "label": None}
                blk = [{"k": "Let", "pat": ident(res, True), "init": init, "else": None}, {"k": "ExprStmt", "e": loop, "semi": True}, {"k": "ExprStmt", "e": path(res), "semi": False}]
                r = self.block(blk, env2)
                for k2 in list(env.keys()):
                    if k2 in env2:
                        env[k2] = env2[k2]
                if m in ("find_map", "find"):
                    self.varfam["__last_terminal"] = "Option"
                return r
        if ((m == "fold" and len(e["args"]) == 2 and e["args"][1].get("k") == "Closure" and len(e["args"][1].get("params", [])) == 2) or (m == "count" and not e["args"])) \
                and self.cfg.generic_loops and e["recv"].get("k") == "MethodCall" and self._iterish(e["recv"]):
            # `SRC.fold(init, |acc, x| f)` is `{ let mut acc = init; for x in SRC { acc = f }; acc }`; count() adds one per item
            def path(n):
                return {"k": "Path", "path": n, "generics": None, "qself": None}

            def ident(n, mut=False):
                return {"k": "PIdent", "name": n, "sub": None, "byref": False, "mut": mut}
            src, stages = self._peel_stages(e["recv"])
            if m == "count" and not any(kind == "take_while" for kind, _ in stages):
                stages = None  # a plain `.filter(..).count()` stays the pure expression it is
        else:
            stages = None
        if stages is not None:
            def path(n):
                return {"k": "Path", "path": n, "generics": None, "qself": None}

            def ident(n, mut=False):
                return {"k": "PIdent", "name": n, "sub": None, "byref": False, "mut": mut}
            Run._stage_n += 1
            k = Run._stage_n
            first, acc, fn = "__it%d" % k, "__acc%d" % k, "__fold%d" % k
            env2 = dict(env)
            stmts, last = self._stage_stmts(stages, env2, first)
            p0 = e["args"][1]["params"][0] if m == "fold" else None
            if isinstance(p0, dict) and "pat" in p0 and "k" not in p0:
                p0 = p0["pat"]
            if m == "fold" and e["args"][0].get("k") == "Tuple" and isinstance(p0, dict) and p0.get("k") == "PTuple" and len(p0["elems"]) == len(e["args"][0]["elems"]) >= 2:
                # a tuple of accumulators is one local per component: `fold((a0, b0), |(a, b), x| (fa, fb))` is
                # `{ let mut a = a0; let mut b = b0; for x in SRC { let (ta, tb) = (fa, fb); a = ta; b = tb }; (a, b) }`
                n_acc = len(p0["elems"])
                accs = ["%s_%d" % (acc, i) for i in range(n_acc)]
                tmps = ["__t%d_%d" % (k, i) for i in range(n_acc)]
                env2[fn] = self.eval(e["args"][1], env2)
                call = {"k": "Call", "f": path(fn), "args": [{"k": "Tuple", "elems": [path(a) for a in accs]}, path(last)]}
                steps = [{"k": "Let", "pat": {"k": "PTuple", "elems": [ident(t) for t in tmps]}, "init": call, "else": None}]
                steps += [{"k": "ExprStmt", "e": {"k": "Assign", "lhs": path(a), "rhs": path(t)}, "semi": True} for a, t in zip(accs, tmps)]
                loop = {"k": "For", "pat": ident(first), "iter": src, "body": stmts + steps, "label": None}
                blk = [{"k": "Let", "pat": ident(a, True), "init": x, "else": None} for a, x in zip(accs, e["args"][0]["elems"])]
                blk += [{"k": "ExprStmt", "e": loop, "semi": True}, {"k": "ExprStmt", "e": {"k": "Tuple", "elems": [path(a) for a in accs]}, "semi": False}]
                r = self.block(blk, env2)
                for k2 in list(env.keys()):
                    if k2 in env2:
                        env[k2] = env2[k2]
                return r
            if m == "fold":
                env2[fn] = self.eval(e["args"][1], env2)
                step = {"k": "ExprStmt", "e": {"k": "Assign", "lhs": path(acc), "rhs": {"k": "Call", "f": path(fn), "args": [path(acc), path(last)]}}, "semi": True}
                init = e["args"][0]
            else:
                step = {"k": "ExprStmt", "e": {"k": "Binary", "op": "+=", "l": path(acc), "r": {"k": "Lit", "t": "int", "v": 1, "suffix": ""}}, "semi": True}
                init = {"k": "Lit", "t": "int", "v": 0, "suffix": ""}
            loop = {"k": "For", "pat": ident(first), "iter": src, "body": stmts + [step], "label": None}
            blk = [{"k": "Let", "pat": ident(acc, True), "init": init, "else": None}, {"k": "ExprStmt", "e": loop, "semi": True}, {"k": "ExprStmt", "e": path(acc), "semi": False}]
            r = self.block(blk, env2)
            for k2 in list(env.keys()):
                if k2 in env2:
                    env[k2] = env2[k2]
            return r
        if m == "collect" and not e["args"] and self.cfg.generic_loops and e["recv"].get("k") == "MethodCall":
            src, stages = self._peel_stages(e["recv"])
            if stages:
                # `SRC.filter(c).map(f).collect()` is `{ let mut v = Vec::new(); for it in SRC { ..stages..; v.push(it) } v }`
                def path(n):
                    return {"k": "Path", "path": n, "generics": None, "qself": None}
                Run._stage_n += 1
                first, acc = "__it%d" % Run._stage_n, "__acc%d" % Run._stage_n
                env2 = dict(env)
                stmts, last = self._stage_stmts(stages, env2, first)
                push = {"k": "ExprStmt", "e": {"k": "MethodCall", "recv": path(acc), "m": "push", "args": [path(last)], "turbofish": None}, "semi": True}
                loop = {"k": "For", "pat": {"k": "PIdent", "name": first, "sub": None, "byref": False, "mut": False}, "iter": src, "body": stmts + [push], "label": None}
                blk = [{"k": "Let", "pat": {"k": "PIdent", "name": acc, "sub": None, "byref": False, "mut": True}, "init": {"k": "Call", "f": path("Vec::new"), "args": []}, "else": None},
                       {"k": "ExprStmt", "e": loop, "semi": True},
                       {"k": "ExprStmt", "e": path(acc), "semi": False}]
                r = self.block(blk, env2)
                for k2 in list(env.keys()):
                    if k2 in env2:
                        env[k2] = env2[k2]
                return r
        # noise wrappers
        if m in NOISE_METHODS and not e["args"]:
            return self.eval(e["recv"], env)
        recv = self.eval(e["recv"], env)
        args = [self.eval(a, env) for a in e["args"]]
        if isinstance(recv, tuple) and recv[0] == "ch":
            r = self.char_method(recv, m, args)
            if r is not None:
                return r
        if isinstance(recv, int) and not isinstance(recv, bool) and 0 <= recv < 256 and (m.startswith("is_ascii") or m in ("to_ascii_lowercase", "to_ascii_uppercase")) and not args:
            # u8 has the same ASCII predicates as char
            r = self.char_method(("ch", chr(recv)), m, args)
            if r is not None:
                return ord(r[1]) if isinstance(r, tuple) and r[0] == "ch" else r
        if isinstance(recv, tuple) and recv[0] == "ctor" and recv[1] in ("Some", "None"):
            if m in ("unwrap", "expect") and recv[1] == "Some":
                return recv[2][0]
            if m in ("unwrap", "expect") and recv[1] == "None" and self.cfg.generic_loops:
                self.act("panic!")
                raise _Return(("unk", "!"))
            if m == "is_some":
                return recv[1] == "Some"
            if m == "is_none":
                return recv[1] == "None"
        if m in ("max", "min") and len(args) == 1 and (is_unk(recv) or isinstance(recv, int)) and not (isinstance(recv, tuple) and recv[0] == "closure") and self.family(e["recv"], recv) is None \
                and not (e["recv"].get("k") == "MethodCall" and e["recv"]["m"] in ("iter", "into_iter", "map", "filter", "chars", "bytes", "rev", "cloned", "copied", "values", "keys")):
            return self.min_max(m, recv, args[0])
        if m == "checked_sub" and len(args) == 1 and self.cfg.generic_loops and (is_unk(recv) or isinstance(recv, int)) and (is_unk(args[0]) or isinstance(args[0], int)):
            # a.checked_sub(b) is `if a < b { None } else { Some(a - b) }`
            a, b = self.resolve(recv), self.resolve(args[0])
            if isinstance(a, int) and isinstance(b, int) and not isinstance(a, bool) and not isinstance(b, bool):
                return ("ctor", "None", ()) if a < b else ("ctor", "Some", (a - b,))
            if self.truth(("unk", "(%s < %s)" % (showv(a), showv(b))), None):
                return ("ctor", "None", ())
            return ("ctor", "Some", (("unk", "(%s - %s)" % (showv(a), showv(b))),))
        if m in OPTION_METHODS:
            r = self.option_method(e, recv, args)
            if r is not NotImplemented:
                return r
        if isinstance(recv, tuple) and recv[0] == "obj":
            root = recv[1]
            full = root + "." + m
            # acquisition primitive?
            if m in self.cfg.acquire and root.split(".")[0] in self.cfg.objects:
                return self.cfg.acquire[m](self, root, m, args, e)
            # known field cell
            if m == "get" and root in self.fields:
                return self.fields[root]
            if m == "set" and len(args) == 1:
                if self.fields.get(root) != args[0]:
                    # (re-setting a cell to the value it is known to hold is not an action)
                    self.act("set " + root, [self.argv(args[0])])
                self.fields[root] = args[0]
                return UNIT
            if full in self.cfg.guards or (m == "get" and root in self.cfg.guards):
                return ("unk", root if m == "get" else full + "()")
            # method of the machine itself
            if root in self.cfg.objects[:1] or root == "self":
                if m in self.cfg.accessors:
                    return ("obj", "%s.%s(%s)" % (root, m, ",".join(showv(a) for a in args)))
                if m in self.cfg.primitives:
                    self.act(m, [self.argv(a) for a in args])
                    return ("unk", "self.%s(%s)" % (m, ",".join(showv(a) for a in args)) if self.cfg.full_call_text else "self.%s()" % m)
                if m in self.cfg.inline:
                    return self.inline_fn(self.cfg.inline[m], recv, args)
            if m in PURE_METHODS:
                return ("unk", "%s.%s(%s)" % (root, m, ",".join(showv(a) for a in args)))
            self.act(full, [self.argv(a) for a in args])
            return ("unk", "%s(%s)" % (full, ",".join(showv(a) for a in args)) if self.cfg.full_call_text else full + "()")
        if is_unk(recv):
            if m in PURE_METHODS:
                return ("unk", "%s.%s(%s)" % (showv(recv), m, ",".join(showv(a) for a in args)))
            # effect on something derived from an unknown (e.g. a borrow of a field)
            pl = self.place_of(e["recv"], env)
            self.act(pl + "." + m, [self.argv(a) for a in args])
            return ("unk", "%s.%s(%s)" % (pl, m, ",".join(showv(a) for a in args)) if self.cfg.full_call_text else "%s.%s()" % (pl, m))
        if isinstance(recv, tuple) and recv[0] == "str":
            if m == "len":
                return len(recv[1].encode())
        txt = "%s.%s(%s)" % (showv(recv), m, ",".join(showv(a) for a in args))
        if self.cfg.full_call_text and m not in PURE_METHODS:
            # a method that may mutate a local value (Vec::push, Option::get_or_insert, ...)
            self.act("local." + m, [recv] + [self.argv(a) for a in args])
            t = e["recv"]
            while t.get("k") in ("Ref", "Unary"):
                t = t["e"]
            if t.get("k") == "Path" and t["path"] in env:
                env[t["path"]] = ("unk", txt)
        return ("unk", txt)

    def inline_fn(self, item, recv, args):
        if self.depth > 6:
            raise Unsupported("inline depth")
        env = {}
        params = item["sig"]["params"]
        ai = 0
        for p in params:
            if p.get("name") == "self":
                env["self"] = recv if recv is not None else ("obj", "self")
                continue
            if ai < len(args):
                self.match(p["pat"], args[ai], env)
            ai += 1
        self.depth += 1
        saved = self.depth_loops
        self.depth_loops = 0
        try:
            try:
                return self.block(item["body"], env)
            except _Return as r:
                if r.v == ("unk", "!"):
                    raise  # a panic inside an inlined helper ends the whole path
                return r.v
        finally:
            self.depth -= 1
            self.depth_loops = saved

    # -------------------------------------------------------------- statements
    def block(self, stmts, env):
        last = UNIT
        for s in stmts:
            k = s["k"]
            last = UNIT
            if k == "Let":
                if s.get("init") is None:
                    if s["pat"]["k"] == "PIdent":
                        env[s["pat"]["name"]] = ("unk", "uninit")
                    continue
                v = self.eval(s["init"], env)
                env2 = dict(env)
                r = self.match(s["pat"], v, env2)
                if r is None and s.get("else") is not None:
                    r = self.pat_guard(v, s["pat"])
                if r is False:
                    if s.get("else") is None:
                        raise _Infeasible()
                    self.eval(s["else"], env)
                    raise Unsupported("let-else fell through")
                env.update(env2)
                if s["pat"]["k"] == "PIdent":
                    fam = self.family(s["init"], v)
                    if fam:
                        self.varfam[s["pat"]["name"]] = fam
                    else:
                        self.varfam.pop(s["pat"]["name"], None)
            elif k == "ExprStmt":
                ex = s["e"]
                if ex["k"] == "Block" and is_log_block(ex):
                    continue
                v = self.eval(ex, env)
                if not s.get("semi"):
                    last = v
            elif k == "ItemStmt":
                it = s["item"]
                if it.get("k") == "Fn":
                    # local helper fn: make it inlinable
                    self.cfg.inline.setdefault(it["name"], {"sig": it.get("sig") or {"params": []}, "body": it["body"], "name": it["name"], "local": True})
                elif it.get("k") in ("Const", "Static") and it.get("init") is not None and is_scalar_const(it["init"]) and it.get("name"):
                    env[it["name"]] = self.eval(it["init"], {})
                continue
            else:
                raise Unsupported("stmt " + k)
        return last


_CMP_OPS = (" != ", " == ", " <= ", " >= ", " < ", " > ")


def _split_top_cmp(lab):
    """'(A op B)' -> (A, op, B) when exactly one comparison operator sits at the top level of the outer parentheses"""
    if not (lab.startswith("(") and lab.endswith(")")):
        return None
    depth = 0
    pos = None
    i = 0
    n = len(lab)
    while i < n:
        ch = lab[i]
        if ch == "'" and i + 2 < n and lab[i + 2] == "'":
            i += 3
            continue
        if ch == "'" and i + 3 < n and lab[i + 1] == "\\" and lab[i + 3] == "'":
            i += 4
            continue
        if ch == '"':
            j = i + 1
            while j < n and lab[j] != '"':
                j += 2 if lab[j] == "\\" else 1
            i = j + 1
            continue
        if ch in "([{":
            depth += 1
        elif ch in ")]}":
            depth -= 1
            if depth == 0 and i != n - 1:
                return None
        elif depth == 1 and ch == " ":
            for op in _CMP_OPS:
                if lab.startswith(op, i):
                    if pos is not None:
                        return None
                    pos = (i, op)
                    i += len(op) - 1
                    break
            else:
                if lab.startswith(" && ", i) or lab.startswith(" || ", i):
                    return None
        i += 1
    if pos is None:
        return None
    return lab[1:pos[0]], pos[1].strip(), lab[pos[0] + len(pos[1]):-1]


def _split_top_ne(lab):
    c = _split_top_cmp(lab)
    return (c[0], c[2]) if c and c[1] == "!=" else None


_CONST_TEXT = re.compile(r"""^(?:'(?:\\.|[^'\\])+'|-?\d+|"(?:\\.|[^"\\])*"|atom:[^\s,(){}]*|[A-Z][A-Za-z0-9_]*)$""")


def is_const_text(t):
    """the rendering of a literal, an interned atom, a unit variant, or a constructor / struct literal of such"""
    t = t.strip()
    if _CONST_TEXT.match(t):
        return True
    m = re.match(r"^([A-Z][A-Za-z0-9_]*)([({])(.*)([)}])$", t, re.S)
    if not m or (m.group(2), m.group(4)) not in (("(", ")"), ("{", "}")):
        return False
    from .machine import _split_top
    parts = [x for x in _split_top(m.group(3), ",") if x.strip()]
    if not parts:
        return False
    for x in parts:
        if m.group(2) == "{":
            if ":" not in x:
                return False
            x = x.split(":", 1)[1]
        if not is_const_text(x):
            return False
    return True


def named_struct_text(t):
    """`Name(a,b)` (how a struct literal value is shown) -> `Name{f1:a,f2:b}` (how the same constant is shown as a pattern)"""
    m = re.match(r"^([A-Z][A-Za-z0-9_]*)\((.*)\)$", t.strip(), re.S)
    if not m or m.group(1) not in STRUCT_FIELDS:
        return t
    from .machine import _split_top
    parts = [x for x in _split_top(m.group(2), ",")]
    order = STRUCT_FIELDS[m.group(1)]
    if len(parts) != len(order):
        return t
    return "%s{%s}" % (m.group(1), ",".join("%s:%s" % (f, named_struct_text(x.strip())) for f, x in zip(order, parts)))


def canon_cond(lab):
    """-> (canonical label, negated): `!x`, `a != b`, `a > b`, `a >= b`, `a <= b`, `x == true/false` are spelled with `==` and `<` only"""
    neg = False
    for _ in range(8):
        while lab.startswith("!"):
            lab = lab[1:]
            neg = not neg
        c = _split_top_cmp(lab)
        if c is None:
            break
        a, op, b = c
        if op == "!=":
            lab, neg = "(%s == %s)" % (a, b), not neg
        elif op == ">":
            lab = "(%s < %s)" % (b, a)
        elif op == ">=":
            lab, neg = "(%s < %s)" % (a, b), not neg
        elif op == "<=":
            lab, neg = "(%s < %s)" % (b, a), not neg
        elif op == "==" and (is_const_text(b) != is_const_text(a)) and not (b in ("true", "false") or a in ("true", "false")):
            # comparing with a constant is the pattern test `x matches CONST` (`if c == 'a'` and `match c { 'a' => ..}` agree,
            # and tests against different constants are known to exclude each other)
            x, k = (a, b) if is_const_text(b) else (b, a)
            lab = "%s matches %s" % (x, named_struct_text(k))
            break
        elif op == "==" and b in ("true", "false"):
            lab, neg = a, (neg if b == "true" else not neg)
            continue
        elif op == "==" and a in ("true", "false"):
            lab, neg = b, (neg if a == "true" else not neg)
            continue
        else:
            break
        if op != "!=":
            break
    return lab, neg


# crate-level scalar constants used when a Config does not name its own (set per crate by scalar_consts())
DEFAULT_CONSTS = {}


def is_scalar_const(init):
    k = init.get("k")
    if k == "Lit":
        return init.get("t") in ("int", "str", "char", "bool", "byte", "bytes", "float") or isinstance(init.get("v"), (int, str, bool))
    if k == "Unary" and init.get("op") == "-":
        return is_scalar_const(init["e"])
    if k in ("Paren", "Group"):
        return is_scalar_const(init["e"])
    if k == "Cast":
        return is_scalar_const(init["e"])
    return False


def scalar_consts(items):
    """name -> init expression for the Const/Static items of a crate whose initialiser is a scalar literal and whose name is unique"""
    seen = {}
    for it in items:
        if it.get("k") in ("Const", "Static") and it.get("name") and it.get("init") is not None and not it.get("mut"):
            seen.setdefault(it["name"], []).append(it)
    return {n: v[0]["init"] for n, v in seen.items() if len(v) == 1 and is_scalar_const(v[0]["init"])}


class _Infeasible(Exception):
    pass


def fold_actions(actions, fold):
    """fold: [(helper name, ((action, args), ...))] - the bodies of reviewed straight-line helpers that no longer exist as
    functions; where a path performs exactly such a body it is spelled as the call of the helper again, so that writing a
    helper out at its call sites (and deleting it) leaves the tables in the reviewed vocabulary"""
    if not fold:
        return actions
    acts = [(a, tuple(showv(x) if not isinstance(x, str) else x for x in args)) for a, args in actions]
    out = list(actions)
    for name, body in sorted(fold, key=lambda f: -len(f[1])):
        n = len(body)
        i = 0
        while n and i + n <= len(out):
            if tuple(acts[i:i + n]) == tuple(body):
                out[i:i + n] = [(name, ())]
                acts[i:i + n] = [(name, ())]
            i += 1
    return out


def explore(cfg, runner, max_paths=20000):
    """enumerate all choice scripts.  runner(run) executes the construct; returns list of path dicts"""
    out = []
    stack = [[]]
    n = 0
    while stack:
        script = stack.pop()
        n += 1
        if n > max_paths:
            raise Unsupported("too many paths")
        run = Run(cfg, script)
        try:
            outcome = runner(run)
        except NeedChoice as nc:
            for i in range(len(nc.options) - 1, -1, -1):
                stack.append(script + [i])
            continue
        except _Infeasible:
            continue
        out.append({"choices": run.choices, "actions": fold_actions(run.actions, getattr(cfg, "fold", ())), "outcome": outcome, "fields": run.fields})
    return out


def run_body(run, body_expr_or_block, env):
    """execute a state arm body (an expression) and classify how it ends"""
    try:
        if isinstance(body_expr_or_block, list):
            v = run.block(body_expr_or_block, env)
        else:
            v = run.eval(body_expr_or_block, env)
        return ("value", v)
    except _Return as r:
        return ("return", r.v)
    except _LoopBack:
        return ("loop",)
    except _Break as b:
        return ("break", b.v)
