"""Normal forms of arbitrary functions (not only state machines).

nf_function(item) evaluates one function body with lib/flat.py: parameters are positional symbols, every call is an
opaque effect (or an opaque pure value), every undecidable condition forks.  The result is the set of paths
(guard valuation -> ordered effects, result).  Two normal forms are compared pointwise over all valuations of the
guards either side mentions (lib/machine.compare_projected), so statement-level rewrites that keep the same
effects under the same conditions compare equal; renaming locals / parameters, reordering match arms, changing
parse-error texts, adding log statements do not change a normal form.

Functions whose path count explodes fall back to a structural form: the body rendered with let-bound names
alpha-normalised, log blocks and error texts removed.
"""
import re

from .ast import is_log_block, walk
from .flat import Config, Run, explore, run_body, show, showv, Unsupported, NeedChoice, is_unk
from . import machine as mc

MAX_PATHS = 8000


def fn_key(it):
    st = (it.get("self_ty") or "").replace(" ", "")
    tr = (it.get("trait") or "").replace(" ", "")
    return "%s::%s%s::%s" % (it["mod"], (st + ("[" + tr + "]" if tr else "")) if st else "", "", it["name"]) if st else "%s::%s" % (it["mod"], it["name"])


GUARD_PREFIXES = ("self.",)


def nf_function(it, extra_guards=(), int_like=(), inline=None, consts=None):
    """-> ('paths', projected cells) | ('tree', text)"""
    body = it["body"]
    cuts, lits = mc.char_cuts([body] + [x["body"] for x in (inline or {}).values()])
    has_char_param = any((p.get("ty") or "").replace(" ", "") == "char" for p in it["sig"]["params"] if p.get("name") != "self")
    classes = mc.classes_from_cuts(cuts) if has_char_param else [(0, 0x10FFFF)]
    cfg = Config(acquire={}, primitives=set(), inline=dict(inline or {}), guards=set(extra_guards), samples=[], accessors=set(), full_call_text=True, generic_loops=True, consts=consts or {})
    cfg.objects = ("self",)
    try:
        try:
            cells = tabulate_generic(it, cfg, classes, has_char_param)
        except Unsupported as e:
            if not (has_char_param and "partition" in str(e)):
                raise
            # the character is only converted / compared as a number: treat it as an opaque value
            cells = tabulate_generic(it, cfg, [(0, 0x10FFFF)], False)
        return ("paths", mc.project_fn(cells))
    except Unsupported as e:
        return ("tree", tree_form(it), str(e))


def tabulate_generic(item, cfg, classes, has_char_param):
    samples_of = {cl: mc.class_samples(cl) for cl in classes}
    sample_class = {s: cl for cl, ss in samples_of.items() for s in ss}
    all_samples = [s for cl in classes for s in samples_of[cl]]

    def runner(run):
        env = {}
        i = 0
        run.param_families(item.get("sig"))
        for p in item["sig"]["params"]:
            if p.get("name") == "self":
                env["self"] = ("obj", "self")
                continue
            i += 1
            names = []
            _pat_names(p["pat"], names)
            ty = (p.get("ty") or "").replace(" ", "")
            for nm in names:
                if ty == "char" and has_char_param:
                    env[nm] = run.choose("acq", "param%d" % i, [(c, ("ch", c)) for c in all_samples])
                else:
                    env[nm] = ("unk", "p%d" % i if len(names) == 1 else "p%d.%s" % (i, nm))
        out = run_body(run, item["body"], env)
        if run.ret_ty == "bool" and out[0] in ("value", "return") and len(out) > 1 and is_unk(out[1]) and not (isinstance(out[1], tuple) and out[1][0] == "closure"):
            # a boolean answer that is an expression: the two answers are two paths (`pred(c)` and `if pred(c) {true} else {false}` agree)
            out = (out[0], run.truth(out[1], None))
        return out

    paths = explore(cfg, runner, max_paths=MAX_PATHS)
    groups = {}
    for p in paths:
        skel = []
        samp = []
        for kind, label, chosen in p["choices"]:
            if kind == "acq" and chosen in sample_class:
                skel.append((kind, label, ("class", sample_class[chosen])))
                samp.append(chosen)
            else:
                for sx in samp[:1]:
                    label = label.replace(repr(sx), "«c»")
                skel.append((kind, label, chosen))
        groups.setdefault(tuple(skel), []).append((tuple(samp), p))
    cells = []
    for skel, members in groups.items():
        shapes = {(tuple(a[0] for a in p["actions"]), mc.outcome_render(p["outcome"])[0]) for _, p in members}
        if len(shapes) != 1:
            raise Unsupported("partition not exact")
        acts = []
        p0 = members[0][1]
        for i, (an, _) in enumerate(p0["actions"]):
            per = [((smp[0] if smp else None), p["actions"][i][1]) for smp, p in members]
            acts.append((an, mc.canon_action_args(an, per)))
        per_out = [((smp[0] if smp else None), (mc.outcome_value(p["outcome"]),)) for smp, p in members]
        outv = mc.canon_action_args("out", per_out)[0]
        cells.append({"choices": [[k, l, ({"lo": c[1][0], "hi": c[1][1]} if isinstance(c, tuple) else c)] for k, l, c in skel],
                      "actions": acts, "outcome": "return", "value": outv, "next": "-"})
    return cells


def _pat_names(p, out):
    k = p.get("k")
    if k == "PIdent":
        out.append(p["name"])
        if p.get("sub"):
            _pat_names(p["sub"], out)
    elif k in ("PRef",):
        _pat_names(p["pat"], out)
    elif k in ("PTuple", "PTupleStruct", "PSlice"):
        for e in p["elems"]:
            _pat_names(e, out)
    elif k == "PStruct":
        for f in p["fields"]:
            _pat_names(f["pat"], out)


# ------------------------------------------------------------------ structural fallback
def tree_form(it):
    """body rendered canonically: let-bound / pattern-bound names alpha-normalised, logs and messages dropped"""
    from .render import render
    from .flat import show

    params = [p["pat"] for p in it["sig"]["params"] if p.get("name") != "self"]
    return render(it["body"], params, None, show)


def select(ast, crate, mods=None, exclude_names=(), include_tests=False):
    out = []
    for it in ast.crates[crate]:
        if it["k"] != "Fn" or it.get("body") is None:
            continue
        if mods is not None and not any(it["mod"] == m or it["mod"].startswith(m + "::") or it["mod"].endswith("::" + m) or ("::" + m + "::") in ("::" + it["mod"] + "::") for m in mods):
            continue
        if not include_tests and (it["mod"].endswith("::test") or it["mod"].endswith("::tests") or "::test::" in it["mod"] or any("test" == a for a in it.get("attrs", []))):
            continue
        if it["name"] in exclude_names:
            continue
        if any(a.startswith("automatically_derived") for a in it.get("attrs", [])):
            continue
        out.append(it)
    return out


def select_consts(ast, crate, mods=None):
    out = []
    for it in ast.crates[crate]:
        if it["k"] not in ("Static", "Const") or it.get("init") is None or it.get("name") in (None, "_"):
            continue
        if mods is not None and not any(it["mod"] == m or it["mod"].startswith(m + "::") or it["mod"].endswith("::" + m) or ("::" + m + "::") in ("::" + it["mod"] + "::") for m in mods):
            continue
        if it["mod"].endswith("::test") or it["mod"].endswith("::tests") or "::test::" in it["mod"]:
            continue
        out.append(it)
    return out


def set_like_consts(items):
    """names of array constants that the crate only ever uses as a set: every use is NAME.contains(..) or NAME.iter().any(..) / .all(..),
    directly or through a reference passed to a local helper whose parameter is used that way.  Their element order is irrelevant."""
    uses = {}

    def scan(node, parent_chain):
        if isinstance(node, dict):
            k = node.get("k")
            if k == "Path" and "::" not in node.get("path", "") and node["path"].isupper() or (k == "Path" and node.get("path", "").replace("_", "").isupper() and node.get("path", "").upper() == node.get("path", "")):
                name = node["path"].split("::")[-1]
                ok = False
                p1 = parent_chain[-1] if parent_chain else None
                p2 = parent_chain[-2] if len(parent_chain) > 1 else None
                if p1 is not None and p1.get("k") == "MethodCall" and p1.get("recv") is node:
                    if p1.get("m") == "contains":
                        ok = True
                    elif p1.get("m") == "iter" and p2 is not None and p2.get("k") == "MethodCall" and p2.get("recv") is p1 and p2.get("m") in ("any", "all"):
                        ok = True
                elif p1 is not None and p1.get("k") == "Call" and node in p1.get("args", []):
                    ok = "arg:" + str(p1.get("f", {}).get("path", "")).split("::")[-1] + ":" + str(p1["args"].index(node))
                uses.setdefault(name, []).append(ok)
            for v in node.values():
                if isinstance(v, (dict, list)):
                    scan(v, parent_chain + [node] if "k" in node else parent_chain)
        elif isinstance(node, list):
            for v in node:
                scan(v, parent_chain)

    fns = {}
    for it in items:
        if it.get("k") == "Fn" and it.get("body") is not None:
            scan(it["body"], [])
            fns.setdefault(it["name"], it)

    def collect_local_fns(node):
        if isinstance(node, dict):
            if node.get("k") == "ItemStmt" and node.get("item", {}).get("k") == "Fn":
                fns.setdefault(node["item"]["name"], node["item"])
            for v in node.values():
                if isinstance(v, (dict, list)):
                    collect_local_fns(v)
        elif isinstance(node, list):
            for v in node:
                collect_local_fns(v)
    for it in items:
        if it.get("k") == "Fn" and it.get("body") is not None:
            collect_local_fns(it["body"])

    def param_is_set_like(fname, idx):
        it = fns.get(fname)
        if it is None:
            return False
        ps = [p for p in it.get("sig", {}).get("params", []) if p.get("name") != "self"]
        if idx >= len(ps) or ps[idx]["pat"].get("k") != "PIdent":
            return False
        pname = ps[idx]["pat"]["name"]
        local = {}

        def scan2(node, chain):
            if isinstance(node, dict):
                if node.get("k") == "Path" and node.get("path") == pname:
                    p1 = chain[-1] if chain else None
                    p2 = chain[-2] if len(chain) > 1 else None
                    ok = p1 is not None and p1.get("k") == "MethodCall" and p1.get("recv") is node and (
                        p1.get("m") == "contains" or (p1.get("m") == "iter" and p2 is not None and p2.get("k") == "MethodCall" and p2.get("recv") is p1 and p2.get("m") in ("any", "all")))
                    local.setdefault("u", []).append(ok)
                for v in node.values():
                    if isinstance(v, (dict, list)):
                        scan2(v, chain + [node] if "k" in node else chain)
            elif isinstance(node, list):
                for v in node:
                    scan2(v, chain)
        scan2(it["body"], [])
        return bool(local.get("u")) and all(local["u"])

    out = set()
    for name, us in uses.items():
        if us and all((u is True) or (isinstance(u, str) and param_is_set_like(u.split(":")[1], int(u.split(":")[2]))) for u in us):
            out.add(name)
    return out


def _sorted_array(init):
    """the array literal with its (literal) elements sorted, or None when it is not an array of literals"""
    e = init
    wrap = []
    while e.get("k") in ("Ref", "Paren"):
        wrap.append(e)
        e = e["e"]
    if e.get("k") != "Array" or not all(x.get("k") == "Lit" for x in e["elems"]):
        return None
    new = dict(e, elems=sorted(e["elems"], key=lambda x: (str(type(x.get("v"))), str(x.get("v")))))
    for w in reversed(wrap):
        new = dict(w, e=new)
    return new


PRIVATE_VIS = ("", "pub(crate)", "pub(super)", "pub(self)", "pub(in crate)")


def area_nf(ast, crate, mods, exclude_names=(), skip_types=(), known_keys=None, only_names=()):
    """-> {key: {'kind': 'paths'|'tree', ...}} JSON-able.
    known_keys: function keys of the reviewed reference.  A private, non-trait function of the area that is not among
    them and whose name is unique in the crate (a helper extracted by a refactoring) is inlined into its callers (free
    functions everywhere, methods into methods of the same type called on self) instead of being reported, so the
    callers are compared with the reference as if the code had not been moved.  It is listed under '_inlined_new'."""
    from .render import render
    from .flat import scalar_consts, is_scalar_const
    consts = scalar_consts(ast.crates[crate])
    setlike = set_like_consts(ast.crates[crate])
    from . import render as _render
    _render.CONSTS = consts
    res = {}
    new_private = {}
    if known_keys is not None:
        counts = {}
        for it in ast.crates[crate]:
            if it["k"] == "Fn":
                counts[it["name"]] = counts.get(it["name"], 0) + 1
        for it in select(ast, crate, mods, exclude_names):
            if fn_key(it) not in known_keys and (it.get("vis") or "") in PRIVATE_VIS and not it.get("trait") and counts.get(it["name"]) == 1 and len(it["name"]) > 3:
                new_private[it["name"]] = it
    _render.INLINE = {nm: x for nm, x in new_private.items() if x.get("body") is not None and not [p for p in x["sig"]["params"] if p.get("name") != "self"]}
    _render.INLINE_ARGS = {nm: x for nm, x in new_private.items() if x.get("body") is not None and [p for p in x["sig"]["params"] if p.get("name") != "self"]}
    for it in select_consts(ast, crate, mods):
        key = "const %s::%s" % (it["mod"], it["name"])
        if key in res or it["name"] in consts:
            continue  # scalar constants are substituted at their uses instead
        try:
            init = it["init"]
            why = "constant"
            if it["name"] in setlike:
                srt = _sorted_array(init)
                if srt is not None:
                    init, why = srt, "constant used only as a set (elements sorted)"
            res[key] = {"kind": "tree", "text": "%s = %s" % ((it.get("ty") or "").replace(" ", ""), render(init)), "why": why}
        except Exception as e:  # noqa
            res[key] = {"kind": "tree", "text": "unrenderable: %s" % e, "why": "constant"}
    for it in select(ast, crate, mods, exclude_names):
        if only_names and it["name"] not in only_names:
            continue
        if skip_types and not only_names and (it.get("self_ty") or "").replace(" ", "").split("<")[0] in skip_types:
            continue
        key = fn_key(it)
        if it["name"] in new_private and new_private[it["name"]] is it:
            continue
        n = 2
        base = key
        while key in res:
            key = "%s#%d" % (base, n)
            n += 1
        st = (it.get("self_ty") or "").replace(" ", "")
        inl = {nm: dict(x, new_private=True) for nm, x in new_private.items() if not x.get("self_ty") or (x.get("self_ty") or "").replace(" ", "") == st}
        r = nf_function(it, inline=inl, consts=consts)
        if r[0] == "paths":
            res[key] = {"kind": "paths", "cells": mc.to_json({key: r[1]})[key]}
        else:
            res[key] = {"kind": "tree", "text": r[1], "why": r[2]}
        if (it.get("vis") or "") in PRIVATE_VIS and not it.get("trait"):
            res[key]["private"] = True
    if new_private:
        res["_inlined_new"] = {"kind": "note", "names": sorted(fn_key(x) for x in new_private.values())}
    _render.INLINE = {}
    _render.INLINE_ARGS = {}
    return res


def self_ty_of_key(key):
    m = re.search(r"(?:^|::)([A-Z][A-Za-z0-9_]*)(?:<[^\[]*?>)?(?:\[[^\]]*\])?::[A-Za-z_0-9#]+$", key)
    return m.group(1) if m else ""


def expand_calls(cells, name, helper_cells, limit=4000):
    """replace every call action of the method / function `name` in `cells` by the paths of its normal form `helper_cells`
    (parameters p1.. substituted by the argument texts, the call's value by the path's result)"""
    forms = ("self." + name, "call " + name, "call Self::" + name)
    work = list(cells)
    out = []
    rounds = 0
    while work:
        pc = work.pop()
        rounds += 1
        if rounds > limit:
            return None
        idxs = [i for i, (a, _) in enumerate(pc["actions"]) if a in forms]
        if not idxs:
            out.append(pc)
            continue
        i = idxs[0]
        a, args = pc["actions"][i]
        args = [str(x) for x in args]

        def sub(t):
            return re.sub(r"\bp(\d+)\b", lambda m: args[int(m.group(1)) - 1] if int(m.group(1)) <= len(args) else m.group(0), str(t))

        call_txts = ["self.%s(%s)" % (name, ",".join(args)), "%s(%s)" % (name, ",".join(args)), "Self::%s()" % name]
        for h in helper_cells:
            if h.get("acq"):
                return None
            g = dict(pc["guards"])
            clash = False
            for k, v in h["guards"].items():
                k2 = sub(k)
                if k2 in g and g[k2] != v:
                    clash = True
                    break
                g[k2] = v
            if clash:
                continue
            retv = sub(h["ret"])

            def val(t):
                t = str(t)
                for ct in call_txts:
                    if ct in t:
                        t = t.replace(ct, retv)
                return t

            acts = tuple(pc["actions"][:i]) + tuple((sub(an), tuple(sub(x) for x in aa)) for an, aa in h["actions"]) + tuple((an, tuple(val(x) for x in aa)) for an, aa in pc["actions"][i + 1:])
            g2 = {}
            for k, v in g.items():
                k2 = val(k)
                if k2 in ("true", "false"):
                    if (k2 == "true") != v:
                        clash = True
                    continue
                if k2 in g2 and g2[k2] != v:
                    clash = True
                g2[k2] = v
            if clash:
                continue
            work.append(dict(pc, guards=g2, actions=acts, ret=val(pc["ret"]) if isinstance(pc["ret"], str) else pc["ret"]))
    return out


def _helper_key(table, fkey, name):
    base = fkey.rsplit("::", 1)[0]
    cands = [base + "::" + name, re.sub(r"\[[^\]]*\]$", "", base) + "::" + name]
    for c in cands:
        if c in table and table[c].get("kind") == "paths":
            return c
    # the same self type in another module of the area (impl blocks spread over files)
    ty = re.sub(r"\[[^\]]*\]$", "", base).rsplit("::", 1)[-1]
    hits = [k for k in table if k.endswith("::" + ty + "::" + name) and isinstance(table[k], dict) and table[k].get("kind") == "paths"]
    return hits[0] if len(hits) == 1 else None


def compare_area(ref, new, report_ok, report_bad, summ=None, full_ref=None, full_new=None):
    """summ: effect summaries of the crate (lib/effects.py); when given, the actions of every path on both sides are put
    into the canonical order of independent effects before they are compared"""
    from . import effects
    n = 0
    for key in sorted(set(ref) | set(new)):
        if key == "_inlined_new":
            continue
        if key not in new:
            if ref[key].get("private") and not key.startswith("const "):
                # a private function that is gone can only matter through its former callers, and those are compared (with its
                # reviewed normal form written out at the call sites)
                report_ok(key, "private function no longer exists; its callers are compared with its body written out")
                continue
            report_bad(key, "function-missing", "reviewed function no longer exists (renamed or removed): re-review needed")
            continue
        if key not in ref:
            if key.startswith("const "):
                continue  # a new table is visible at its uses
            ty = self_ty_of_key(key)
            type_is_new = bool(ty) and not any(k2 != key and self_ty_of_key(k2) == ty for k2 in ref)
            if ("[" not in key.rsplit("::", 1)[0].rsplit(">", 1)[-1] and "]::" not in key) or type_is_new:
                # an inherent or free function nobody reviewed changes nothing by existing: if a reviewed function calls it, that
                # caller's normal form shows the call and differs.  (A new method in a trait impl is different: it can override a
                # default method or be entered implicitly - Drop - without any caller changing, so that stays an alarm; unless the
                # type itself is new: nothing that was reviewed can hold a value of it.)
                report_ok(key, "new function; not part of the reviewed behaviour unless a reviewed function calls it (then that caller differs)")
                continue
            report_bad(key, "function-new", "function is not in the reviewed reference")
            continue
        a, b = ref[key], new[key]
        if a["kind"] != b["kind"]:
            report_bad(key, "form-changed", "normal form kind changed from %s to %s" % (a["kind"], b["kind"]))
            continue
        if a["kind"] == "tree":
            n += 1
            if a["text"] != b["text"]:
                i = 0
                while i < min(len(a["text"]), len(b["text"])) and a["text"][i] == b["text"][i]:
                    i += 1
                report_bad(key, "body-differs", "structural form differs at offset %d: reference '...%s' code '...%s'" % (i, a["text"][max(0, i - 40):i + 60], b["text"][max(0, i - 40):i + 60]))
            else:
                report_ok(key, "structural form equals the reference")
            continue
        diffs = []
        ca, cb = mc.from_json({key: a["cells"]})[key], mc.from_json({key: b["cells"]})[key]
        if summ is not None:
            st = self_ty_of_key(key)
            for cells in (ca, cb):
                for pc in cells:
                    pc["actions"] = effects.canonical_order(pc["actions"], st, summ)
        n += mc.compare_pairwise(ca, cb, lambda k, d: diffs.append((k, d)))
        if diffs:
            # a call of a small helper written out at the call site (or the reverse): compare again with the helper's own
            # normal form spliced into the side that still calls it
            def call_names(cells):
                return {a.split(" ", 1)[-1].replace("Self::", "").replace("self.", "") for pc in cells for a, _ in pc["actions"] if re.fullmatch(r"(self\.|call (Self::)?)[a-z_][a-z_0-9]*", a)}
            ra, rb = call_names(ca), call_names(cb)
            done = False
            for hn in sorted(ra | rb):
                sides = []
                for cur, table in ((ca, full_ref or ref), (cb, full_new or new)):
                    hk = _helper_key(table, key, hn)
                    if hk is None or hk == key:
                        sides.append(cur if not any(a in ("self." + hn, "call " + hn, "call Self::" + hn) for pc in cur for a, _ in pc["actions"]) else None)
                        continue
                    hc = mc.from_json({hk: table[hk]["cells"]})[hk]
                    if len(hc) > 6 or any(a.startswith("loop-") or a in ("self." + hn, "call " + hn) for pc in hc for a, _ in pc["actions"]):
                        sides.append(None)  # only small, loop-free, non-recursive helpers are written out
                        continue
                    ex = expand_calls(cur, hn, hc)
                    if ex is not None and summ is not None:
                        for pc in ex:
                            pc["actions"] = effects.canonical_order(pc["actions"], self_ty_of_key(key), summ)
                    sides.append(ex)
                if sides[0] is None or sides[1] is None:
                    continue
                d2 = []
                mc.compare_pairwise(sides[0], sides[1], lambda k, d: d2.append((k, d)))
                if not d2:
                    report_ok(key, "paths equal the reference after writing out the calls of %s" % hn)
                    done = True
                    break
            if done:
                continue
            report_bad(key, diffs[0][0], diffs[0][1][:700])
        else:
            report_ok(key, "%d paths equal the reference pointwise" % len(b["cells"]))
    return n
