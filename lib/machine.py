"""Flattened transition functions of the HTML and XML tokenizers (built on lib/flat.py)."""
import itertools

from .ast import walk
from .flat import Config, Run, explore, run_body, show, showv, Unsupported, UNIT, is_unk
from .mir import AnchorMissing

FIXED_CUTS = [0x30, 0x3A, 0x41, 0x47, 0x5B, 0x61, 0x67, 0x7B, 0x80, 0xD800, 0xE000]


def char_cuts(nodes):
    """cut points induced by every char literal / char range that occurs in the given AST nodes"""
    cuts = set(FIXED_CUTS)
    lits = set()

    def f(n):
        k = n.get("k")
        if k == "Lit" and n.get("t") == "char":
            c = ord(n["v"])
            lits.add(c)
            cuts.add(c)
            cuts.add(c + 1)
        if k == "PRange":
            for key, off in (("lo", 0), ("hi", 1)):
                x = n.get(key)
                if x and x.get("k") == "Lit" and x.get("t") == "char":
                    cuts.add(ord(x["v"]) + (off if n.get("closed") or key == "lo" else 0))
            return False

    ints = set()

    def g(n):
        k = n.get("k")
        if k == "PLit" and n["lit"].get("t") == "int":
            v = int(n["lit"]["v"])
            if v <= 0x10FFFF:
                cuts.add(v)
                cuts.add(v + 1)
        if k == "PRange":
            for key, off in (("lo", 0), ("hi", 1)):
                x = n.get(key)
                if x and x.get("k") == "Lit" and x.get("t") == "int" and int(x["v"]) <= 0x10FFFF:
                    cuts.add(int(x["v"]) + (off if n.get("closed") or key == "lo" else 0))
        if k == "Lit" and n.get("t") == "int":
            ints.add(int(n["v"]))

    for nd in nodes:
        walk(nd, f)
        walk(nd, g)
    if 0xFFFE in ints:
        # the noncharacter test `(n & 0xFFFE) == 0xFFFE` is not an interval: cut around every plane's last two code points
        for plane in range(17):
            cuts.add(plane * 0x10000 + 0xFFFE)
            cuts.add(plane * 0x10000 + 0x10000)
    return cuts, lits


def classes_from_cuts(cuts):
    """-> list of (lo, hi) inclusive intervals covering 0..0x10FFFF without surrogates"""
    pts = sorted(c for c in cuts if 0 < c <= 0x10FFFF)
    out = []
    lo = 0
    for p in pts + [0x110000]:
        if p > lo:
            out.append((lo, p - 1))
            lo = p
    return [(a, b) for a, b in out if not (a >= 0xD800 and b <= 0xDFFF)]


def class_samples(cl):
    a, b = cl
    s = {a, b, (a + b) // 2}
    return [chr(x) for x in sorted(s)]


def class_name(cl):
    a, b = cl
    if a == b:
        return repr(chr(a))
    return "[%s-%s]" % (("U+%04X" % a) if a < 0x21 or a > 0x7E else chr(a), ("U+%04X" % b) if b < 0x21 or b > 0x7E else chr(b))


def enum_values(enums, name):
    """all concrete values of enum `name` (constructor applied to all values of its field enums)"""
    e = enums[name]
    out = []
    for v in e["variants"]:
        fts = [f["ty"].replace(" ", "").split("::")[-1] for f in v["fields"]]
        if not fts:
            out.append(("ctor", v["name"], ()))
        else:
            for combo in itertools.product(*[enum_values(enums, t) for t in fts]):
                out.append(("ctor", v["name"], tuple(combo)))
    return out


def canon_value(v, s):
    """render a value with every character leaf expressed relative to the sampled input character s"""
    if isinstance(v, int) and not isinstance(v, bool) and s is not None and s.isascii() and s.isalnum() and int(s, 36) == v:
        return "\u00abdigit(c)\u00bb"
    if isinstance(v, tuple):
        if v[0] == "ch":
            if s is not None and v[1] == s:
                return "\u00abc\u00bb"
            if s is not None and s.isascii() and v[1] == s.lower():
                return "\u00ablower(c)\u00bb"
            if s is not None and s.isascii() and v[1] == s.upper():
                return "\u00abupper(c)\u00bb"
            return repr(v[1])
        if v[0] == "ctor":
            return v[1] + ("(%s)" % ",".join(canon_value(a, s) for a in v[2]) if v[2] else "")
        if v[0] == "tuple":
            return "(%s)" % ",".join(canon_value(a, s) for a in v[1])
        if v[0] == "unk" and s is not None and repr(s) in v[1]:
            t = v[1].replace(repr(s), "\u00abc\u00bb")
            return t
    return showv(v)


def describe_char_arg(vals_by_sample):
    """vals_by_sample: list of (sample_char, value) -> canonical descriptor of an argument"""
    if not all(isinstance(v, tuple) and v[0] == "ch" for _, v in vals_by_sample):
        rs = {canon_value(v, s) for s, v in vals_by_sample}
        if len(rs) == 1:
            return rs.pop()
        return "varies:" + "|".join(sorted(rs))
    return _describe_char(vals_by_sample)


def _describe_char(vals_by_sample):
    if all(isinstance(v, tuple) and v[0] == "ch" for _, v in vals_by_sample):
        # canonical form: prefer "c" (identity), then "lower(c)", then a literal, so that
        # `'-' => emit('-')` and `c => emit(c)` tabulate identically on the class {'-'}
        if all(s is not None and v[1] == s for s, v in vals_by_sample):
            return "c"
        if len({v[1] for _, v in vals_by_sample}) == 1:
            return "lit:" + repr(vals_by_sample[0][1][1])
        if all(s is not None and v[1] == (s.lower() if s.isascii() else s) for s, v in vals_by_sample):
            return "lower(c)"
        if all(s is not None and v[1] == (s.upper() if s.isascii() else s) for s, v in vals_by_sample):
            return "upper(c)"
        return "char?:" + ",".join(repr(v[1]) for _, v in vals_by_sample)
    rs = {showv(v) for _, v in vals_by_sample}
    if len(rs) == 1:
        return rs.pop()
    return "varies:" + "|".join(sorted(rs))


class Machine:
    """a tokenizer `step` function tabulated"""

    def __init__(self, ast, crate, mod, self_ty, enums_mod, cfg_kw, step_name="step", state_expr="self.state.get()"):
        self.ast = ast
        self.crate = crate
        self.self_ty = self_ty
        items = ast.crates[crate]
        self.methods = {}
        for it in items:
            if it["k"] == "Fn" and it.get("self_ty") and it["self_ty"].replace(" ", "").split("<")[0] == self_ty and it["mod"].endswith(mod) and it.get("body") is not None:
                self.methods[it["name"]] = it
        if step_name not in self.methods:
            raise AnchorMissing("%s::%s::%s not found" % (crate, self_ty, step_name))
        self.enums = {it["name"]: it for it in items if it["k"] == "Enum" and it["mod"].endswith(enums_mod)}
        self.cfg_kw = cfg_kw
        self.free_fns = {it["name"]: it for it in items if it["k"] == "Fn" and not it.get("self_ty") and it.get("body") is not None}

    def state_match(self, fn_name):
        """the `match <state expr> { .. }` of a step function -> (prelude stmts, match expr)"""
        body = self.methods[fn_name]["body"]
        found = []

        def f(n):
            if n.get("k") == "Match" and show(n["e"]) in ("self.state.get()", "self.state"):
                found.append(n)
                return False

        walk(body, f)
        if len(found) != 1:
            raise AnchorMissing("%s: expected one match on the state, found %d" % (fn_name, len(found)))
        return found[0]


# --------------------------------------------------------------------------- acquisition oracles
def _opt_none():
    return ("ctor", "None", ())


def make_acquire(samples, runtoken=("unk", "run")):
    """acquisition handlers shared by the HTML and XML machines"""

    def get_char(run, root, m, args, e):
        opts = [("None", _opt_none())] + [(c, ("ctor", "Some", (("ch", c),))) for c in samples]
        return run.choose("acq", m, opts)

    def pop_except_from(run, root, m, args, e):
        st = None
        for a in args:
            if isinstance(a, tuple) and a[0] == "set":
                st = a[1]
        label = "pop_except_from{%s}" % ("".join(sorted(st)) if st is not None else "simd" if m != "pop_except_from" else "?")
        label = label.encode("unicode_escape").decode()
        opts = [("None", _opt_none())]
        opts += [(c, ("ctor", "Some", (("ctor", "FromSet", (("ch", c),)),))) for c in samples]
        opts += [("RUN", ("ctor", "Some", (("ctor", "NotFromSet", (runtoken,)),)))]
        return run.choose("acq", label, opts)

    def eat(run, root, m, args, e):
        pat = showv(args[1]) if len(args) > 1 else "?"
        eq = showv(args[2]) if len(args) > 2 else ""
        label = "eat(%s,%s)" % (pat, eq.split("::")[-1])
        opts = [("None", _opt_none()), ("true", ("ctor", "Some", (True,))), ("false", ("ctor", "Some", (False,)))]
        return run.choose("acq", label, opts)

    def front_chunk(run, root, m, args, e):
        opts = [("None", _opt_none()), ("Some", ("ctor", "Some", (("obj", "front_buffer"),)))]
        return run.choose("acq", m, opts)

    return {
        "get_char": get_char,
        "peek": get_char,
        "pop_except_from": pop_except_from,
        "data_state_simd_fast_path": pop_except_from,
        "eat": eat,
        "peek_front_chunk_mut": front_chunk,
    }


def canon_action_args(name, per_sample_args):
    """per_sample_args: list of (sample, args tuple) for one action position -> tuple of descriptors"""
    n = len(per_sample_args[0][1])
    out = []
    for i in range(n):
        out.append(describe_char_arg([(s, a[i]) for s, a in per_sample_args]))
    return tuple(out)


def tabulate(machine, fn_name, cfg, classes, states, first_acq_only=True):
    """-> dict state_render -> list of cells.
    A cell: {event, guards, actions, next, reconsume, outcome, consumes}
    event is ('EOFQ',) suspend / ('class', name) / ('run',) / ('noinput',)
    """
    m = machine.state_match(fn_name)
    samples_of = {cl: class_samples(cl) for cl in classes}
    sample_class = {}
    for cl, ss in samples_of.items():
        for s in ss:
            sample_class[s] = cl
    table = {}
    for st in states:
        # select the arm
        arm_body = None
        env0 = None
        probe = Run(cfg, [])
        for arm in m["arms"]:
            env = {}
            r = probe.match(arm["pat"], st, env)
            if r:
                if arm.get("guard") is not None:
                    raise Unsupported("guard on a state arm")
                arm_body = arm["body"]
                env0 = env
                break
        sname = showv(st)
        if arm_body is None:
            table[sname] = None
            continue

        def runner(run, arm_body=arm_body, env0=env0, st=st):
            run.fields["self.state"] = st
            env = dict(env0)
            env["self"] = ("obj", "self")
            env["input"] = ("obj", "input")
            return run_body(run, arm_body, env)

        paths = explore(cfg, runner)
        # group paths by the choice skeleton with sample chars replaced by their class
        groups = {}
        for p in paths:
            skel = []
            samp = []
            for kind, label, chosen in p["choices"]:
                if kind == "acq" and chosen in sample_class:
                    skel.append((kind, label, ("class", sample_class[chosen])))
                    samp.append(chosen)
                else:
                    for sx in samp[:1]:
                        label = label.replace(repr(sx), "\u00abc\u00bb")
                    skel.append((kind, label, chosen))
            groups.setdefault(tuple(skel), []).append((tuple(samp), p))
        cells = []
        for skel, members in groups.items():
            # all samples of the classes must be present and agree structurally
            shapes = {(tuple(a[0] for a in p["actions"]), outcome_render(p["outcome"])[0]) for _, p in members}
            cls = [c[2][1] for c in skel if isinstance(c[2], tuple) and c[2][0] == "class"]
            expect = 1
            for c in cls:
                expect *= len(samples_of[c])
            if len(shapes) != 1 or len(members) != expect:
                raise Unsupported("state %s: partition not exact for %s (%d shapes, %d/%d members)" % (sname, skel, len(shapes), len(members), expect))
            # canonical action arguments (char args as functions of the first sampled char)
            acts = []
            p0 = members[0][1]
            for i, (an, _) in enumerate(p0["actions"]):
                per = [((smp[0] if smp else None), p["actions"][i][1]) for smp, p in members]
                acts.append((an, canon_action_args(an, per)))
            per_out = [((smp[0] if smp else None), (outcome_value(p["outcome"]),)) for smp, p in members]
            outv = canon_action_args("out", per_out)[0]
            per_state = [((smp[0] if smp else None), (p["fields"].get("self.state"),)) for smp, p in members]
            nxt = canon_action_args("state", per_state)[0]
            cells.append({
                "choices": [[k, l, ({"lo": c[1][0], "hi": c[1][1]} if isinstance(c, tuple) else c)] for k, l, c in skel],
                "actions": acts,
                "outcome": outcome_render(p0["outcome"])[0],
                "value": outv,
                "next": nxt,
            })
        table[sname] = cells
    return table


def outcome_render(o):
    if o[0] == "return":
        return ("return",)
    return (o[0],)


def outcome_value(o):
    if o[0] in ("return", "value", "break") and len(o) > 1 and o[1] is not None:
        return o[1]
    return UNIT


# --------------------------------------------------------------------------- cell algebra
PATH_SELECT_GUARDS = ("self.opts.exact_errors", "self.reconsume", "self.ignore_lf", "Self::is_supported_simd_feature_detected()")
HOUSEKEEPING_ACTIONS = ("input.pop_front",)


def is_path_select(label):
    return label in PATH_SELECT_GUARDS or label.startswith("front_buffer.")


def project(cells):
    """raw cells -> projected cells {acq, guards, actions, ret, next, raw_guards}.
    Path-select guards (option reads and queue-state tests that only choose between the fast and the slow
    way of reading the same characters) and the SIMD plumbing are projected away; rule R08 separately requires
    that all variants that project onto the same cell agree."""
    out = []
    for c in cells:
        acq = []
        guards = {}
        ps = {}
        for k, l, ch in c["choices"]:
            if k == "guard":
                if is_path_select(l):
                    ps[l] = ch
                else:
                    guards[l] = (ch == "true")
            else:
                if l == "peek_front_chunk_mut":
                    if ch == "None":
                        acq.append(("pop_except_from", "None"))
                    continue
                if l.startswith("pop_except_from{"):
                    l = "pop_except_from"
                acq.append((l, (ch["lo"], ch["hi"]) if isinstance(ch, dict) else ch))
        acts = tuple((a, tuple(args)) for a, args in c["actions"] if a not in HOUSEKEEPING_ACTIONS)
        ret = c["value"] if c["outcome"] == "return" else ("Continue" if c["outcome"] == "loop" else c["outcome"] + ":" + str(c["value"]))
        out.append({"acq": acq, "guards": guards, "actions": acts, "ret": ret, "next": c["next"], "path_select": ps, "looped": c["outcome"] == "loop"})
    return out


def acq_key(pc):
    return tuple((l, "CLASS" if isinstance(ch, tuple) else ch) for l, ch in pc["acq"])


def acq_intervals(pc):
    return [ch for l, ch in pc["acq"] if isinstance(ch, tuple)]


def eval_desc(d, ch):
    if isinstance(d, str) and "\u00ab" in d and ch is not None:
        low = ch.lower() if ch.isascii() else ch
        up = ch.upper() if ch.isascii() else ch
        dg = str(int(ch, 36)) if ch.isascii() and ch.isalnum() else "?"
        return d.replace("\u00abc\u00bb", repr(ch)).replace("\u00ablower(c)\u00bb", repr(low)).replace("\u00abupper(c)\u00bb", repr(up)).replace("\u00abdigit(c)\u00bb", dg)
    if d == "c":
        return ch
    if d == "lower(c)":
        return ch.lower() if ch is not None and ch.isascii() else ch
    if d == "upper(c)":
        return ch.upper() if ch is not None and ch.isascii() else ch
    if isinstance(d, str) and d.startswith("lit:"):
        return eval(d[4:])
    return d


def result_at(pc, ch):
    return (tuple((a, tuple(eval_desc(x, ch) for x in args)) for a, args in pc["actions"]), eval_desc(pc["ret"], ch), eval_desc(pc["next"], ch))


def render_result(r):
    acts, ret, nxt = r
    return "%s | %s | next %s" % ("; ".join("%s(%s)" % (a, ",".join(str(x) for x in args)) for a, args in acts), ret, nxt)


def lookup(pcs, key, point, valuation):
    """projected cells of one state matching an acquisition key at a sample point under a guard valuation"""
    res = []
    for pc in pcs:
        if acq_key(pc) != key:
            continue
        ivs = acq_intervals(pc)
        if any(not (lo <= ord(p) <= hi) for (lo, hi), p in zip(ivs, point)):
            continue
        if any(valuation.get(g) is not None and valuation[g] != v for g, v in pc["guards"].items()):
            continue
        res.append(pc)
    return res


def sample_points(pcs_a, pcs_b, key):
    """sample tuples over the common refinement of the class intervals (first char dimension refined, others by own samples)"""
    ivs = [acq_intervals(pc) for pc in pcs_a + pcs_b if acq_key(pc) == key]
    if not ivs or not ivs[0]:
        return [()]
    ndim = len(ivs[0])
    dims = []
    for d in range(ndim):
        cuts = set()
        for iv in ivs:
            cuts.add(iv[d][0])
            cuts.add(iv[d][1] + 1)
        pts = sorted(cuts)
        samples = set()
        for a, b in zip(pts, pts[1:]):
            for x in (a, b - 1, (a + b - 1) // 2):
                if not (0xD800 <= x <= 0xDFFF):
                    samples.add(x)
        dims.append([chr(x) for x in sorted(samples)])
    import itertools

    return list(itertools.product(*dims))


def variants_agree(pcs, report, state):
    """R08: cells that differ only in path-select guards must have equal results"""
    n = 0
    keys = sorted({acq_key(pc) for pc in pcs}, key=str)
    for key in keys:
        group = [pc for pc in pcs if acq_key(pc) == key]
        gnames = sorted({g for pc in group for g in pc["guards"]})
        import itertools

        for point in sample_points(group, [], key):
            for vals in itertools.product([True, False], repeat=len(gnames)):
                V = dict(zip(gnames, vals))
                ms = lookup(group, key, point, V)
                rs = {}
                for pc in ms:
                    rs.setdefault(result_at(pc, point[0] if point else None), []).append(pc["path_select"])
                n += 1
                if len(rs) > 1:
                    items = list(rs.items())
                    report(state, "path-select variants disagree at %s %s %s: %s under %s  vs  %s under %s" % (
                        key, [repr(p) for p in point], V, render_result(items[0][0]), items[0][1][0], render_result(items[1][0]), items[1][1][0]))
                    return n
    return n


def compare_projected(ref, new, report):
    """ref/new: state -> projected cells.  Pointwise comparison over the common refinement of the
    character partitions and over all valuations of the guards mentioned by either side."""
    import itertools

    n = 0
    for st in sorted(set(ref) | set(new)):
        if st not in new or new[st] is None:
            report("state-missing", st, "state has no arm in the analysed code")
            continue
        if st not in ref or ref[st] is None:
            report("state-unknown", st, "state is not in the reference")
            continue
        keys = sorted({acq_key(pc) for pc in ref[st]} | {acq_key(pc) for pc in new[st]}, key=str)
        for key in keys:
            gnames = sorted({g for pc in ref[st] + new[st] if acq_key(pc) == key for g in pc["guards"]})
            bad = False
            for point in sample_points(ref[st], new[st], key):
                for vals in itertools.product([True, False], repeat=len(gnames)):
                    V = dict(zip(gnames, vals))
                    a = lookup(ref[st], key, point, V)
                    b = lookup(new[st], key, point, V)
                    n += 1
                    ch = point[0] if point else None
                    ra = {result_at(pc, ch) for pc in a}
                    rb = {result_at(pc, ch) for pc in b}
                    if ra != rb:
                        what = "cell-differs" if ra and rb else ("path-missing" if ra else "path-new")
                        report(what, st, "%s at %s %s: reference {%s}  code {%s}" % (
                            list(key), [repr(p) for p in point], {k: v for k, v in V.items()},
                            " || ".join(render_result(r) for r in ra) or "absent", " || ".join(render_result(r) for r in rb) or "absent"))
                        bad = True
                        break
                if bad:
                    break
    return n


def merge_intervals(ivs):
    out = []
    for lo, hi in sorted(ivs):
        if out and (lo <= out[-1][1] + 1 or (out[-1][1] == 0xD7FF and lo == 0xE000)):
            out[-1] = (out[-1][0], max(out[-1][1], hi))
        else:
            out.append((lo, hi))
    return out


def complement_intervals(ivs):
    out = []
    cur = 0
    for lo, hi in ivs:
        if lo > cur:
            out.append((cur, lo - 1))
        cur = hi + 1
    if cur <= 0x10FFFF:
        out.append((cur, 0x10FFFF))
    return [(a, b) for a, b in out if not (a >= 0xD800 and b <= 0xDFFF)]


def class_label(lo, hi):
    return class_name((lo, hi))


def dedupe(pcs):
    """collapse projected cells that are identical up to path-select bookkeeping; merge adjacent intervals"""
    seen = {}
    for pc in pcs:
        k = (tuple(pc["acq"]), tuple(sorted(pc["guards"].items())), pc["actions"], pc["ret"], pc["next"])
        if k not in seen:
            seen[k] = pc
    return list(seen.values())


def to_json(table):
    """state -> projected cells, JSON-able (used for ref/*.json)"""
    out = {}
    for st, pcs in table.items():
        if pcs is None:
            out[st] = None
            continue
        rows = {}
        for pc in dedupe(pcs):
            k = (acq_key(pc), tuple(sorted(pc["guards"].items())), pc["actions"], pc["ret"], pc["next"])
            if k not in rows:
                rows[k] = {"acq": [[l, c] for l, c in acq_key(pc)], "classes": [], "guards": pc["guards"],
                           "actions": [[a, list(args)] for a, args in pc["actions"]], "ret": pc["ret"], "next": pc["next"]}
            ivs = acq_intervals(pc)
            if ivs:
                rows[k]["classes"].append([list(i) for i in ivs])
        for r in rows.values():
            if r["classes"] and len(r["classes"][0]) == 1:
                r["classes"] = [[list(i)] for i in merge_intervals([tuple(c[0]) for c in r["classes"]])]
        out[st] = list(rows.values())
    return out


def from_json(j):
    out = {}
    for st, rows in j.items():
        if rows is None:
            out[st] = None
            continue
        cells = []
        for r in rows:
            for ivs in (r["classes"] or [[]]):
                it = iter(ivs)
                acq = [(l, tuple(next(it)) if c == "CLASS" else c) for l, c in r["acq"]]
                cells.append({"acq": acq, "guards": dict(r["guards"]), "actions": tuple((a, tuple(args)) for a, args in r["actions"]),
                              "ret": r["ret"], "next": r["next"], "path_select": {}})
        out[st] = cells
    return out


def render_projected(table):
    """human-readable rendering used for the review of the reference"""
    lines = []
    for st, pcs in table.items():
        lines.append(st + ":")
        if pcs is None:
            lines.append("   <no arm>")
            continue
        groups = {}
        order = []
        for pc in dedupe(pcs):
            k = (acq_key(pc), tuple(sorted(pc["guards"].items())), pc["actions"], pc["ret"], pc["next"])
            if k not in groups:
                groups[k] = []
                order.append(k)
            groups[k].append(acq_intervals(pc))
        for k in order:
            key, guards, acts, ret, nxt = k
            ks = ", ".join("%s=%s" % (l, c) for l, c in key)
            gs = (" if " + " & ".join(("" if v else "!") + g for g, v in guards)) if guards else ""
            ivs = [iv for iv in groups[k] if iv]
            cls = " ".join("x".join(class_label(*i) for i in iv) for iv in ivs)
            if ivs and len(ivs[0]) == 1:
                # one character dimension: print the complement when that is shorter
                mine = merge_intervals([iv[0] for iv in ivs])
                comp = complement_intervals(mine)
                if len(comp) < len(mine):
                    cls = "ANY-BUT " + " ".join(class_label(*i) for i in comp) if comp else "ANY"
                else:
                    cls = " ".join(class_label(*i) for i in mine)
            a = "; ".join("%s(%s)" % (n, ",".join(args)) for n, args in acts)
            lines.append("   [%s]%s %s\n        -> %s | %s | next %s" % (ks, gs, cls, a, ret, nxt))
    return "\n".join(lines)


# --------------------------------------------------------------------------- the two tokenizers
HTML_PRIMS = {
    "emit_char", "emit_chars", "emit_temp_buf", "clear_temp_buf", "bad_char_error", "bad_eof_error", "create_tag",
    "discard_tag", "create_attribute", "emit_current_tag", "emit_current_comment", "emit_current_doctype",
    "clear_doctype_id", "start_consuming_character_reference", "emit_eof", "discard_char", "finish_attribute",
    "emit_error", "step_char_ref_tokenizer", "process_char_ref",
}
HTML_ACCESSORS = {"doctype_id"}
HTML_GUARDS = {
    "self.have_appropriate_end_tag", "self.opts.exact_errors", "self.reconsume", "self.ignore_lf",
    "self.sink.adjusted_current_node_present_but_not_in_html_namespace", "is_supported_simd_feature_detected",
    "self.at_eof", "self.opts.profile",
}


COMMON_GUARDS = {
    "self.opts.exact_errors", "self.reconsume", "self.ignore_lf", "self.at_eof", "self.opts.profile", "self.discard_bom",
    "tokenizer.opts.exact_errors", "self.seen_digit", "self.num_too_big", "self.is_consumed_in_attribute",
}
STEP_LIKE = ("step", "eof_step")
NOT_TABULATED = {
    # name -> reason (reviewed): these bodies are outside the decision-tree fragment
    "new": "constructor: struct literal only",
    "dump_profile": "diagnostics printing only",
    "data_state_simd_fast_path": "SIMD intrinsics; checked by R08.2",
    "data_state_sse2_fast_path": "SIMD intrinsics; checked by R08.2",
    "data_state_neon_fast_path": "SIMD intrinsics; checked by R08.2",
    "is_supported_simd_feature_detected": "cfg-dependent feature test",
}


def _fold_list(ref_helpers, present):
    """reviewed helpers that are straight-line, take no arguments and are no longer methods -> [(name, actions)]"""
    out = []
    for name, cells in (ref_helpers or {}).items():
        if name in present or not cells or len(cells) != 1:
            continue
        c = cells[0]
        if c.get("guards") or c.get("acq") or c.get("ret") not in ("()",) or not c.get("actions"):
            continue
        body = tuple((a, tuple(str(x) for x in args)) for a, args in c["actions"])
        words = set()
        for _, args in body:
            for x in args:
                for m in re.finditer(r"(?<![\w.])([a-z_][a-z_0-9]*)\b(?![(.:])", x):
                    words.add(m.group(1))
        if words - {"true", "false", "self"}:
            continue  # mentions a parameter
        out.append((name, body))
    return out


def tokenizer_tables(ast, which, known=None, ref_helpers=None):
    """all tables of one tokenizer: step, eof_step (projected), helpers and char-ref machine (normal forms).
    known: names of the helper / char-ref methods of the reviewed reference.  A *private* method that is not among
    them (a helper extracted by a refactoring) is inlined at its call sites instead of being tabulated, so that the
    callers' normal forms are compared with the reference as if the code had not been moved."""
    if which == "html":
        crate, ty, prims, accessors = "html5ever", "Tokenizer", HTML_PRIMS, HTML_ACCESSORS
        guards = HTML_GUARDS | COMMON_GUARDS
    else:
        crate, ty, prims, accessors = "xml5ever", "XmlTokenizer", None, {"doctype_id"}
        guards = COMMON_GUARDS | {"self.sink.query_state_change"}
    M = Machine(ast, crate, "tokenizer", ty, "tokenizer::states", {})
    from .flat import scalar_consts
    CONSTS = scalar_consts(ast.crates[crate])
    from . import render as _render
    _render.CONSTS = CONSTS
    if prims is None:
        prims = {n for n in M.methods if n not in STEP_LIKE} - accessors
    new_private = set()
    if known is not None:
        new_private = {n for n, it in M.methods.items() if n not in known and n not in STEP_LIKE and n not in NOT_TABULATED and (it.get("vis") or "") in ("", "pub(crate)", "pub(super)", "pub(self)") and not it.get("trait")}
        prims = set(prims) - new_private
    states = enum_values(M.enums, "XmlState" if "XmlState" in M.enums else "State")
    helpers = {}
    for hn in ("lower_ascii_letter",):
        if hn in M.free_fns:
            helpers[hn] = M.free_fns[hn]
    nodes = [M.methods["step"]["body"]] + [h["body"] for h in helpers.values()]
    cuts, lits = char_cuts(nodes)
    classes = classes_from_cuts(cuts)
    samples = [s for c in classes for s in class_samples(c)]
    inline = dict(helpers)
    acq_names = ("get_char", "peek", "eat", "pop_except_from", "get_preprocessed_char")
    for name, it in M.methods.items():
        if name not in prims and name not in STEP_LIKE and name not in acq_names and name not in NOT_TABULATED and name not in accessors \
                and name not in ("run", "feed", "end", "process_token", "process_token_and_continue"):
            inline.setdefault(name, it)
    out = {"machine": M, "states": [showv(s) for s in states], "classes": classes, "lits": sorted(lits), "raw": {}, "errors": {}, "inlined_new": sorted(new_private)}
    fold = _fold_list(ref_helpers, set(M.methods))
    out["folded"] = sorted(n for n, _ in fold)
    for fn in STEP_LIKE:
        cfg = Config(acquire=make_acquire(samples), primitives=prims, inline=dict(inline), guards=guards, samples=samples, accessors=accessors, consts=CONSTS)
        cfg.fold = fold
        raw = tabulate(M, fn, cfg, classes, states)
        out["raw"][fn] = raw
        out[fn] = {st: (project(c) if c is not None else None) for st, c in raw.items()}
    # helper methods: each in its own normal form, all other methods being opaque calls
    hp = {}
    for name, it in sorted(M.methods.items()):
        if name in STEP_LIKE or name in NOT_TABULATED or name in new_private:
            continue
        try:
            c2, _ = char_cuts([it["body"]] + [M.methods[n]["body"] for n in new_private])
            cl2 = classes_from_cuts(c2)
            cfg = Config(acquire={}, primitives=set(M.methods) - {name} - new_private, inline={n: dict(M.methods[n], new_private=True) for n in new_private}, guards=guards, samples=[], accessors=accessors, consts=CONSTS)
            cfg.fold = fold
            hp[name] = project_fn(tabulate_fn(it, cfg, cl2))
        except Unsupported as e:
            out["errors"][name] = str(e)
    for n, _ in fold:
        # the folded helper keeps its reviewed meaning: that body is exactly what is recognised at the former call sites
        hp[n] = from_json({n: ref_helpers[n]})[n]
    out["helpers"] = hp
    # the character reference sub-tokenizer
    CR = Machine.__new__(Machine)
    items = ast.crates[crate]
    crm = {it["name"]: it for it in items if it["k"] == "Fn" and it.get("self_ty") and it["self_ty"].replace(" ", "").split("<")[0] == "CharRefTokenizer"
           and it.get("body") is not None}
    cr = {}
    new_cr = set()
    if known is not None:
        new_cr = {n for n, it in crm.items() if n not in known and (it.get("vis") or "") in ("", "pub(crate)", "pub(super)", "pub(self)") and not it.get("trait")}
        out["inlined_new"] = sorted(set(out["inlined_new"]) | {"char_ref::" + n for n in new_cr})
    for name, it in sorted(crm.items()):
        if name in new_cr:
            continue
        try:
            c2, _ = char_cuts([it["body"]] + [crm[n]["body"] for n in new_cr])
            cl2 = classes_from_cuts(c2)
            smp = [x for c in cl2 for x in class_samples(c)]
            acq = make_acquire(smp)
            cfg = Config(acquire={"peek": acq["peek"], "get_char": acq["get_char"]}, primitives=set(crm) - {name} - new_cr, inline={n: crm[n] for n in new_cr},
                         guards=guards, samples=smp, accessors={"name_buf", "name_buf_mut"}, consts=CONSTS)
            cfg.int_params = {"base": [10, 16]}
            cr[name] = project_fn(tabulate_fn(it, cfg, cl2))
        except Unsupported as e:
            out["errors"]["char_ref::" + name] = str(e)
    out["charref"] = cr
    return out


def html_machine(ast):
    return tokenizer_tables(ast, "html")


# --------------------------------------------------------------------------- single functions in normal form
def tabulate_fn(item, cfg, classes, char_params=(), self_obj="self", extra_env=None, state_values=None):
    """Normal form of one method: for every choice script (character parameters sampled per class, guards,
    acquisition outcomes) the ordered effects and the returned value.  Returns raw cells as tabulate() does
    (state name = function name)."""
    samples_of = {cl: class_samples(cl) for cl in classes}
    sample_class = {s: cl for cl, ss in samples_of.items() for s in ss}
    all_samples = [s for cl in classes for s in samples_of[cl]]

    def runner(run):
        env = {"self": ("obj", self_obj), "input": ("obj", "input"), "tokenizer": ("obj", "tokenizer")}
        if extra_env:
            env.update(extra_env)
        for p in item["sig"]["params"]:
            if p.get("name") == "self":
                continue
            pname = p["pat"].get("name") if p["pat"]["k"] == "PIdent" else None
            if pname is None:
                continue
            ty = p["ty"].replace(" ", "")
            if pname in char_params or ty == "char":
                env[pname] = run.choose("acq", "param " + pname, [(c, ("ch", c)) for c in all_samples])
            elif ty == "bool":
                env[pname] = run.choose("guard", "param " + pname, [("true", True), ("false", False)])
            elif pname in getattr(cfg, "int_params", {}):
                env[pname] = run.choose("acq", "param " + pname, [(str(x), x) for x in cfg.int_params[pname]])
            elif pname in env:
                pass
            else:
                env[pname] = ("unk", pname)
        return run_body(run, item["body"], env)


    paths = explore(cfg, runner)
    groups = {}
    for p in paths:
        skel = []
        samp = []
        for kind, label, chosen in p["choices"]:
            if kind == "acq" and chosen in sample_class:
                skel.append((kind, label, ("class", sample_class[chosen])))
                samp.append(chosen)
            else:
                for sx in samp[:1]:
                    label = label.replace(repr(sx), "\u00abc\u00bb")
                skel.append((kind, label, chosen))
        groups.setdefault(tuple(skel), []).append((tuple(samp), p))
    cells = []
    for skel, members in groups.items():
        shapes = {(tuple(a[0] for a in p["actions"]), outcome_render(p["outcome"])[0]) for _, p in members}
        cls = [c[2][1] for c in skel if isinstance(c[2], tuple) and c[2][0] == "class"]
        expect = 1
        for c in cls:
            expect *= len(samples_of[c])
        if len(shapes) != 1 or len(members) != expect:
            raise Unsupported("fn %s: partition not exact for %s (%d shapes, %d/%d members)" % (item["name"], skel, len(shapes), len(members), expect))
        acts = []
        p0 = members[0][1]
        for i, (an, _) in enumerate(p0["actions"]):
            per = [((smp[0] if smp else None), p["actions"][i][1]) for smp, p in members]
            acts.append((an, canon_action_args(an, per)))
        per_out = [((smp[0] if smp else None), (outcome_value(p["outcome"]),)) for smp, p in members]
        outv = canon_action_args("out", per_out)[0]
        cells.append({
            "choices": [[k, l, ({"lo": c[1][0], "hi": c[1][1]} if isinstance(c, tuple) else c)] for k, l, c in skel],
            "actions": acts, "outcome": "return", "value": outv, "next": "-",
        })
    return cells


def project_fn(cells):
    """like project() but keeps every guard (helper functions have no path-select notion)"""
    out = []
    for c in cells:
        acq = []
        guards = {}
        for k, l, ch in c["choices"]:
            if k == "guard":
                guards[l] = (ch == "true")
            else:
                acq.append((l, (ch["lo"], ch["hi"]) if isinstance(ch, dict) else ch))
        out.append({"acq": acq, "guards": guards, "actions": tuple((a, tuple(args)) for a, args in c["actions"]),
                    "ret": c["value"], "next": "-", "path_select": {}})
    return out


# --------------------------------------------------------------------------- pairwise comparison (large functions)
def _split_top(s, sep):
    out, depth, cur = [], 0, ""
    for ch in s:
        if ch in "([{":
            depth += 1
        elif ch in ")]}":
            depth -= 1
        if ch == sep and depth == 0:
            out.append(cur)
            cur = ""
        else:
            cur += ch
    out.append(cur)
    return out


def _parse_pat(s):
    """pattern text (flat.showpat) -> ('alt',[..]) | ('ctor',name,[args]) | ('wild',) | ('lit',text)"""
    s = s.strip()
    alts = _split_top(s, "|")
    if len(alts) > 1:
        return ("alt", [_parse_pat(a) for a in alts])
    if s in ("_", ".."):
        return ("wild",)
    for o, c in (("(", ")"), ("{", "}")):
        i = s.find(o)
        if i > 0 and s.endswith(c) and (s[:i].replace("_", "").replace(":", "").isalnum()):
            name = s[:i]
            inner = s[i + 1:-1]
            args = [a for a in _split_top(inner, ",") if a != ""]
            if o == "{":
                fields = {}
                for a in args:
                    if ":" in a:
                        k, v = a.split(":", 1)
                        fields[k.strip()] = _parse_pat(v)
                return ("struct", name, fields)
            return ("ctor", name, [_parse_pat(a) for a in args])
    if s.startswith("(") and s.endswith(")"):
        return ("ctor", "", [_parse_pat(a) for a in _split_top(s[1:-1], ",")])
    return ("lit", s)


def pats_disjoint(a, b):
    if a[0] == "alt":
        return all(pats_disjoint(x, b) for x in a[1])
    if b[0] == "alt":
        return all(pats_disjoint(a, x) for x in b[1])
    if a[0] == "wild" or b[0] == "wild":
        return False
    if a[0] == "lit" and b[0] == "lit":
        if ".." in a[1] or ".." in b[1]:
            return False
        return a[1] != b[1]
    if a[0] != b[0]:
        # a literal constructor name vs a constructor with arguments
        na = a[1] if a[0] != "lit" else a[1]
        nb = b[1] if b[0] != "lit" else b[1]
        return na != nb and na[:1].isupper() and nb[:1].isupper()
    if a[0] == "ctor":
        if a[1] != b[1]:
            return True
        if len(a[2]) != len(b[2]):
            return False
        return any(pats_disjoint(x, y) for x, y in zip(a[2], b[2]))
    if a[0] == "struct":
        if a[1] != b[1]:
            return True
        return any(k in b[2] and pats_disjoint(v, b[2][k]) for k, v in a[2].items())
    return False


_flat_cache = {}


def _flat_alts(text):
    """pattern text -> list of alternative-free patterns (alternatives distributed outwards); None when too many"""
    if text in _flat_cache:
        return _flat_cache[text]

    def go(p):
        if p[0] == "alt":
            out = []
            for x in p[1]:
                out += go(x)
            return out
        if p[0] == "ctor":
            combos = [[]]
            for a in p[2]:
                fa = go(a)
                combos = [c + [x] for c in combos for x in fa]
                if len(combos) > 400:
                    raise OverflowError
            return [("ctor", p[1], c) for c in combos]
        if p[0] == "struct":
            combos = [{}]
            for k, v in p[2].items():
                fv = go(v)
                combos = [dict(c, **{k: x}) for c in combos for x in fv]
                if len(combos) > 400:
                    raise OverflowError
            return [("struct", p[1], c) for c in combos]
        return [p]

    try:
        r = go(_parse_pat(text))
    except OverflowError:
        r = None
    _flat_cache[text] = r
    return r


def pat_subsumes(big, small):
    """every value matched by `small` is matched by `big` (both alternative-free); conservative: False when unsure"""
    if big[0] == "wild":
        return True
    if big[0] == "lit":
        return small[0] == "lit" and big[1] == small[1] and ".." not in big[1]
    if big[0] == "ctor":
        return small[0] == "ctor" and big[1] == small[1] and len(big[2]) == len(small[2]) and all(pat_subsumes(x, y) for x, y in zip(big[2], small[2]))
    if big[0] == "struct":
        return small[0] == "struct" and big[1] == small[1] and all(k in small[2] and pat_subsumes(v, small[2][k]) for k, v in big[2].items())
    return False


# ---------------------------------------------------------------- pattern universe (enum variants) and exhaustiveness
_BUILTIN_ENUMS = [frozenset({"None", "Some"}), frozenset({"Ok", "Err"}), frozenset({"true", "false"})]
UNIVERSE = {}


def set_universe(enums):
    """enums: iterable of iterables of variant names (every enum of the analysed crates)"""
    UNIVERSE.clear()
    for vs in list(enums) + _BUILTIN_ENUMS:
        fs = frozenset(vs)
        for v in fs:
            lst = UNIVERSE.setdefault(v, [])
            if fs not in lst:
                lst.append(fs)


set_universe([])
_W = ("wild",)


def _head(p):
    if p[0] in ("ctor", "struct"):
        return p[1]
    if p[0] == "lit" and (p[1][:1].isupper() or p[1] in ("true", "false")) and p[1].replace("_", "").isalnum():
        return p[1]
    return None


def _variants_for(heads):
    if heads == {""}:
        return frozenset({""})
    cands = None
    for h in heads:
        es = UNIVERSE.get(h)
        if not es:
            return None
        cands = set(es) if cands is None else cands & set(es)
    if cands is None or len(cands) != 1:
        return None
    return next(iter(cands))


def exhaustive(rows):
    """rows: lists (equal length) of alternative-free patterns; True only when every value tuple is matched by some row"""
    if not rows:
        return False
    if not rows[0]:
        return True
    col = [r[0] for r in rows]
    if all(p[0] == "wild" for p in col):
        return exhaustive([r[1:] for r in rows])
    heads = {_head(p) for p in col if p[0] != "wild"}
    uni = None if None in heads else _variants_for(heads)
    if uni is None:
        return exhaustive([r[1:] for r in rows if r[0][0] == "wild"])
    for v in uni:
        fields = sorted({k for r in rows if r[0][0] == "struct" and r[0][1] == v for k in r[0][2]})
        arity = max([len(r[0][2]) for r in rows if r[0][0] == "ctor" and r[0][1] == v] + [0])
        sub = []
        for r in rows:
            p = r[0]
            if p[0] == "wild":
                sub.append([_W] * (len(fields) or arity) + r[1:])
            elif _head(p) == v:
                if p[0] == "struct":
                    sub.append([p[2].get(k, _W) for k in fields] + r[1:])
                elif p[0] == "ctor":
                    args = list(p[2]) + [_W] * (arity - len(p[2]))
                    sub.append(([_W] * len(fields) if fields else args) + r[1:])
                else:
                    sub.append([_W] * (len(fields) or arity) + r[1:])
        if not exhaustive(sub):
            return False
    return True


def _covered(g):
    """some pattern test that holds is covered by the pattern tests (same scrutinee) that do not hold: infeasible"""
    pos, neg = [], {}
    for k, v in g.items():
        if " matches " not in k:
            continue
        inst = "1"
        lbl = k
        if "#" in lbl and lbl.rsplit("#", 1)[1].isdigit():
            lbl, inst = lbl.rsplit("#", 1)
        sc, pt = lbl.split(" matches ", 1)
        if ".get()" in sc or ".take()" in sc or "borrow" in sc:
            continue  # a cell read: two tests may see different values
        if v:
            pos.append((sc, inst, pt))
        else:
            neg.setdefault((sc, inst), []).append(pt)
    for sc, inst, pt in pos:
        ns = neg.get((sc, inst))
        if not ns:
            continue
        fp = _flat_alts(pt)
        if not fp:
            continue
        fn = []
        for x in ns:
            fx = _flat_alts(x)
            if fx:
                fn += fx
        if fn and all(any(pat_subsumes(b, a) for b in fn) for a in fp):
            return True
    # the pattern tests that do not hold leave no value over (their union is the whole type)
    for (sc, inst), ns in neg.items():
        rows = []
        for x in ns:
            fx = _flat_alts(x)
            if fx:
                rows += [[y] for y in fx]
        if len(ns) > 1 and rows and exhaustive(rows):
            return True
    return False


def _guard_conflict(g1, g2):
    """two guard valuations cannot hold together"""
    for k, v in g1.items():
        if k in g2 and g2[k] != v:
            return True
    if g1 is not g2 and _covered(dict(g1, **g2)):
        return True
    if g1 is g2 and _covered(g1):
        return True
    # mutually exclusive pattern tests on the same scrutinee
    pos1 = [k for k, v in g1.items() if v and " matches " in k]
    pos2 = [k for k, v in g2.items() if v and " matches " in k]
    def parts(lbl):
        inst = "1"
        if "#" in lbl and lbl.rsplit("#", 1)[1].isdigit():
            lbl, inst = lbl.rsplit("#", 1)
        sc, pt = lbl.split(" matches ", 1)
        return sc, pt, inst

    for a in pos1:
        sa, pa, ia = parts(a)
        for b in pos2:
            sb, pb, ib = parts(b)
            if sa == sb and ia == ib and pa != pb and pats_disjoint(_parse_pat(pa), _parse_pat(pb)):
                return True
    return False


def compare_pairwise(ref_cells, new_cells, report):
    """every pair of cells that can apply to the same situation must give the same result; every cell must have a partner"""
    n = 0
    ref_cells = [c for c in ref_cells if not _guard_conflict(c["guards"], c["guards"])]
    new_cells = [c for c in new_cells if not _guard_conflict(c["guards"], c["guards"])]
    for which, A, B in (("reference", ref_cells, new_cells), ("code", new_cells, ref_cells)):
        for a in A:
            partners = 0
            for b in B:
                if acq_key(a) != acq_key(b):
                    continue
                ia, ib = acq_intervals(a), acq_intervals(b)
                inter = [(max(x[0], y[0]), min(x[1], y[1])) for x, y in zip(ia, ib)]
                if any(lo > hi for lo, hi in inter):
                    continue
                if _guard_conflict(a["guards"], b["guards"]):
                    continue
                partners += 1
                if which == "code":
                    continue
                pts = [None]
                if inter:
                    lo, hi = inter[0]
                    pts = [chr(x) for x in sorted({lo, hi, (lo + hi) // 2}) if not (0xD800 <= x <= 0xDFFF)]
                for ch in pts:
                    n += 1
                    ra, rb = result_at(a, ch), result_at(b, ch)
                    if ra != rb:
                        report("cell-differs", "under %s%s: reference {%s}  code {%s}" % (
                            {k: v for k, v in list(a["guards"].items())[:8]}, (" at %r" % ch) if ch else "", render_result(ra)[:500], render_result(rb)[:500]))
                        return n
            if partners == 0:
                report("path-missing" if which == "reference" else "path-new", "%s path %s %s -> %s has no counterpart" % (
                    which, list(acq_key(a)), {k: v for k, v in list(a["guards"].items())[:8]}, render_result(result_at(a, None))[:300]))
                return n
    return n
