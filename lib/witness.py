"""Compile-fail witnesses (thorough tier): rustdoc compiles each snippet of engines/witness against /repo's crates."""
import os
import re
import shutil
import subprocess

from .facts import VERIF, REPO, WORK


def run_witnesses():
    """-> list of (item, kind, ok) ; kind in {'compile_fail', 'twin'}"""
    # a copy of engines/witness whose path dependencies point at the tree being analysed
    crate = os.path.join(WORK, "witness-crate")
    shutil.rmtree(crate, ignore_errors=True)
    shutil.copytree(os.path.join(VERIF, "engines", "witness"), crate, ignore=shutil.ignore_patterns("target", "Cargo.lock"))
    ct = open(os.path.join(crate, "Cargo.toml")).read().replace('"/repo/', '"%s/' % REPO.rstrip("/"))
    open(os.path.join(crate, "Cargo.toml"), "w").write(ct)
    shutil.copy(os.path.join(REPO, "Cargo.lock"), os.path.join(crate, "Cargo.lock"))
    env = dict(os.environ, CARGO_NET_OFFLINE="true", CARGO_TARGET_DIR=os.path.join(WORK, "witness-target"))
    r = subprocess.run(["cargo", "+nightly", "test", "--doc", "--offline"], cwd=crate, env=env, stdout=subprocess.PIPE, stderr=subprocess.STDOUT, text=True)
    out = []
    for m in re.finditer(r"^test src/lib\.rs - (\w+) \(line (\d+)\)( - compile fail| - compile)? \.\.\. (\w+)", r.stdout, re.M):
        out.append((m.group(1), "compile_fail" if (m.group(3) or "").strip() == "- compile fail" else "twin", m.group(4) == "ok", int(m.group(2))))
    if not out:
        raise RuntimeError("witness doctests did not run: " + r.stdout[-1500:])
    return out
