"""MIR fact base: loading, CFG utilities, dominators, def-use, call graph."""
import json
import os
from collections import defaultdict


class Fn:
    def __init__(self, crate, d):
        self.crate = crate
        self.d = d
        self.id = d["id"]  # stable id  crate::def::path
        self.path = d["path"]  # display path (crate relative)
        self.blocks = d["blocks"]
        self.locals = d["locals"]
        self.file = d["file"]
        self.line = d["line"]
        self._succ = None
        self._pred = None
        self._dom = None
        self._pdom = None
        self._defs = None

    # ---- naming -----------------------------------------------------------
    @property
    def name(self):
        return self.path.rsplit("::", 1)[-1]

    @property
    def qual(self):
        return "%s::%s" % (self.crate, self.path)

    def where(self, bb=None):
        if bb is None:
            return "%s:%d (%s)" % (self.file, self.line, self.qual)
        t = self.blocks[bb]["t"]
        return "%s:%d (%s bb%d)" % (self.file, t.get("l", 0), self.qual, bb)

    # ---- CFG (normal edges only; unwind/cleanup ignored) --------------------
    def succ(self, b):
        if self._succ is None:
            self._succ = [list(dict.fromkeys(bl["t"]["to"])) for bl in self.blocks]
        return self._succ[b]

    def pred(self, b):
        if self._pred is None:
            self._pred = [[] for _ in self.blocks]
            for i in range(len(self.blocks)):
                for s in self.succ(i):
                    self._pred[s].append(i)
        return self._pred[b]

    def reachable(self):
        seen = {0}
        st = [0]
        while st:
            b = st.pop()
            for s in self.succ(b):
                if s not in seen:
                    seen.add(s)
                    st.append(s)
        return seen

    def reach_from(self, start, avoid=()):
        """blocks reachable from the *successors* of nothing: start itself included; never enters `avoid`."""
        avoid = set(avoid)
        seen = set()
        st = [start] if start not in avoid else []
        while st:
            b = st.pop()
            if b in seen:
                continue
            seen.add(b)
            for s in self.succ(b):
                if s not in seen and s not in avoid:
                    st.append(s)
        return seen

    def _compute_dom(self, succ, pred, roots, n):
        # iterative set-based dominators; n is small enough (<2100 blocks)
        order = []
        seen = set()
        st = [(r, iter(succ(r))) for r in roots]
        for r in roots:
            seen.add(r)
        # reverse postorder
        post = []
        while st:
            b, it = st[-1]
            adv = False
            for s in it:
                if s not in seen:
                    seen.add(s)
                    st.append((s, iter(succ(s))))
                    adv = True
                    break
            if not adv:
                post.append(b)
                st.pop()
        order = post[::-1]
        idx = {b: i for i, b in enumerate(order)}
        idom = {r: r for r in roots}
        VROOT = -1
        if len(roots) > 1:
            # virtual root
            idom = {r: VROOT for r in roots}
            idom[VROOT] = VROOT
            idx[VROOT] = -1

        def intersect(a, b):
            while a != b:
                while idx[a] > idx[b]:
                    a = idom[a]
                while idx[b] > idx[a]:
                    b = idom[b]
            return a

        changed = True
        while changed:
            changed = False
            for b in order:
                if b in roots:
                    continue
                ps = [p for p in pred(b) if p in idom]
                if not ps:
                    continue
                new = ps[0]
                for p in ps[1:]:
                    new = intersect(new, p)
                if idom.get(b) != new:
                    idom[b] = new
                    changed = True
        return idom

    def idom(self):
        if self._dom is None:
            self._dom = self._compute_dom(self.succ, self.pred, [0], len(self.blocks))
        return self._dom

    def dominates(self, a, b):
        """a dom b (reflexive)."""
        idom = self.idom()
        if b not in idom:
            return False
        while True:
            if a == b:
                return True
            nb = idom.get(b)
            if nb is None or nb == b:
                return False
            b = nb

    def exits(self):
        r = self.reachable()
        return [i for i in r if self.blocks[i]["t"]["k"] == "return"]

    def ipdom(self):
        if self._pdom is None:
            ex = self.exits()
            self._pdom = self._compute_dom(self.pred, self.succ, ex, len(self.blocks)) if ex else {}
        return self._pdom

    def postdominates(self, a, b):
        """a pdom b (reflexive), w.r.t. normal return exits."""
        ip = self.ipdom()
        if b not in ip:
            return False
        while True:
            if a == b:
                return True
            nb = ip.get(b)
            if nb is None or nb == b or nb == -1:
                return False
            b = nb

    def edge_dominates(self, a, t, b):
        """edge a->t dominates block b: every path entry->b passes through the edge."""
        if not self.dominates(t, b):
            return False
        # every predecessor of t other than a must itself be dominated by t (back edge)
        for p in self.pred(t):
            if p != a and not self.dominates(t, p):
                return False
        return True

    # ---- statements / calls ------------------------------------------------
    def calls(self):
        """yield (bb, callee dict|None, terminator)"""
        for i, bl in enumerate(self.blocks):
            t = bl["t"]
            if t["k"] == "call":
                f = t["f"]
                yield i, (f[1] if f[0] == "fn" else None), t

    def calls_to(self, pred):
        for i, c, t in self.calls():
            if c is not None and pred(c):
                yield i, c, t

    def defs(self):
        """local -> list of ('stmt', bb, idx, rvalue) | ('call', bb, term) | ('arg',)"""
        if self._defs is None:
            d = defaultdict(list)
            for a in range(1, self.d["argc"] + 1):
                d[a].append(("arg",))
            for i, bl in enumerate(self.blocks):
                for j, s in enumerate(bl["s"]):
                    if s[0] == "=":
                        pl = s[1]
                        if not pl[1]:
                            d[pl[0]].append(("stmt", i, j, s[2]))
                        else:
                            d[pl[0]].append(("partial", i, j, s[2], pl[1]))
                t = bl["t"]
                if t["k"] == "call":
                    pl = t["dest"]
                    if not pl[1]:
                        d[pl[0]].append(("call", i, t))
                    else:
                        d[pl[0]].append(("partialcall", i, t, pl[1]))
            self._defs = d
        return self._defs

    def local_name(self, l):
        return self.locals[l][1]

    def local_ty(self, l):
        return self.locals[l][0]

    # ---- provenance ---------------------------------------------------------
    PASS_THROUGH = (
        "Deref::deref",
        "DerefMut::deref_mut",
        "Clone::clone",
        "Borrow::borrow",
        "AsRef::as_ref",
        "RefCell::<T>::borrow",
        "RefCell::<T>::borrow_mut",
        "Option::<T>::as_ref",
        "Option::<T>::as_mut",
        "Option::<&T>::cloned",
        "Option::<T>::unwrap",
        "Option::<T>::expect",
        "Option::<T>::as_deref",
        "Cell::<T>::get",
        "Into::into",
        "From::from",
        "Ref::<'b, T>::map",
    )

    def root(self, operand, depth=0, through_calls=True):
        """Provenance of an operand: follow single-definition temporaries through
        copies, moves, reborrows, derefs, clones.  Returns a tuple describing the root:
          ('local', l, projs)       a named local / argument with projections read
          ('call', bb, callee, projs)  result of a call that is not pass-through
          ('const', value)
          ('multi', l)              local with several definitions
        projs is a tuple of projection strings accumulated (outermost last).
        """
        if operand[0] in ("k", "k?", "fn"):
            return ("const", operand[1] if operand[0] != "fn" else operand[1]["path"])
        place = operand[1]
        return self.root_place(place, depth, through_calls)

    def root_place(self, place, depth=0, through_calls=True):
        l, projs = place[0], tuple(place[1])
        if depth > 40:
            return ("local", l, projs)
        defs = self.defs().get(l, [])
        full = [x for x in defs if x[0] in ("stmt", "call", "arg")]
        if l <= self.d["argc"] and l != 0:
            return ("local", l, projs)
        if self.local_name(l) is not None and len(full) != 1:
            return ("local", l, projs)
        if len(full) != 1:
            return ("multi", l, projs) if full else ("local", l, projs)
        d = full[0]
        if d[0] == "stmt":
            rv = d[3]
            if rv["k"] == "use":
                o = rv["ops"][0]
                if o[0] in ("c", "m"):
                    r = self.root_place(o[1], depth + 1, through_calls)
                    return self._addproj(r, projs)
                return ("const", o[1])
            if rv["k"] in ("ref", "rawptr"):
                r = self.root_place(rv["place"], depth + 1, through_calls)
                return self._addproj(r, projs)
            if rv["k"] == "cast":
                o = rv["ops"][0]
                if o[0] in ("c", "m"):
                    r = self.root_place(o[1], depth + 1, through_calls)
                    return self._addproj(r, projs)
            if self.local_name(l) is not None:
                return ("local", l, projs)
            return ("rvalue", l, rv["k"], projs)
        if d[0] == "call":
            t = d[2]
            f = t["f"]
            c = f[1] if f[0] == "fn" else None
            if c is not None and through_calls and any(c["path"].endswith(p) for p in self.PASS_THROUGH) and t["a"]:
                o = t["a"][0]
                if o[0] in ("c", "m"):
                    r = self.root_place(o[1], depth + 1, through_calls)
                    return self._addproj(r, projs)
            return ("call", d[1], c, projs)
        return ("local", l, projs)

    @staticmethod
    def _addproj(r, projs):
        if not projs:
            return r
        if r[0] in ("local", "multi"):
            return (r[0], r[1], tuple(r[2]) + projs)
        if r[0] == "call":
            return (r[0], r[1], r[2], tuple(r[3]) + projs)
        if r[0] == "rvalue":
            return (r[0], r[1], r[2], tuple(r[3]) + projs)
        return r

    def describe_root(self, r):
        if r[0] == "local":
            n = self.local_name(r[1]) or "_%d" % r[1]
            return n + "".join(p for p in r[2] if p != "*")
        if r[0] == "call":
            c = r[2]
            return "%s(..)%s" % (c["path"] if c else "<indirect>", "".join(p for p in r[3] if p != "*"))
        if r[0] == "const":
            return "const %r" % (r[1],)
        return str(r)

    # ---- switch edges ---------------------------------------------------------
    def bool_edges(self, bb):
        """for a switch on a bool: returns (operand, true_target, false_target) or None"""
        t = self.blocks[bb]["t"]
        if t["k"] != "switch":
            return None
        if t["dty"] != "bool":
            return None
        vals = t["vals"]
        tos = t["to"]
        if vals == [0]:
            return (t["discr"], tos[1], tos[0])
        if vals == [1]:
            return (t["discr"], tos[0], tos[1])
        return None


class Mir:
    def __init__(self, facts_dir, crates, renames=None):
        self.dir = facts_dir
        self.fns = {}  # id -> Fn
        self.by_crate = defaultdict(list)
        self.adts = {}
        self.impls = []
        self.statics = []
        for c in crates:
            if renames and c in renames:
                from . import renames as _rn
                d = json.loads(_rn.apply_mir_text(open(os.path.join(facts_dir, c + ".mir.json")).read(), *renames[c]))
            else:
                d = json.load(open(os.path.join(facts_dir, c + ".mir.json")))
            for f in d["fns"]:
                fn = Fn(c, f)
                self.fns[fn.id] = fn
                self.by_crate[c].append(fn)
            for a in d["adts"]:
                a["crate"] = c
                self.adts[c + "::" + a["path"]] = a
            for i in d["impls"]:
                i["crate"] = c
                self.impls.append(i)
            for s in d["statics"]:
                s["crate"] = c
                self.statics.append(s)
        self._cg = None

    def find(self, crate, suffix, exact=False):
        """functions of `crate` whose display path ends with `suffix`"""
        out = []
        for f in self.by_crate[crate]:
            if (f.path == suffix) if exact else (f.path == suffix or f.path.endswith("::" + suffix) or f.path.endswith(suffix)):
                out.append(f)
        return out

    def one(self, crate, suffix):
        fs = self.find(crate, suffix)
        if len(fs) != 1:
            raise AnchorMissing("%s::%s matches %d functions" % (crate, suffix, len(fs)))
        return fs[0]

    def callee_fn(self, c):
        """resolve a callee dict to a local Fn if we have its body"""
        if c is None:
            return None
        rid = c.get("resolved_id") or c.get("id")
        return self.fns.get(rid)

    def callgraph(self):
        """id -> set of callee ids (only callees whose body we have), closures attached to parents"""
        if self._cg is None:
            cg = defaultdict(set)
            # trait method -> implementations in our crates
            impls_of = defaultdict(set)
            for f in self.fns.values():
                tr = f.d.get("impl_trait")
                if tr:
                    impls_of[(tr.split("<")[0].rsplit("::", 1)[-1], f.name)].add(f.id)
            self.impls_of = impls_of
            for f in self.fns.values():
                for bb, c, t in f.calls():
                    if c is None:
                        continue
                    rid = c.get("resolved_id") or c.get("id")
                    if rid in self.fns:
                        cg[f.id].add(rid)
                    elif c.get("trait") and not c.get("resolved_id"):
                        key = (c["trait"].rsplit("::", 1)[-1], c["path"].rsplit("::", 1)[-1])
                        for i in impls_of.get(key, ()):
                            cg[f.id].add(("dyn", i))
                # closures and fn items referenced as values
                for bl in f.blocks:
                    for s in bl["s"]:
                        if s[0] == "=":
                            rv = s[2]
                            if rv["k"] == "aggregate" and rv.get("closure"):
                                pass
                            for o in rv.get("ops", []):
                                if o[0] == "fn" and o[1].get("id") in self.fns:
                                    cg[f.id].add(o[1]["id"])
                    t = bl["t"]
                    if t["k"] == "call":
                        for o in t["a"]:
                            if o[0] == "fn" and o[1].get("id") in self.fns:
                                cg[f.id].add(o[1]["id"])
            # closures: attach to parent
            for f in self.fns.values():
                if f.d["kind"] == "Closure":
                    par = f.d.get("closure_of")
                    for g in self.by_crate[f.crate]:
                        if g.path == par:
                            cg[g.id].add(f.id)
            self._cg = cg
        return self._cg


class AnchorMissing(Exception):
    pass


def callee_is(c, *suffixes):
    if c is None:
        return False
    p = c["path"]
    r = c.get("resolved", "")
    for s in suffixes:
        if p == s or p.endswith("::" + s) or p.endswith(s) or (r and (r.endswith("::" + s) or r.endswith(s))):
            return True
    return False
